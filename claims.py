"""Per-property claim texts used to generate MANIFEST.json (tools/gen_manifest.py)."""

CLAIMS = {
    "C06": {
        "technique": "static non-interference analysis: taint from .value reads + context-sensitive abstract "
                     "interpretation of emission effects; arms of every value-dependent branch compared",
        "text": "Decides, for every branch / loop / comprehension in the value-level modules whose control depends on a "
                "secret value, that both arms emit the same sequence of witness allocations and constraints up to the "
                "exit of the function (or the deviating arm raises), that no emitting loop has a value-dependent "
                "iteration space and that no value reaches a backend linear-combination coefficient. One verdict per "
                "construct holds for every input, which no finite set of runs can give.",
        "note": "Decides the structural (non-interference) reason for obliviousness of library code; assumes client "
                "programs do not branch on .value themselves and that backends allocate one variable / one constraint "
                "per call. Operators on operands of unknown kind are reported undecided, not violated.",
    },
}

NOT_APPLICABLE = {}
