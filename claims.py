"""Per-property claim texts used to generate MANIFEST.json (tools/gen_manifest.py)."""

CLAIMS = {
    "C06": {
        "technique": "static non-interference analysis: taint from .value reads + context-sensitive abstract "
                     "interpretation of emission effects; arms of every value-dependent branch compared",
        "text": "Decides, for every branch / loop / comprehension in the value-level modules whose control depends on a "
                "secret value, that both arms emit the same sequence of witness allocations and constraints up to the "
                "exit of the function (or the deviating arm raises), that no emitting loop has a value-dependent "
                "iteration space and that no value reaches a backend linear-combination coefficient. One verdict per "
                "construct holds for every input, which no finite set of runs can give.",
        "note": "Decides the structural (non-interference) reason for obliviousness of library code; assumes client "
                "programs do not branch on .value themselves and that backends allocate one variable / one constraint "
                "per call. Operators on operands of unknown kind are reported undecided, not violated.",
    },
}

CLAIMS["C07"] = {
    "technique": "static path-condition analysis of every raise (abstract-interpreter branch stack), zero-exclusion "
                 "of implicit raisers, shape + polynomial check of the guarded arm of add_constraint, emission "
                 "equality of hint arms, kind/idiom check of if_then_else's lazy-branch guards",
    "text": "Decides the structural half of guard inertness: every value-dependent raise is governed by a test that is "
            "false under ignore_errors(); implicit raisers exclude the raising value; guarded constraints are emitted "
            "through the dummy path with the dummy hinted v*w-y; dummy hint arms emit like honest arms; lazy branches "
            "run under the condition's wire and its logical complement. Holds for every input because it is a fact "
            "about each raise / call site, not about sampled runs.",
    "note": "Does not decide 'same values and same errors under a true guard' (value semantics) nor uniqueness of the "
            "selected value (C02). Four genuine unsuppressed raises are recorded as known findings.",
}
CLAIMS["C08"] = {
    "technique": "typestate/pairing analysis on statement CFGs with exceptional edges (path queries, dominators) + "
                 "package-wide store census of guard state",
    "text": "Decides on the CFG that add_guard saves exactly the state it writes before writing it, restore_guard writes "
            "each component back from the matching token position, every add_guard call is followed by "
            "restore_guard(token) on all normal and exceptional paths, nothing can raise after the first write in "
            "add_guard, branch contexts release before anything that can raise and leave before re-entering, the new "
            "guard is `guard & cond` / suppression is only or-ed / LinComb.ONE becomes the new guard, and nobody else "
            "writes guard state. Exceptional exits at every statement are covered by construction of the CFG.",
    "note": "Trusted: the CFG construction (sa/cfg.py). The block API's field-stored token (no release on exceptions "
            "in user code) is a recorded known finding. Client code outside /repo is out of scope.",
}

NOT_APPLICABLE = {}
