"""Per-property claim texts used to generate MANIFEST.json (tools/gen_manifest.py)."""

CLAIMS = {
    "C06": {
        "technique": "static non-interference analysis: taint from .value reads + context-sensitive abstract "
                     "interpretation of emission effects; arms of every value-dependent branch compared",
        "text": "Decides, for every branch / loop / comprehension in the value-level modules whose control depends on a "
                "secret value, that both arms emit the same sequence of witness allocations and constraints up to the "
                "exit of the function (or the deviating arm raises), that no emitting loop has a value-dependent "
                "iteration space and that no value reaches a backend linear-combination coefficient. One verdict per "
                "construct holds for every input, which no finite set of runs can give.",
        "note": "Decides the structural (non-interference) reason for obliviousness of library code; assumes client "
                "programs do not branch on .value themselves and that backends allocate one variable / one constraint "
                "per call. Operators on operands of unknown kind are reported undecided, not violated.",
    },
}

CLAIMS["C07"] = {
    "technique": "static path-condition analysis of every raise (abstract-interpreter branch stack), zero-exclusion "
                 "of implicit raisers, shape + polynomial check of the guarded arm of add_constraint, emission "
                 "equality of hint arms, kind/idiom check of if_then_else's lazy-branch guards",
    "text": "Decides the structural half of guard inertness: every value-dependent raise is governed by a test that is "
            "false under ignore_errors(); implicit raisers exclude the raising value; guarded constraints are emitted "
            "through the dummy path with the dummy hinted v*w-y; dummy hint arms emit like honest arms; lazy branches "
            "run under the condition's wire and its logical complement. Holds for every input because it is a fact "
            "about each raise / call site, not about sampled runs.",
    "note": "Does not decide 'same values and same errors under a true guard' (value semantics) nor uniqueness of the "
            "selected value (C02). Four genuine unsuppressed raises are recorded as known findings.",
}
CLAIMS["C08"] = {
    "technique": "typestate/pairing analysis on statement CFGs with exceptional edges (path queries, dominators) + "
                 "package-wide store census of guard state",
    "text": "Decides on the CFG that add_guard saves exactly the state it writes before writing it, restore_guard writes "
            "each component back from the matching token position, every add_guard call is followed by "
            "restore_guard(token) on all normal and exceptional paths, nothing can raise after the first write in "
            "add_guard, branch contexts release before anything that can raise and leave before re-entering, the new "
            "guard is `guard & cond` / suppression is only or-ed / LinComb.ONE becomes the new guard, and nobody else "
            "writes guard state. Exceptional exits at every statement are covered by construction of the CFG.",
    "note": "Trusted: the CFG construction (sa/cfg.py). The block API's field-stored token (no release on exceptions "
            "in user code) is a recorded known finding. Client code outside /repo is out of scope.",
}

CLAIMS["C13"] = {
    "technique": "effect analysis of the operator methods (stores, mutating calls, aliases), abstract execution of the "
                 "dictionary merge on the three key classes with polynomial values, literal evaluation of moduli against "
                 "a curve table + Miller-Rabin, shape check of fieldinverse and the gmpy fallback",
    "text": "Decides for the three pure-Python backends that no linear-combination operator stores into, or calls a "
            "mutator on, an operand or an alias of its container; that addition yields S+O / S / O for keys in both / "
            "one operand, scaling maps every coefficient c to c*k, negation is *-1 and subtraction is +(-other); that "
            "each modulus literal equals the prime scalar-field order of the backend's curve; and that fieldinverse "
            "inverts modulo the very binding get_modulus() returns. A per-construct verdict covers all expression "
            "trees and assignments.",
    "note": "Trusted: curve table, Fermat inverse for prime m. libsnark's C++ class and nobackend are out of scope. "
            "Uninterpretable merge shapes are reported undecided.",
}
CLAIMS["C18"] = {
    "technique": "wiring census + CFG dominance in the interposed hooks + finite decision table of the guard expression "
                 "extracted from the ast + stated CPython termination-mode table",
    "text": "Decides that there is exactly one module-level atexit.register(maybe(final)), that sys.exit and "
            "sys.excepthook are interposed with originals kept, that the replacements record before delegating and "
            "always delegate with their arguments, that maybe_ runs the proving step iff exitcode in {None,0} and no "
            "exception (10-cell table, exhaustive), that final() touches only interface members or defensive "
            "attributes, and joins the interposed hooks with a table of termination modes.",
    "note": "Trusted: the termination-mode table (printed in the evidence). raise SystemExit(n) and builtins.exit(n) "
            "bypass both hooks: known findings. os._exit / signals / hand-called prove() are not decided.",
}
CLAIMS["C19"] = {
    "technique": "literal evaluation of the registry, role-based location of the three selection stages in the module "
                 "ast, guard/pairing/order checks, static import-graph closure between registry modules, interface "
                 "census (attributes accessed on the backend object, resolved by the abstract interpreter)",
    "text": "Decides over the finite configuration space: registry rows unique and existing with nobackend last; "
            "pre-import scan, environment stage and auto-detection in that order with the latter two guarded by "
            "`backend is None`; name and module always taken from the same row; first hit wins; a named backend is "
            "imported outside any try and an unknown name is reported; no registry module statically imports an "
            "earlier row's module (else the reported name is wrong); every registry module binds every attribute the "
            "package accesses on the backend.",
    "note": "Three derived backends (libsnarkgg, zkifbellman, zkifbulletproofs) import their base module: known "
            "findings. Loadability of third-party dependencies is environment, not decided.",
}

CLAIMS["C10"] = {
    "technique": "symbolic (non-executing) interpretation of the serializer into per-file write-event streams with "
                 "polynomial sizes; parsing of the streams against the iden3 .wtns/.r1cs templates; affine agreement of "
                 "allocator keys, wire-index map and witness slot order",
    "text": "Decides for all traced programs and witness values: every field-size write carries a literal in [0,p), the "
            "modulus or `e % p`; each declared section length equals, as a polynomial in P, W, K and sums over "
            "constraints, the bytes written until the next section; declared counts (nWires, nPubOut, nConstraints, "
            "witness count, per-LC term counts) equal what the loops write; magic/version/section ids/field size and "
            "little-endian byte order match the format; k-th public value has key k, wire k, slot k and k-th private "
            "value key -k, wire P+k, slot P+k.",
    "note": "Trusted: transcription of the iden3 formats. Not decided: acceptance by snarkjs, satisfaction of the decoded "
            "system (C01). The unreduced witness write was a genuine defect, repaired (fix: commit).",
}
CLAIMS["C20"] = {
    "technique": "module-level def-use provenance of the parameter key; literal evaluation of the parameter table against "
                 "reader index arithmetic and the curve table; polynomial normal forms for round offsets and padding; "
                 "C06 non-interference analysis restricted to the hash modules",
    "text": "Decides the structural clauses: the Poseidon parameter set is selected by runtime.backend_name (never the "
            "environment or a literal default); every table entry has R_F+R_P rows of t constants below the registered "
            "backend's prime, a t x t matrix, even R_F and gcd(a,p-1)=1; permute() runs R_F/2, R_P, R_F/2 rounds adding "
            "rows r, R_F/2+r, R_F/2+R_P+r, with full/partial S-box layers each followed by the MDS mix; padding appends "
            "exactly m - n mod m elements starting with the marker; both hash gadgets are data-oblivious; the subset-sum "
            "hash uses the active backend's prime and pairs coefficient i with bit i.",
    "note": "Not decided: equality with a reference implementation and the published test vectors (value facts over all "
            "inputs). The environment-keyed parameter lookup was a genuine defect, repaired (fix: commit).",
}

CLAIMS["C11"] = {
    "technique": "shape + affine-arithmetic checks of the FlatBuffers builder code (byte loops, id formulas), straight-line "
                 "message-sequence extraction per output file, name-occurrence non-interference (`privvals` only under len()), "
                 "call-time read census of the modulus, schema/stub name agreement",
    "text": "Decides: every byte vector extracts (v >> 8j) & 255 over reversed(range(BL)) from a value reduced mod the modulus "
            "(or modulus-1); instance ids are 1..P, witness ids P+1..P+W, free_variable_id P+W+1 and the constraint writer "
            "maps allocator keys to exactly those ids; circuit.zkif receives header+constraints and no witness message, and "
            "the functions writing it read the private values only through len(); computation.zkif receives all three; the "
            "modulus is read at call time everywhere and no consumer reads backend.modulus directly; schema functions exist "
            "and message tags match the stored tables; messages are size-prefixed.",
    "note": "Trusted: FlatBuffers builder semantics and the generated stubs. The FlatBuffers wire format itself and the "
            "satisfaction of the decoded system are not decided.",
}
CLAIMS["C12"] = {
    "technique": "CFG ordering query (flush/close before read-back) with per-writer flush summaries, writer/reader grammar "
                 "extraction (print() records vs token indices), dominance order of the sub-circuit glue protocol, "
                 "guard-implication check of the unit-wire bypass",
    "text": "Decides: every path in prove() to a reader of pysnark_eqs / wires / values passes a flush or close of the "
            "corresponding writer when some writer leaves records unflushed; every record kind written is handled by the "
            "splitter with indices within the written fields; pubval writes wire, I/O wire with the same value and the "
            "linking equation, privval the wire only; Sig coefficients are reduced and term lists concatenated; @subqap "
            "switches context, copies arguments/results with the original's value in (outer, inner) order and reaches "
            "vc_glue on every normal path with both blocks declared under the same randomness; a digest mismatch raises; "
            "only exact unit wires bypass re-allocation in block declarations.",
    "note": "Two genuine defects found by these rules were repaired (flush before read-back; unit-wire bypass). Not decided: "
            "satisfaction of the equations (C01), digest collisions, the external binaries.",
}

CLAIMS["C01"] = {
    "technique": "who-may-emit census + path-sensitive def-use substitution of witness hints into value terms and "
                 "polynomial-identity checking of v*w-y at every emission site, with finite case splits (sign, zero-ness, "
                 "divisibility, booleanity); no solver, no execution",
    "text": "Decides the structural reason for completeness: backend.add_constraint is called only from "
            "add_constraint_unsafe; at every call of add_constraint_unsafe / add_constraint in the package the constraint "
            "v*w = y is, on every honest path, a polynomial identity of the hints computed next to it (using a*inv(a)=1 for "
            "a != 0, exact division under a dominating divisibility test, a%c = a - c*(a//c) and the bit-decomposition "
            "lemma under its dominating range test) or follows from the dominating run-time check; backends record exactly "
            "the value given. A wrong hint for some input class (negative, zero, non-divisible) shows up as a non-zero "
            "normal form in the corresponding case.",
    "note": "Premise: is_guard() true and ignore_errors() false (the property's own premise); false guards are covered by the "
            "dummy path (C07). Trusted lemmas are listed in the evidence. Not decided: external provers, libsnark's C++ side.",
}
CLAIMS["C03"] = {
    "technique": "normalisation of each assertion's run-time check and gadget call to canonical affine integer relations "
                 "(E >= 0, E == 0, E != 0) and comparison; parameter dataflow for widths; name-for-name delegation check; "
                 "polynomial recognition of the booleanity constraint; CFG must-pass-through for suppression symmetry",
    "text": "Decides for the seven relational assertions that the relation the run-time check accepts is exactly the relation "
            "the gadget enforces (same bounds, off-by-one included), that a width parameter used by the check is the one the "
            "gadget is built with, that every Boolean/fixed-point wrapper delegates to the LinComb method of the same name with "
            "both operands converted, that declaring a Boolean emits x(1-x)=0 unless explicitly waived and the public "
            "constructors never waive it, that the gadget call lies on every completing path while the check is suppressible, "
            "and that secret bounded integers are range-checked on unpack.",
    "note": "Soundness of the primitive gadgets themselves belongs to C02. Two genuine defects (assert_range bound, "
            "assert_positive width) were found by these rules and repaired.",
}
CLAIMS["C04"] = {
    "technique": "inductive-invariant check: value-term homomorphism on every LinComb(value, lc) construction per path "
                 "(polynomial normal forms) + store census of .value/.lc + wrapper attribute census",
    "text": "Decides that value == eval(lc) (mod p) is preserved by every construction and mutation in the package: each "
            "LinComb(V, L) has equal value terms for V and L on every path, including error-suppressed and guarded ones; the "
            "only stores to a .value are reductions modulo (or shifts by multiples of) the active backend's modulus; no .lc "
            "is re-assigned; the wrappers keep no second copy of the value.",
    "note": "Relies on R-C01-4 and C13 (backends store what they get and are homomorphic). One genuine defect (suppressed "
            "integer division reporting 0) was found and repaired.",
}

CLAIMS["C16"] = {
    "technique": "parameter dataflow for widths, CFG must-pass-through of the recomposition equality, abstract "
                 "interpretation of list lengths / offsets of the packer classes as canonical symbolic widths",
    "text": "Decides that the width parameter of to_bits / check_positive / assert_positive governs the run-time test, the "
            "number of bits built and the gadget call; that to_bits allocates every bit through the constraining Boolean "
            "constructor, hints bit i with bit i of the value and passes the recomposition equality on every completing "
            "path; that from_bits pairs bit i with 2^i; that for each packer len(pack(v)) = bitlen() and unpack consumes "
            "bitlen() positions from pos (same width expression in bitlen, both pack arms and the unpack slice; PackList "
            "offsets advance by each child's bitlen; PackRepeat stride = child bitlen); that plain values outside [0,mod) "
            "are rejected unsuppressibly on pack and secret ones range-checked on unpack.",
    "note": "The round-trip equality over all values is a value property and is not decided. The assert_positive width "
            "defect found by R-C16-1 was repaired.",
}
CLAIMS["C17"] = {
    "technique": "reverse call-graph reachability to backend.pubval over kind-aware call edges (who-may-publish), shape of "
                 "the recursive traversal and converter lambdas, CFG dominance of the kwargs refusal, value-term identity in "
                 "val()",
    "text": "Decides that only the publishing API (PubVal, val(), PubValFxp/PubValBool, the @snark wrapper and its traversal) "
            "reaches backend.pubval - no operator, assertion, gadget, hash or array function does; that for_each_in recurses "
            "into exactly list/tuple/dict, over the whole container, in order and unfiltered, and sends every leaf through "
            "the converter; that the wrapper converts int/float/bool arguments, calls the function on the converted "
            "arguments after refusing kwargs, replaces LinComb/LinCombFxp/LinCombBool results by .val() and returns them; "
            "that val() allocates one public wire with the same value, constrains it equal and returns the plain value; and "
            "that the wrapper itself makes no other call.",
    "note": "Bodies of wrapped functions are client code: what they publish explicitly is allowed by the API.",
}

CLAIMS["C02"] = {
    "technique": "def-use of allocated witnesses into constraint-emitting calls, truth tables of the polynomials behind "
                 "unconstrained Boolean constructions, polynomial relation + receiver/argument identity of each gadget's "
                 "constraints and range checks (must-be-present obligations)",
    "text": "Decides three necessary structural clauses of soundness: no operation returns or drops a fresh witness that no "
            "constraint mentions; every LinCombBool(e, False) wraps a polynomial over Boolean operands whose truth table stays "
            "in {0,1}; each gadget carries its full set of obligations with the right operands - q*d = x - r with r < d and "
            "r >= 0 on the remainder, both zero-test constraints, the sign-test product constraint over Boolean bits, "
            "decompose/per-bit-truth-table/recompose for the bitwise operators, Boolean-typed condition and f + c(t-f) for "
            "selection, constrained bits + recomposition in to_bits, one-hot sum == 1 for secret indices. Replacing one range "
            "check by another of equal cost (same constraint count, tests still green) is caught.",
    "note": "Uniqueness over ALL witness completions is algebra over the solution set (solver family) and is NOT claimed: e.g. "
            "the unconstrained quotient range of __divmod__ is out of reach of these rules. The int-operand bitwise operators "
            "return unconstrained witnesses: three known findings (test_bench pins 0 constraints).",
}
CLAIMS["C14"] = {
    "technique": "units (scale-exponent) abstract interpretation of every LinCombFxp method per operand-kind combination; "
                 "operator-dispatch model for deference and reflected operators",
    "text": "Decides the scaling discipline the mechanism list names: every LinCombFxp(x, False) receives a quantity scaled "
            "by exactly 2^r, every scaling constructor an unscaled one; sums, comparisons and assertions relate equally "
            "scaled quantities; products are rescaled by // 2^r, quotients pre-scaled by * 2^r, divmod yields (unscaled "
            "quotient, scaled remainder); add_scaling adds and remove_scaling removes exactly one factor; conversions "
            "allocate at scale 1; reflected operators lift the left operand and call the forward method in the right order; "
            "LinComb operators return NotImplemented for a fixed-point right operand.",
    "note": "Numeric agreement (rounding direction, negatives) is a value property and is not decided; the int-vs-fixed-point "
            "strict comparison defect named in the property has no structural signature (the literal 1 is scaled consistently) "
            "and is not found by these rules.",
}
CLAIMS["C15"] = {
    "technique": "shape + canonical affine relation checks of the two secret-index paths, index-agreement check of inner "
                 "product / per-position selection, row-view protocol check, C06 non-interference analysis over array.py",
    "text": "Decides that both secret-index paths build the selector [item == ix] over range(len(arr)) and assert its sum to be "
            "1, that the run-time bounds check accepts exactly 0 <= i < len, raises IndexError, precedes the selector and is "
            "suppressible only by ignore_errors(), that a read is lin_comb(selector, arr) with coefficient i on value i, that "
            "a write stores if_then_else(selector[ix], new, old[ix]) at position ix for every ix, that secret-index row reads "
            "are read-only views and multi-dimensional writes copy/write/store back, and that array access emits the same "
            "constraints for every index value.",
    "note": "Value agreement with Python lists over all contents and histories is not decided.",
}

CLAIMS["C05"] = {
    "technique": "canonical affine relation of each comparison vs the operator's meaning, operator-of-hint correspondence, "
                 "truth tables of the Boolean operators' polynomials, reflected-operand-order check, operand-use census, "
                 "sign-guard dominance for slice bounds, zero-test dominance for divisors",
    "text": "Decides necessary structural clauses of agreement with Python: every reflected method computes `other op self` "
            "(aliases only on commutative operators); each comparison tests exactly the relation its name denotes (off-by-one "
            "included); each result hint is computed with the Python operator the dunder implements, floor division only under "
            "a divisibility test, divmod hints equal (s//d, s - (s//d)d); Boolean and/or/xor/not polynomials have the operators' "
            "truth tables on both the wire and the constant arm; shifts, abs and integer power have the standard definitions; "
            "every binary operator reads its operand; a public shift count used as a slice bound is sign-checked; divisors are "
            "zero-tested before use.",
    "note": "Value agreement for all operands (bitlength boundary, composed expressions) is not decided. LinCombBool.__pow__ "
            "ignoring its exponent is a known finding; the negative right-shift defect was repaired.",
}
CLAIMS["C09"] = {
    "technique": "contradiction rule on isinstance contracts computed by the abstract interpreter (which operand kinds make "
                 "add_guard / if_then_else raise on every path), arity check of resolved method calls, merge-shape and "
                 "condition-algebra checks, C06 non-interference over branching.py",
    "text": "Decides: whether some secret condition kind is accepted both by add_guard (entry) and by if_then_else (exit merge); "
            "that method calls on receivers of known kind have an acceptable arity; that exit() merges every tracked variable "
            "as select(cond, branch value, previous value) for the same name with the backup taken before the guard; that "
            "elif/else/while/break conditions follow icond&c / icond&(1-c) / cond&c / cond&(1-c) computed before entering; "
            "that the for-iterator runs to the public bound; that the constructs are data-oblivious.",
    "note": "Equivalence with a native-control-flow twin over all nestings and inputs is differential execution and NOT claimed. "
            "The block API is stale w.r.t. Boolean-typed conditions: three known findings (contract contradiction, 1-cond, "
            "assert_zero arity).",
}

NOT_APPLICABLE = {}

# ---------------------------------------------------------------------------------------------------------------
# Clauses added after the second round of seeded changes / large refactorings (appended to the texts above).
ADDENDA = {
    "C01": " The range premise of the bit-decomposition hint (0 <= E < 2^N) is decided by interval reasoning over the "
           "dominating tests; a range that is not implied is a violation.  A constraint written on the guard wire itself "
           "(guard*y = 0) is judged by guard scenario (no guard / guard 1 with the honest premise, guard 0 on every path); small "
           "helpers computing a hint are evaluated in place, a swallowed exception splitting the case; a hint that is the result of a "
           "bit-returning helper is split into its two values; a private helper whose callers all pass a masked value is shown for "
           "each value of that parameter.",
    "C02": " Also: constraint emission is memoryless (no cached state on wire objects / module tables decides emission); every "
           "value if_then_else returns for a secret condition is select(c,t,f) (polynomial or truth table); every fresh factor "
           "of a field product relation is range-bounded (the unbounded divmod quotient is a recorded known finding with a "
           "forged-witness demonstration); under a guard every constraint is enforced on its own (guard*dummy = 0 per constraint, "
           "shared with C07); assert_zero / assert_nonzero say self = 0 / self*w = 1 on every completing path for a guard of "
           "value 1; the non-zero test is the complement of the zero test or the pair x*w = r, x*(1-r) = 0; two cheaper one-hot selector designs are accepted through their lemmas (sa/selnorm.py), every hypothesis "
           "checked (three selector designs, the offset-binary sign test, digit loops - sa/selnorm.py, signnorm.py, loopnorm.py); the "
           "remainder of divmod is confined, path by path, to |divisor| consecutive values.",
    "C03": " Also: a test that skips the range check on unpack is evaluated for every small modulus; declarations are enforced "
           "at every call (memoryless rule); the enforced relation is stated over wires - no trace-time value of an operand "
           "is folded into a gadget operand; a range enforced by a decomposition of the method's own (neither a width gadget nor a "
           "list of that many bits) is reported as undecided.",
    "C04": " Calls unknown to the value homomorphism are uninterpreted function symbols, so a closed-form value next to a "
           "differently built wire is a violation.  A construction that follows an accumulating loop is decided by induction "
           "over the loop (flag states, constant propagation per state, the claim as invariant).",
    "C05": " Also: check_zero/check_positive hint Python's truth value over the integers; `~` never meets a plain int; mixed "
           "integer / fixed-point comparisons happen at one scale; selection returns the chosen alternative; no operator writes "
           ".value/.lc of an object that may be one of its operands (flow-sensitive may-alias analysis); no result or "
           "decomposition is cached on an operand (memoryless rule); every return of the comparison operators is the comparison "
           "gadget's result (a constant answer for an out-of-range public operand is judged against the width of the value domain); "
           "a zero divisor raises on every path where errors are not ignored; a division that hands back the pair of another "
           "division must do so for the same operands (a scaled problem scales the remainder).",
    "C06": " Also: state kept across calls and consulted by a decision is never written under value-derived control (.value, "
           "is_guard(), ignore_errors()).",
    "C07": " Also: emission is memoryless; a raise inside the guarded arm of add_constraint implies the unguarded arm's raise "
           "condition; a leading shortcut for linear constraints under a guard must emit exactly guard*y = 0.",
    "C08": " Also: nothing computed from the guard outlives the region (memoryless rule); add_guard is the last fallible step "
           "of BranchContext.enter; the context-manager protocol is accepted as a release discipline (single-slot managers fresh "
           "per `with`, token stacks re-entrant); every completing path of add_guard hands out the saved state and every "
           "completing path of restore_guard restores it; suppression under a false guard is stored or derived; saved state kept on a "
           "module-level stack is accepted when the entry holds what is re-installed (the region's conjoined guard if the top entry "
           "is re-installed, the previous guard if the popped one is).",
    "C09": " Also: the guard kernel of runtime.py splits on 'a guard is installed', never on its value; constraints emitted in "
           "a branch not taken are satisfied (shared with C07); the merge multiplexer selects exactly (shared with C02).",
    "C10": " Also: the snarkjs linear-combination algebra (shared with C13, incl. exact cancellation) and no table keyed by "
           "hash(value); prove() is interpreted interprocedurally (helper writers, writer factories, in-memory section buffers, "
           "to_bytes, concatenated loops); a section list that depends on the data is a violation; when the modulus is selectable "
           "from a table of primes every statement is shown for each of them and every reduction uses the declared modulus.",
    "C11": " Also: the zkinterface linear-combination algebra (shared with C13) and no table keyed by hash(value).",
    "C12": " Also: the whole equation line passes one context-consistency check; a block lists exactly the members it is given, "
           "in order; no table keyed by hash(value); every composite name built around a per-context counter contains the "
           "context (globally unique wire and call names); per-function / per-block files are named by the name itself (no "
           "lossy rewrite on the way to a path).",
    "C13": " An operator that may hand back one of its operands (`return self`) makes every in-place update of its result an "
           "update of an operand (may-alias through operator results).  The merge is executed on four key classes including 'present in both with coefficients cancelling to 0'; a field "
           "selected by name is resolved through the backend's table and compared with the curve's scalar-field order.",
    "C14": " Also: `/` is never applied to a representation (exact division is not a floor); the integer-secret class rejects "
           "or defers fixed-point operands (the strict-comparison defect named in the property was found by this rule and "
           "repaired); sign parity of every rounding division (negating both operands keeps the floor, negating one operand or "
           "the quotient turns it into a ceiling); every q*d + r = n rescaling gadget bounds r by exactly the divisor's width "
           "(shared with C02); comparison operators of the integer-secret class promote floats whenever its arithmetic does.",
    "C15": " Also: the per-position multiplexer if_then_else selects exactly (shared with C02); selector, read and write are "
           "stated over symbolic sequences (any spelling of the iteration); Array(x) stores a list of its own; helpers whose every "
           "return is a selection count as selections; a multi-dimensional read written as self[item..][item..] is self[item[0]][item[1:]].",
    "C16": " Also: the evaluated skip predicate of the unpack range check (shared with C03); the checks dominating the bit "
           "construction of to_bits imply 0 <= v < 2^n (interval reasoning).",
    "C17": " A for_each_in that keeps its own worklist instead of recursing is reported as undecided for coverage and order "
           "(a loop invariant over the worklist is not established), except that first-in-first-out consumption with conversion at "
           "removal is breadth-first and therefore a violation.",
    "C18": " The decision table evaluates what the interposed sys.exit stores for each argument (None, 0, 3, True, 'msg', object, '', []) and the never-called row. Also: under autoprove the exit callback runs backend.prove() exactly once and under no other condition; the recorded "
           "exit code / exception is written by the interposed hooks only (never reset); the decision table's rows carry what the "
           "exception hook records for the row's exception (including one raised without arguments) and methods / properties of "
           "the overrider are evaluated on the row; uncaught exceptions may instead be read from the interpreter's own record "
           "(sys.last_exc / sys.last_value), rows then bind that record.",
    "C19": " Stage rules are stated on the outcomes of a symbolic execution of the selection code over an abstract registry "
           "row (pairing of name and module on every outcome, no second assignment of backend, decision order, loud failure "
           "of a named backend, report of an unknown name before auto-detection); the environment is matched against a row only "
           "after a complete scan of the table for pre-imported modules; a report counts only if Python's default warning / "
           "logging configuration shows it; star imports honour __all__; a backend skipped without an import attempt must import "
           "(and be listed after) the backend whose failure justifies the skip; whenever PYSNARK_BACKEND matched a row and the "
           "selection completes, the backend in effect is that row's module.",
    "C20": " Also: sponge construction (block added to the rate part, capacity element carried over, one permutation per "
           "block, state not kept in a class attribute) and pure rejection sampling of the subset-sum coefficients.",
}
for _k, _v in ADDENDA.items():
    if _k in CLAIMS:
        CLAIMS[_k] = dict(CLAIMS[_k], text=CLAIMS[_k]["text"] + _v)
