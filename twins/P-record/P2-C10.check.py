# Evidence program for change P (LinearCombination keeps its coefficients reduced modulo the prime).
#
#   PYTHONPATH=<tree> /venv/bin/python P.check.py        (from an empty directory; exit 0 = property held everywhere)
#
# What it does
#   1. Differential fuzzing of pysnark.snarkjsbackend.LinearCombination against an embedded copy of the
#      original (unreduced, plain integer) implementation: same keys, same term order, coefficients congruent
#      modulo the prime, for random chains of + - * neg with negative / huge / multiple-of-p scalars.
#   2. Shadow tracing of whole pysnark programs: every linear combination handed to the snarkjs backend is
#      carried along with a reference linear combination (the embedded original class), and every constraint
#      and wire value is recorded independently of the backend.  After backend.prove() the two files are decoded
#      by a strict parser (magic, version, section table, declared sizes / counts against actual content, no
#      trailing bytes, every field element < p) and compared with the reference trace:
#        - wire numbering: 0 = one, then public values in creation order, then private values in creation order
#        - witness == [1] + [v mod p for public] + [v mod p for private]
#        - constraints: same number, same order, same terms in the same order, coefficient == reference mod p
#        - the decoded witness satisfies every decoded constraint (for honest programs), and in general satisfies
#          a decoded constraint exactly when the reference trace says so (ignore_errors programs)
#      Programs: hand-written corner cases (negative values, values >= p, values wider than 256 bits, zero
#      coefficients, coefficients that are multiples of p, empty linear combinations, guards, lazy if_then_else
#      branches, ignore_errors, fixed point, booleans, bit operations, poseidon-like rounds) and 300 random programs.

import os, sys, random, shutil, tempfile

os.environ["PYSNARK_BACKEND"] = "snarkjs"

import pysnark.snarkjsbackend as backend
import pysnark.runtime as runtime
from pysnark.runtime import PubVal, PrivVal, ConstVal, LinComb
from pysnark.boolean import PubValBool, PrivValBool, LinCombBool
from pysnark.fixedpoint import PubValFxp, PrivValFxp
from pysnark.branching import if_then_else

runtime.autoprove = False
assert runtime.backend is backend, "snarkjs backend not selected"

P = 21888242871839275222246405745257275088548364400416034343698204186575808495617
assert backend.get_modulus() == P

failures = []
def check(cond, msg):
    if not cond:
        failures.append(msg)
        print("PROPERTY VIOLATED:", msg)
        if len(failures) > 20:
            print("too many failures, giving up"); sys.exit(1)

# ---------------------------------------------------------------------------------------------------------------
# reference implementation: the original LinearCombination, verbatim (plain integers, never reduced)
# ---------------------------------------------------------------------------------------------------------------
class RefLC:
    def __init__(self, lc): self.lc = lc
    def __add__(self, other):
        lc = dict()
        for a in self.lc:
            if a in other.lc: lc[a] = self.lc[a] + other.lc[a]
            else: lc[a] = self.lc[a]
        for b in other.lc:
            if not b in self.lc: lc[b] = other.lc[b]
        return RefLC(lc)
    def __sub__(self, other): return self+(-other)
    def __mul__(self, other): return RefLC({key:value*other for (key,value) in self.lc.items()})
    def __neg__(self): return self*-1

def same_lc(real, ref, where):
    rk, fk = list(real.lc.keys()), list(ref.lc.keys())
    check(rk == fk, "%s: terms/order differ: %s vs reference %s" % (where, rk, fk))
    for k in fk:
        if k in real.lc:
            check((real.lc[k] - ref.lc[k]) % P == 0, "%s: coefficient of wire key %d is %d, reference %d (mod p)" % (where, k, real.lc[k] % P, ref.lc[k] % P))

# ---------------------------------------------------------------------------------------------------------------
# 1. differential fuzzing at the LinearCombination level
# ---------------------------------------------------------------------------------------------------------------
SCALARS = [0, 1, -1, 2, -2, 3, P-1, P, P+1, 2*P, -P, -P-1, 1-P, 2**253, 2**254-1, 2**254, 2**255, 2**256-1, 2**256, 2**300+17,
           -(2**300+17), (P-1)//2, (P+1)//2, backend.fieldinverse(3), backend.fieldinverse(P-2), 12345678901234567890]

def fuzz_lc(rng, rounds):
    reduced = True
    for r in range(rounds):
        keys = [0] + list(range(1, rng.randint(1, 4))) + [-i for i in range(1, rng.randint(1, 4))]
        pool = [(backend.LinearCombination({}), RefLC({})), (backend.LinearCombination({0:1}), RefLC({0:1}))]
        for k in keys: pool.append((backend.LinearCombination({k:1}), RefLC({k:1})))
        for step in range(rng.randint(1, 40)):
            op = rng.choice("+-*n*+-")
            (a, ra) = rng.choice(pool)
            (b, rb) = rng.choice(pool)
            if op == "+": nw = (a + b, ra + rb)
            elif op == "-": nw = (a - b, ra - rb)
            elif op == "n": nw = (-a, -ra)
            else:
                c = rng.choice(SCALARS) if rng.random() < 0.7 else rng.randint(-2**rng.choice([8, 64, 260, 520]), 2**rng.choice([8, 64, 260, 520]))
                nw = (a * c, ra * c)
            same_lc(nw[0], nw[1], "LinearCombination fuzz round %d step %d op %s" % (r, step, op))
            check(isinstance(nw[0], backend.LinearCombination), "result type")
            check(all(isinstance(v, int) for v in nw[0].lc.values()), "non-integer coefficient")
            if not all(0 <= v < P for v in nw[0].lc.values()): reduced = False
            pool.append(nw)
        # operands must not have been mutated by later operations
        for (a, ra) in pool: same_lc(a, ra, "LinearCombination fuzz round %d (operand mutated?)" % r)
    return reduced

# ---------------------------------------------------------------------------------------------------------------
# strict decoders for the two file formats
# ---------------------------------------------------------------------------------------------------------------
class Reader:
    def __init__(self, data, name): self.d, self.pos, self.name = data, 0, name
    def take(self, n):
        check(self.pos + n <= len(self.d), "%s: truncated (need %d bytes at offset %d, file has %d)" % (self.name, n, self.pos, len(self.d)))
        b = self.d[self.pos:self.pos+n]; self.pos += n
        return b
    def u(self, n): return int.from_bytes(self.take(n), "little")

def decode_wtns(data):
    r = Reader(data, "witness.wtns")
    check(r.take(4) == b"wtns", "witness.wtns: bad magic")
    check(r.u(4) == 2, "witness.wtns: version is not 2")
    check(r.u(4) == 2, "witness.wtns: number of sections is not 2")
    check(r.u(4) == 1, "witness.wtns: first section is not the header (type 1)")
    hlen = r.u(8); hstart = r.pos
    n8 = r.u(4)
    check(n8 == 32, "witness.wtns: field size %d, expected 32" % n8)
    prime = r.u(n8)
    check(prime == P, "witness.wtns: wrong prime")
    nw = r.u(4)
    check(r.pos - hstart == hlen, "witness.wtns: header section declares %d bytes but has %d" % (hlen, r.pos - hstart))
    check(r.u(4) == 2, "witness.wtns: second section is not the data section (type 2)")
    dlen = r.u(8)
    check(dlen == nw * n8, "witness.wtns: data section declares %d bytes for %d values" % (dlen, nw))
    check(len(data) - r.pos == dlen, "witness.wtns: data section declares %d bytes, file has %d left" % (dlen, len(data) - r.pos))
    w = [r.u(n8) for i in range(nw)]
    check(r.pos == len(data), "witness.wtns: trailing bytes")
    for (i, v) in enumerate(w): check(v < P, "witness.wtns: value of wire %d is not canonical (>= p): %d" % (i, v))
    return w

def decode_r1cs(data):
    r = Reader(data, "circuit.r1cs")
    check(r.take(4) == b"r1cs", "circuit.r1cs: bad magic")
    check(r.u(4) == 1, "circuit.r1cs: version is not 1")
    check(r.u(4) == 3, "circuit.r1cs: number of sections is not 3")
    check(r.u(4) == 1, "circuit.r1cs: first section is not the header (type 1)")
    hlen = r.u(8); hstart = r.pos
    n8 = r.u(4)
    check(n8 == 32, "circuit.r1cs: field size %d" % n8)
    check(r.u(n8) == P, "circuit.r1cs: wrong prime")
    hdr = dict(nwires=r.u(4), npubout=r.u(4), npubin=r.u(4), nprvin=r.u(4), nlabels=r.u(8), ncons=r.u(4))
    check(r.pos - hstart == hlen, "circuit.r1cs: header declares %d bytes, has %d" % (hlen, r.pos - hstart))
    check(r.u(4) == 2, "circuit.r1cs: second section is not the constraint section (type 2)")
    clen = r.u(8); cstart = r.pos
    cons = []
    for i in range(hdr["ncons"]):
        con = []
        for part in range(3):
            n = r.u(4)
            terms = []
            for t in range(n):
                wire = r.u(4); coef = r.u(n8)
                check(coef < P, "circuit.r1cs: constraint %d part %d: coefficient of wire %d not canonical (>= p): %d" % (i, part, wire, coef))
                check(wire < hdr["nwires"], "circuit.r1cs: constraint %d part %d: wire %d out of range (%d wires)" % (i, part, wire, hdr["nwires"]))
                terms.append((wire, coef))
            check(len(set(w for (w, c) in terms)) == len(terms), "circuit.r1cs: constraint %d part %d: repeated wire" % (i, part))
            con.append(terms)
        cons.append(con)
    check(r.pos - cstart == clen, "circuit.r1cs: constraint section declares %d bytes, has %d" % (clen, r.pos - cstart))
    check(r.u(4) == 3, "circuit.r1cs: third section is not the wire-to-label section (type 3)")
    llen = r.u(8)
    check(llen == 8 * hdr["nwires"], "circuit.r1cs: label section declares %d bytes for %d wires" % (llen, hdr["nwires"]))
    check(len(data) - r.pos == llen, "circuit.r1cs: label section declares %d bytes, file has %d left" % (llen, len(data) - r.pos))
    r.take(llen)
    check(r.pos == len(data), "circuit.r1cs: trailing bytes")
    return hdr, cons

# ---------------------------------------------------------------------------------------------------------------
# 2. shadow tracing
# ---------------------------------------------------------------------------------------------------------------
class Shadow:
    """ the backend's own linear combination together with the reference one """
    def __init__(self, real, ref): self.real, self.ref = real, ref
    def __add__(self, other): return Shadow(self.real + other.real, self.ref + other.ref)
    def __sub__(self, other): return Shadow(self.real - other.real, self.ref - other.ref)
    def __mul__(self, other): return Shadow(self.real * other, self.ref * other)
    def __neg__(self): return Shadow(-self.real, -self.ref)

trace_pub, trace_priv, trace_cons = [], [], []
orig = dict(privval=backend.privval, pubval=backend.pubval, one=backend.one, zero=backend.zero, add_constraint=backend.add_constraint)

def s_privval(val):
    trace_priv.append(val)
    return Shadow(orig["privval"](val), RefLC({-len(trace_priv):1}))
def s_pubval(val):
    trace_pub.append(val)
    return Shadow(orig["pubval"](val), RefLC({len(trace_pub):1}))
def s_one(): return Shadow(orig["one"](), RefLC({0:1}))
def s_zero(): return Shadow(orig["zero"](), RefLC({}))
def s_add_constraint(v, w, y):
    trace_cons.append((dict(v.ref.lc), dict(w.ref.lc), dict(y.ref.lc)))
    orig["add_constraint"](v.real, w.real, y.real)

backend.privval, backend.pubval, backend.one, backend.zero, backend.add_constraint = s_privval, s_pubval, s_one, s_zero, s_add_constraint
LinComb.ZERO.lc = s_zero()
LinComb.ONE.lc = s_one()

def reset():
    backend.privvals.clear(); backend.pubvals.clear(); backend.constraints.clear()
    del trace_pub[:], trace_priv[:], trace_cons[:]
    runtime.guard = None
    runtime.ignore_errors(False)

workdir = tempfile.mkdtemp(prefix="r6-C10-")
nprograms = 0

def run(name, prog, honest=True):
    """ trace prog, write the files, decode them and compare with the reference trace """
    global nprograms
    reset()
    try:
        prog()
    finally:
        runtime.ignore_errors(False)
    check(runtime.guard is None, name + ": guard left behind")
    nprograms += 1
    cwd = os.getcwd()
    os.chdir(workdir)
    try:
        for f in ("witness.wtns", "circuit.r1cs"):
            if os.path.exists(f): os.remove(f)
        stderr = sys.stderr; sys.stderr = open(os.devnull, "w")
        try: orig_prove()
        finally: sys.stderr.close(); sys.stderr = stderr
        wdata = open("witness.wtns", "rb").read()
        cdata = open("circuit.r1cs", "rb").read()
    finally:
        os.chdir(cwd)

    npub, nprv = len(trace_pub), len(trace_priv)
    def wire(k): return k if k >= 0 else npub - k

    # the backend's own lists against the independent trace
    check(backend.pubvals == trace_pub and backend.privvals == trace_priv, name + ": backend value lists differ from the trace")
    check(len(backend.constraints) == len(trace_cons), name + ": backend has %d constraints, traced %d" % (len(backend.constraints), len(trace_cons)))
    for (i, (c, rc)) in enumerate(zip(backend.constraints, trace_cons)):
        for part in range(3): same_lc(c[part], RefLC(rc[part]), "%s: in-memory constraint %d part %d" % (name, i, part))

    # witness file
    w = decode_wtns(wdata)
    expect_w = [1] + [v % P for v in trace_pub] + [v % P for v in trace_priv]
    check(w == expect_w, name + ": decoded witness differs from [1]+public+private values mod p")

    # circuit file
    hdr, cons = decode_r1cs(cdata)
    check(hdr["nwires"] == 1 + npub + nprv, name + ": nwires %d, expected %d" % (hdr["nwires"], 1 + npub + nprv))
    check(hdr["npubout"] + hdr["npubin"] == npub, name + ": %d+%d public wires declared, %d public values" % (hdr["npubout"], hdr["npubin"], npub))
    check(hdr["nprvin"] == 0 or hdr["nprvin"] == nprv, name + ": nprvin")
    check(hdr["ncons"] == len(trace_cons), name + ": %d constraints declared, %d traced" % (hdr["ncons"], len(trace_cons)))
    for (i, (con, rc)) in enumerate(zip(cons, trace_cons)):
        for part in range(3):
            exp = [(wire(k), v % P) for (k, v) in rc[part].items()]
            check(con[part] == exp, "%s: constraint %d part %d decodes to %s, traced %s" % (name, i, part, con[part], exp))

    # satisfaction
    def ev(terms, wit): return sum(c * wit[wr] for (wr, c) in terms) % P
    nsat = 0
    for (i, (con, rc)) in enumerate(zip(cons, trace_cons)):
        if len(w) != hdr["nwires"]: break
        sat = (ev(con[0], w) * ev(con[1], w) - ev(con[2], w)) % P == 0
        refw = lambda k: 1 if k == 0 else (trace_pub[k-1] if k > 0 else trace_priv[-k-1])
        rv = [sum(c * refw(k) for (k, c) in rc[part].items()) for part in range(3)]
        refsat = (rv[0] * rv[1] - rv[2]) % P == 0
        check(sat == refsat, "%s: constraint %d: decoded files say satisfied=%s, reference trace says %s" % (name, i, sat, refsat))
        if honest: check(sat, "%s: decoded witness does not satisfy decoded constraint %d" % (name, i))
        nsat += sat
    return len(cons), nsat

orig_prove = backend.prove

# ---------------------------------------------------------------------------------------------------------------
# hand-written programs
# ---------------------------------------------------------------------------------------------------------------
def prog_empty(): pass

def prog_only_values():
    PubVal(0); PrivVal(0); PubVal(-1); PrivVal(P); PubVal(P+5); PrivVal(2**300+7); PrivVal(-(2**300)-7); PubVal(2**256-1); PubVal(2**254-1)

def prog_basic():
    x, y = PubVal(3), PrivVal(-5)
    z = x*y + 7*x - y*2 + 1
    (z*z).assert_eq(z.val()**2)
    (x - x + y - y).assert_zero()          # zero coefficients
    ((x*0) + LinComb.ZERO).assert_zero()   # zero coefficient and empty combination
    u = x / 3; v = (y*6) / -3
    u.assert_eq(1); v.assert_eq(10)
    (u*v + x).assert_eq(13)

def prog_interleaved():
    a = PrivVal(2); b = PubVal(3); c = PrivVal(-4); d = PubVal(5); e = PrivVal(6)
    t = a*b; t2 = c*d; t3 = (t + t2 + e) * (a - d)
    f = PubVal(t3.val())
    (f - t3).assert_zero()
    g = PrivVal(1)
    (g * f).assert_eq(t3)

def prog_big():
    x = PubVal(P + 5); y = PrivVal(-(2**300) - 3); z = PrivVal(2**256 + 1)
    t = x * y
    u = t * z
    s = x * (P + 1) + y * P + z * (2**300) - x * (-7) + z * (2*P)      # coefficients >= p, multiples of p, negative
    s2 = s * s
    w = PubVal(s2.val())
    (w - s2).assert_zero()
    # true modulo p only, so bypass the runtime's check over the integers
    runtime.add_constraint_unsafe(LinComb.ZERO, LinComb.ZERO, y * P)        # coefficient p == 0: an explicit zero term
    runtime.add_constraint_unsafe(x * P, y * (2*P), u - u)
    runtime.add_constraint_unsafe(x * (P + 1), LinComb.ONE * (1 - P), ConstVal(5))

def prog_manual_constraints():
    x, y = PubVal(6), PrivVal(7)
    runtime.add_constraint(LinComb.ZERO, LinComb.ZERO, LinComb.ZERO)            # all empty
    runtime.add_constraint(x*0, y, LinComb.ZERO)                                # zero coefficient times y = empty
    runtime.add_constraint(LinComb.ZERO, y, x - x)                              # empty times y = zero-coefficient term
    runtime.add_constraint(ConstVal(0), ConstVal(0), ConstVal(0))               # explicit 0*one
    runtime.add_constraint_unsafe(ConstVal(P), x, ConstVal(2*P))                # p*one * x = 2p*one (true modulo p)
    runtime.add_constraint(x, y, ConstVal(42))
    runtime.add_constraint_unsafe(x*(P-1), y*-1, ConstVal(42 + P))
    runtime.add_constraint(ConstVal(-1), ConstVal(-1), LinComb.ONE)
    runtime.add_constraint_unsafe(x + y*(2**300), LinComb.ONE, x + y*((2**300) % P) + ConstVal(0))

def prog_compare_bits():
    x, y, z = PrivVal(-17), PubVal(23), PrivVal(45)
    (x < y).assert_eq(1); (x >= y).assert_eq(0)
    (x == y).assert_eq(0); (x != y).assert_eq(1)
    b = y.to_bits(8)
    LinComb.from_bits(b).assert_eq(23)
    ((z & y) + (z | y) * 3 - (z ^ y)).assert_eq((45 & 23) + (45 | 23) * 3 - (45 ^ 23))
    (y << 3).assert_eq(184); (y >> 2).assert_eq(5)
    (y // 4).assert_eq(5); (y % 4).assert_eq(3); (y ** 3).assert_eq(23**3)
    for r in [x // 4, x % 4, abs(x), ~z, z >> 1, divmod(z, y)[0], divmod(z, y)[1], x ** 2]:
        PubVal(r.val()).assert_eq(r)
    x.assert_nonzero(); (x + 17).assert_zero(); y.assert_range(0, 100); y.assert_positive()

def prog_bool_fxp():
    a, b = PubValBool(1), PrivValBool(0)
    (a & b).assert_eq(0); (a | b).assert_eq(1); (a ^ b).assert_eq(1); (~b).assert_eq(1)
    f, g = PrivValFxp(1.5), PubValFxp(-2.25)
    h = f * g + f - g
    k = f / PubValFxp(2.5)
    (f < g).assert_eq(0)
    r = if_then_else(a, f, g)
    (r - f).assert_zero()
    (h + k - h - k).assert_zero()

def prog_guards():
    c = PrivValBool(0); d = PrivValBool(1)
    x, y = PrivVal(0), PubVal(9)
    # lazy branches: the division by zero sits in the branch that is not taken
    two = PrivVal(2)
    # lazy branches: the failing operations sit in the branch that is not taken
    r = if_then_else(c, lambda: (y / two) * (y / 2) + (y / 4), lambda: y * 2)
    r.assert_eq(18)
    r2 = if_then_else(d, lambda: if_then_else(c, lambda: (y / two) * (x - 1).to_bits(4)[0], lambda: y % 4), lambda: x.assert_nonzero() or x)
    r2.assert_eq(1)
    @runtime.guarded(c.lc)
    def dead():
        (x * y).assert_eq(5)
        x.assert_nonzero()
        (y < x).assert_eq(1)
        return PrivVal(P + 3) * PubVal(-2)
    dead()
    @runtime.guarded(d.lc)
    def live():
        (y * y).assert_eq(81)
        return (y + x).to_bits(5)
    live()

def prog_nested_guards():
    x = PrivVal(4); y = PubVal(-3)
    c1 = (x == 4); c2 = (y > 0)
    def inner():
        t = if_then_else(c2, lambda: (x / 3) * (y % 5), lambda: x * x * x + 1)
        return t
    r = if_then_else(c1, inner, lambda: if_then_else(c2, lambda: x / 3 + LinComb.ONE, lambda: (x // 3) * LinComb.ONE))
    r.assert_eq(65)
    s = (x != 4).lc.if_else(x * y, x - y)
    s.assert_eq(7)
    # LinComb.ONE inside a guard is the guard wire
    @runtime.guarded((~c2).lc)
    def g():
        one = LinComb.ONE
        (one * x).assert_eq(4)
        return ConstVal(5) * y
    g().assert_eq(-15)

def prog_ignore_errors():
    runtime.ignore_errors(True)
    x, y = PubVal(5), PrivVal(0)
    (x * x).assert_eq(24)            # false
    y.assert_nonzero()               # false
    (x / PrivVal(2)); (x / 3)        # error-suppressed inexact divisions
    (x < y).assert_eq(1)            # false
    x.assert_range(0, 3)
    runtime.add_constraint(x, x, ConstVal(25 + P))   # true
    runtime.add_constraint(x * P, x, ConstVal(1))    # false: 0 = 1

def prog_sponge():
    # poseidon-like rounds (the library's poseidon has no constants for this backend): big round constants,
    # dense mixing with field-sized coefficients, x^5 S-boxes
    rng = random.Random(77)
    st = [PrivVal(1), PubVal(P - 2), PrivVal(-3)]
    for rnd in range(4):
        st = [s + rng.randrange(P) for s in st]
        st = [(s * s) * (s * s) * s for s in st]
        st = [sum((st[j] * rng.randrange(2 * P) for j in range(3)), LinComb.ZERO) for i in range(3)]
    for o in st: PubVal(o.val()).assert_eq(o)

def prog_division_chain():
    # the motivating case for P: repeated scalings by field inverses
    x = PrivVal(1)
    acc = x
    for d in [3, 7, -11, 13, 2**40 + 15, 17, P - 2, 19, 23]:
        acc = acc * d
    for d in [3, 7, -11, 13, 2**40 + 15, 17, P - 2, 19, 23]:
        acc = acc / d
    (acc * acc).assert_eq(x)
    s = LinComb.ZERO
    for i in range(50): s = s + acc * backend.fieldinverse(i + 2) - x * (i - 25)
    PubVal(s.val()).assert_eq(s)

# ---------------------------------------------------------------------------------------------------------------
# random programs
# ---------------------------------------------------------------------------------------------------------------
def random_program(rng):
    def prog():
        vals = []
        for i in range(rng.randint(1, 5)):
            v = rng.choice([0, 1, -1, 2, 7, -13, 100, 255, -256, 1000, P - 1, P, P + 2, 2**255 + 3, 2**300 + 1, -(2**260)]) if rng.random() < 0.5 else rng.randint(-300, 300)
            vals.append((PubVal if rng.random() < 0.5 else PrivVal)(v))
        small = lambda v: -2**12 < v.val() < 2**12
        for step in range(rng.randint(1, 12)):
            a, b = rng.choice(vals), rng.choice(vals)
            k = rng.choice([0, 1, -1, 2, 3, -5, P, P + 1, -P, 2 * P - 1, 2**254 - 1, 2**256, 2**300 + 9, rng.randint(-1000, 1000)])
            op = rng.randint(0, 13)
            try:
                if op == 0: r = a + b
                elif op == 1: r = a - b
                elif op == 2: r = a * b
                elif op == 3: r = a * k
                elif op == 4: r = a + k
                elif op == 5: r = k - a
                elif op == 6: r = -a
                elif op == 7:
                    if b.val() % P == 0: continue
                    r = a / b
                elif op == 8:
                    if k % P == 0: continue
                    r = (a * k) / k
                elif op == 9:
                    if not (small(a) and small(b)): continue
                    r = (a < b).lc + (a == b).lc * 3 + (a >= b).lc * k
                elif op == 10:
                    if not (small(a) and small(b)): continue
                    r = (a & b) + (a ^ b) * 2 - (a | b)
                elif op == 11:
                    if not (small(a) and small(b)) or b.val() == 0: continue
                    r = (a // b.val()) + (a % b.val())
                elif op == 12:
                    if not small(a): continue
                    c = (a != 0)
                    live = a.val() != 0
                    d = a + 1 - c.lc                      # a when a != 0, else 1
                    def bad(): return (b * 7 + 1) / 7 + (b * 7 + 1) / (d * 7) + (d - 1 if live else d).check_nonzero().lc
                    r = if_then_else(c, lambda: (b * d) / d if live else bad(), lambda: bad() if live else b + k)
                else:
                    r = a * 0 + b * P + (a - a) + LinComb.ZERO
                    runtime.add_constraint_unsafe(r, a, LinComb.ZERO)    # holds modulo p
            except (AssertionError, ValueError):
                continue      # operation not supported by the library for these values (negative bit operands, ...)
            vals.append(r)
        out = vals[-1]
        PubVal(out.val()).assert_eq(out)
    return prog

def main():
    rng = random.Random(1010)
    reduced = fuzz_lc(rng, 400)
    print("LinearCombination fuzz: 400 rounds agree with the reference implementation; coefficients always in [0,p):", reduced)

    progs = [("empty", prog_empty, True), ("only_values", prog_only_values, True), ("basic", prog_basic, True),
             ("interleaved", prog_interleaved, True), ("big", prog_big, True), ("manual_constraints", prog_manual_constraints, True),
             ("compare_bits", prog_compare_bits, True), ("bool_fxp", prog_bool_fxp, True), ("guards", prog_guards, True),
             ("nested_guards", prog_nested_guards, True), ("ignore_errors", prog_ignore_errors, False),
             ("sponge", prog_sponge, True), ("division_chain", prog_division_chain, True)]
    for (name, prog, honest) in progs:
        (n, nsat) = run(name, prog, honest)
        print("%-20s %5d constraints, %5d satisfied, %d public, %d private" % (name, n, nsat, len(trace_pub), len(trace_priv)))
    tot = 0
    for i in range(300):
        (n, nsat) = run("random%d" % i, random_program(random.Random(5000 + i)), True)
        tot += n
    print("300 random programs, %d constraints in total" % tot)
    return

try:
    main()
finally:
    shutil.rmtree(workdir, ignore_errors=True)

if failures:
    print("%d property violations" % len(failures))
    sys.exit(1)
print("C10 held in all %d programs" % nprograms)
sys.exit(0)
