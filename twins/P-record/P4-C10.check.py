#!/usr/bin/env python
"""
Evidence program for property C10 (snarkjs files encode exactly the traced
circuit and a valid witness), aimed at the linear-combination arithmetic of
pysnark/snarkjsbackend.py.

Run as   PYTHONPATH=<tree> /venv/bin/python P.check.py   from an empty directory.
Exit status 0 iff the property held in every case.

Part A  drives the backend API directly (pubval / privval / one / zero and the
        LinearCombination operators +, -, *, unary -) with random expression DAGs
        and keeps an independent shadow model (plain dicts, textbook semantics).
        For every program the two files are written, strictly decoded and compared
        with the shadow model; every decoded constraint is evaluated on the decoded
        witness; older linear combinations are re-checked after later operations
        (results share storage with operands, so nothing may ever be mutated).
Part B  runs real pysnark programs (integer, bitwise, comparison, boolean,
        fixed-point, guards, lazy if_then_else branches, ignore_errors, huge /
        negative / out-of-range values) on the snarkjs backend; for every LinComb
        produced, the integer value tracked by the runtime must equal the
        evaluation of its backend linear combination on the witness (mod p); the
        files are decoded and checked in the same way.
"""
import os, sys, random, struct, tempfile, shutil

os.environ["PYSNARK_BACKEND"] = "snarkjs"
import pysnark.runtime as runtime
runtime.autoprove = False
import pysnark.snarkjsbackend as be
assert runtime.backend is be, "snarkjs backend not selected"

P = 21888242871839275222246405745257275088548364400416034343698204186575808495617
assert be.get_modulus() == P

failures = []
ncases = 0
def fail(msg):
    failures.append(msg)
    print("PROPERTY VIOLATED:", msg)

class Malformed(Exception): pass

# ---------------------------------------------------------------- decoding
class Reader:
    def __init__(self, data): self.d = data; self.o = 0
    def take(self, n):
        if self.o + n > len(self.d): raise Malformed("truncated at offset %d (+%d)" % (self.o, n))
        r = self.d[self.o:self.o+n]; self.o += n; return r
    def u32(self): return struct.unpack("<I", self.take(4))[0]
    def u64(self): return struct.unpack("<Q", self.take(8))[0]
    def fe(self, n8): return int.from_bytes(self.take(n8), "little")
    def end(self): return self.o == len(self.d)

def decode_wtns(data):
    r = Reader(data)
    if r.take(4) != b"wtns": raise Malformed("wtns magic")
    if r.u32() != 2: raise Malformed("wtns version")
    if r.u32() != 2: raise Malformed("wtns number of sections")
    if r.u32() != 1: raise Malformed("wtns section 1 id")
    if r.u64() != 40: raise Malformed("wtns section 1 size")
    n8 = r.u32()
    if n8 != 32: raise Malformed("wtns n8")
    prime = r.fe(n8)
    n = r.u32()
    if r.u32() != 2: raise Malformed("wtns section 2 id")
    size = r.u64()
    if size != n*n8: raise Malformed("wtns section 2 size %d != %d*%d" % (size, n, n8))
    vals = [r.fe(n8) for _ in range(n)]
    if not r.end(): raise Malformed("wtns trailing bytes")
    for v in vals:
        if v >= prime: raise Malformed("wtns non-canonical value")
    return prime, vals

def decode_r1cs(data):
    r = Reader(data)
    if r.take(4) != b"r1cs": raise Malformed("r1cs magic")
    if r.u32() != 1: raise Malformed("r1cs version")
    if r.u32() != 3: raise Malformed("r1cs number of sections")
    # section 1: header
    if r.u32() != 1: raise Malformed("r1cs section 1 id")
    if r.u64() != 64: raise Malformed("r1cs header size")
    n8 = r.u32()
    if n8 != 32: raise Malformed("r1cs n8")
    prime = r.fe(n8)
    nwires, npubout, npubin, nprvin = r.u32(), r.u32(), r.u32(), r.u32()
    nlabels = r.u64()
    ncons = r.u32()
    # section 2: constraints
    if r.u32() != 2: raise Malformed("r1cs section 2 id")
    size = r.u64(); start = r.o
    cons = []
    for _ in range(ncons):
        abc = []
        for _ in range(3):
            nt = r.u32()
            terms = []
            for _ in range(nt):
                w = r.u32(); c = r.fe(n8)
                if w >= nwires: raise Malformed("r1cs wire %d out of range (%d wires)" % (w, nwires))
                if c >= prime: raise Malformed("r1cs non-canonical coefficient")
                terms.append((w, c))
            if len(set(w for (w, _) in terms)) != len(terms): raise Malformed("r1cs wire repeated in one linear combination")
            abc.append(terms)
        cons.append(abc)
    if r.o - start != size: raise Malformed("r1cs section 2 declared %d bytes, holds %d" % (size, r.o-start))
    # section 3: wire to label map
    if r.u32() != 3: raise Malformed("r1cs section 3 id")
    size = r.u64()
    if size != 8*nwires: raise Malformed("r1cs section 3 size")
    r.take(size)
    if not r.end(): raise Malformed("r1cs trailing bytes")
    if npubout + npubin + nprvin + 1 > nwires: raise Malformed("r1cs more inputs/outputs than wires")
    return dict(prime=prime, nwires=nwires, npub=npubout+npubin, cons=cons)

def write_and_decode():
    d = tempfile.mkdtemp(prefix="c10-check-")
    cwd = os.getcwd()
    err = sys.stderr
    try:
        os.chdir(d)
        sys.stderr = open(os.devnull, "w")
        try: be.prove()
        finally:
            sys.stderr.close(); sys.stderr = err
        wt = open("witness.wtns", "rb").read()
        rc = open("circuit.r1cs", "rb").read()
    finally:
        os.chdir(cwd)
        shutil.rmtree(d)
    return decode_wtns(wt), decode_r1cs(rc)

def nz(terms, prime):
    """ canonical form of a linear combination: wire -> nonzero coefficient mod prime """
    out = {}
    for (w, c) in terms:
        c %= prime
        if c: out[w] = (out.get(w, 0) + c) % prime
    return {w: c for (w, c) in out.items() if c}

def reset_backend():
    del be.constraints[:]
    del be.pubvals[:]
    del be.privvals[:]

def check_files(name, exp_pub, exp_priv, exp_cons, must_hold=True):
    """
    exp_pub / exp_priv: expected integer values in creation order
    exp_cons: expected constraints, each three lists of (key, coeff), key as in
              the backend (0 one, k>0 public #k, k<0 private #-k)
    """
    global ncases
    ncases += 1
    try:
        (wprime, wit), circ = write_and_decode()
    except Malformed as e:
        fail("%s: malformed file: %s" % (name, e)); return
    if wprime != P or circ["prime"] != P:
        fail("%s: wrong prime in header" % name); return
    npub, npriv = len(exp_pub), len(exp_priv)
    if circ["nwires"] != 1+npub+npriv or len(wit) != 1+npub+npriv or circ["npub"] != npub:
        fail("%s: wire counts: r1cs %d wires / %d public, witness %d, expected 1+%d+%d" % (name, circ["nwires"], circ["npub"], len(wit), npub, npriv)); return
    expwit = [1] + [v % P for v in exp_pub] + [v % P for v in exp_priv]
    if wit != expwit:
        fail("%s: decoded witness differs from traced assignment (one, public in creation order, private in creation order)" % name); return
    if len(circ["cons"]) != len(exp_cons):
        fail("%s: %d constraints decoded, %d traced" % (name, len(circ["cons"]), len(exp_cons))); return
    wire = lambda k: k if k >= 0 else npub - k
    for i, (dec, exp) in enumerate(zip(circ["cons"], exp_cons)):
        for j in range(3):
            e = nz([(wire(k), c) for (k, c) in exp[j]], P)
            if nz(dec[j], P) != e:
                fail("%s: constraint %d part %s decodes to %r, traced %r" % (name, i, "ABC"[j], nz(dec[j], P), e)); return
        ev = [sum(c*wit[w] for (w, c) in dec[j]) % P for j in range(3)]
        if must_hold and (ev[0]*ev[1] - ev[2]) % P != 0:
            fail("%s: decoded witness violates decoded constraint %d" % (name, i)); return

# ---------------------------------------------------------------- part A
class Shadow:
    """ textbook linear combination: dict key -> integer coefficient, never shared """
    def __init__(self, d): self.d = dict(d)
    def add(self, o):
        d = dict(self.d)
        for k, v in o.d.items(): d[k] = d.get(k, 0) + v
        return Shadow(d)
    def sub(self, o):
        d = dict(self.d)
        for k, v in o.d.items(): d[k] = d.get(k, 0) - v
        return Shadow(d)
    def mul(self, c): return Shadow({k: v*c for k, v in self.d.items()})
    def neg(self): return self.mul(-1)

INTERESTING = [0, 1, -1, 2, -2, 3, 7, P-1, P, P+1, -P, -P-1, 2*P, 2*P+5, 1-P,
               1 << 255, (1 << 256)-1, 1 << 256, (1 << 300)+12345, -(1 << 300)-7, -(1 << 256),
               (P-1)//2, (P+1)//2]
def rnd_val(rng):
    t = rng.random()
    if t < 0.4: return rng.choice(INTERESTING)
    if t < 0.7: return rng.randint(-20, 20)
    if t < 0.85: return rng.randint(-(1 << 520), 1 << 520)
    return rng.randint(0, P-1)
def rnd_scalar(rng):
    t = rng.random()
    if t < 0.25: return rng.choice([0, 1, -1, True, False])
    if t < 0.6: return rng.randint(-5, 5)
    return rnd_val(rng)

def partA_case(seed):
    rng = random.Random(seed)
    reset_backend()
    pub, priv = [], []          # values by creation order
    pool = []                   # (backend lc, shadow)
    def keyval(k): return 1 if k == 0 else (pub[k-1] if k > 0 else priv[-k-1])
    def ev(sh): return sum(c*keyval(k) for k, c in sh.d.items())
    def new_pub(v):
        lc = be.pubval(v); pub.append(v); pool.append((lc, Shadow({len(pub): 1}))); return pool[-1]
    def new_priv(v):
        lc = be.privval(v); priv.append(v); pool.append((lc, Shadow({-len(priv): 1}))); return pool[-1]
    pool.append((be.one(), Shadow({0: 1})))
    pool.append((be.zero(), Shadow({})))
    for _ in range(rng.randint(0, 3)): (new_pub if rng.random() < 0.5 else new_priv)(rnd_val(rng))
    cons = []
    snapshots = []
    for step in range(rng.randint(1, 40)):
        t = rng.random()
        if t < 0.10: new_pub(rnd_val(rng))
        elif t < 0.22: new_priv(rnd_val(rng))
        elif t < 0.45:
            (a, sa), (b, sb) = rng.choice(pool), rng.choice(pool)
            pool.append((a + b, sa.add(sb)))
        elif t < 0.60:
            (a, sa), (b, sb) = rng.choice(pool), rng.choice(pool)
            pool.append((a - b, sa.sub(sb)))
        elif t < 0.75:
            (a, sa) = rng.choice(pool); c = rnd_scalar(rng)
            pool.append((a * c, sa.mul(c)))
        elif t < 0.80:
            (a, sa) = rng.choice(pool)
            pool.append((-a, sa.neg()))
        elif t < 0.85:
            # long running sum, both orders
            (acc, sacc) = rng.choice(pool)
            for _ in range(rng.randint(2, 8)):
                (b, sb) = rng.choice(pool)
                if rng.random() < 0.5: acc, sacc = acc + b, sacc.add(sb)
                else: acc, sacc = b + acc, sb.add(sacc)
            pool.append((acc, sacc))
        else:
            (v, sv), (w, sw), (r, sr) = rng.choice(pool), rng.choice(pool), rng.choice(pool)
            kind = rng.random()
            if kind < 0.7:
                # fresh wire that makes v*w = r + fresh true
                (f, sf) = (new_priv if rng.random() < 0.8 else new_pub)(ev(sv)*ev(sw) - ev(sr))
                y, sy = r + f, sr.add(sf)
            elif kind < 0.85:
                # 0 * w = 0 with empty / zero-coefficient combinations
                v, sv = (be.zero(), Shadow({})) if rng.random() < 0.5 else (v - v, sv.sub(sv))
                y, sy = (be.zero(), Shadow({})) if rng.random() < 0.5 else (r * 0, sr.mul(0))
            else:
                # v * 1 = v
                w, sw = be.one(), Shadow({0: 1})
                y, sy = v, sv
            be.add_constraint(v, w, y)
            cons.append([list(sv.d.items()), list(sw.d.items()), list(sy.d.items())])
        if rng.random() < 0.2:
            snapshots.append(rng.choice(pool))
    # immutability: every linear combination ever built still equals its shadow, key for key
    for (lc, sh) in pool + snapshots:
        if not isinstance(lc, be.LinearCombination):
            fail("A%d: operator returned %r" % (seed, type(lc))); return
        if {k: c % P for k, c in lc.lc.items() if c % P} != {k: c % P for k, c in sh.d.items() if c % P}:
            fail("A%d: linear combination differs from the reference model: %r vs %r" % (seed, lc.lc, sh.d)); return
    check_files("A%d" % seed, pub, priv, cons)

# directed cases for the paths of the changed code
def partA_directed():
    reset_backend()
    x = be.pubval(5); y = be.privval(-3); z = be.privval(P+2); u = be.pubval(1 << 300)
    one, zero = be.one(), be.zero()
    K = {"x": 1, "y": -1, "z": -2, "u": 2}
    cons = []
    def c(v, sv, w, sw, yy, sy):
        be.add_constraint(v, w, yy); cons.append([list(sv.items()), list(sw.items()), list(sy.items())])
    # empty operands (results alias an operand)
    a1 = x + zero; a2 = zero + x; a3 = x - zero; a4 = zero - x; a5 = zero + zero; a6 = zero - zero
    c(a1, {1: 1}, a2, {1: 1}, a3*25*1 - x*24 + (a5 + a6) + (one*20 - x*0), {1: 1, 0: 20})  # 5*5 = 5+20
    c(a4, {1: -1}, one, {0: 1}, -x, {1: -1})
    # later arithmetic on aliases must not disturb the originals
    b = a1 + y; b2 = a2 - y; b3 = a1 * 1; b4 = b3 + b3; b5 = b3 - b3
    c(x, {1: 1}, one, {0: 1}, a1, {1: 1})
    c(x, {1: 1}, one, {0: 1}, a2, {1: 1})
    c(x, {1: 1}, one, {0: 1}, b3, {1: 1})
    c(b, {1: 1, -1: 1}, one, {0: 1}, one*2, {0: 2})            # 5-3 = 2
    c(b2, {1: 1, -1: -1}, one, {0: 1}, one*8, {0: 8})          # 5+3 = 8
    c(b4, {1: 2}, b5, {1: 0}, zero, {})                         # 10*0 = 0
    # short + long and long + short
    long = x + y + z + u + one
    s1 = y + long; s2 = long + y; s3 = y - long; s4 = long - y; s5 = long - long; s6 = long + long
    ref = lambda cy: {1: 1, -1: cy, -2: 1, 2: 1, 0: 1}
    tot = 5 - 3 + (P+2) + (1 << 300) + 1
    t1 = be.privval(tot - 3); t3 = be.privval(-3 - tot); t4 = be.privval(tot + 3)
    c(s1, ref(2), one, {0: 1}, t1, {-3: 1})
    c(one, {0: 1}, s2, ref(2), t1, {-3: 1})
    c(s3, {k: -v for k, v in ref(0).items()}, one, {0: 1}, t3, {-4: 1})
    c(s4, ref(0), one, {0: 1}, t4, {-5: 1})
    c(s5, {}, s6, {k: 2*v for k, v in ref(1).items()}, s5, {})
    # multiplication by one / True / zero / negative / huge, negation
    m = long * 1; m2 = long * True; m3 = long * 0; m4 = long * -1; m5 = -long; m6 = long * (P+1); m7 = long * -(1 << 400)
    c(m, ref(1), one, {0: 1}, m2, ref(1))
    c(m3, {}, m3, {}, m3, {})
    c(m4, {k: -v for k, v in ref(1).items()}, one, {0: 1}, m5, {k: -v for k, v in ref(1).items()})
    c(m6, ref(1), one, {0: 1}, long, ref(1))
    t7 = be.privval(-(1 << 400) * tot)
    c(m7, {k: -(1 << 400)*v for k, v in ref(1).items()}, one, {0: 1}, t7, {-6: 1})
    pub = [5, 1 << 300]; priv = [-3, P+2, tot-3, -3-tot, tot+3, -(1 << 400)*tot]
    if long.lc != {1: 1, -1: 1, -2: 1, 2: 1, 0: 1} or x.lc != {1: 1} or zero.lc != {} or one.lc != {0: 1}:
        fail("directed: an operand was modified by later arithmetic"); return
    check_files("directed", pub, priv, cons)

# ---------------------------------------------------------------- part B
from pysnark.runtime import PubVal, PrivVal, ConstVal, LinComb, ignore_errors, guarded
from pysnark.branching import if_then_else, _if, _endif
from pysnark.boolean import PrivValBool, PubValBool, LinCombBool
from pysnark.fixedpoint import PrivValFxp, PubValFxp, LinCombFxp

def lincombs_in(obj, acc):
    if isinstance(obj, LinComb): acc.append(obj)
    elif isinstance(obj, (LinCombBool, LinCombFxp)): acc.append(obj.lc)
    elif isinstance(obj, (list, tuple)):
        for o in obj: lincombs_in(o, acc)
    return acc

def partB_program(name, fn):
    reset_backend()
    ignore_errors(False)
    produced = []
    def keep(*objs):
        lincombs_in(objs, produced)
        return objs[0] if len(objs) == 1 else objs
    try:
        fn(keep)
    finally:
        ignore_errors(False)
    pub, priv = list(be.pubvals), list(be.privvals)
    def keyval(k): return 1 if k == 0 else (pub[k-1] if k > 0 else priv[-k-1])
    for lcb in produced:
        got = sum(c*keyval(k) for k, c in lcb.lc.lc.items()) % P
        if got != lcb.value % P:
            fail("B %s: LinComb with value %d has a linear combination evaluating to %d" % (name, lcb.value, got)); return
    cons = [[list(part.lc.items()) for part in con] for con in be.constraints]
    check_files("B " + name, pub, priv, cons)

def prog_arith(keep):
    x = PubVal(12); y = PrivVal(-7); z = PrivVal(3)
    keep(x + y, y + x, x - y, 5 - x, x * 3, 3 * x, -x, x * 0, x * 1, 1 * x, x + 0, 0 + x, x - x, (x - x) + y)
    s = keep(x*y + z - 4)
    keep(s * s - s, (x + y + z) * (x - y - z), (x + 1) * (y - 1) + (z * 2))
    acc = ConstVal(0)
    for i in range(20): acc = keep(acc + x * i - y)
    acc2 = LinComb.ZERO
    for i in range(20): acc2 = keep(y * i + acc2)
    keep(acc * acc2)
    keep(x / 4, (x*y) / y, x // 5, x % 5, divmod(y, 4), y // z, y % z, x ** 3, x ** 0)
    keep(x.val() and x)

def prog_big(keep):
    a = PrivVal(P + 5); b = PubVal(-P - 9); c = PrivVal((1 << 300) + 1); d = PubVal(-(1 << 257))
    keep(a + b, a - b, a * b, c * d, a * (P - 1), c * -(1 << 270), (a + c) * (b - d), -c, c - c)
    keep(a * 0 + b * 1, (a + b + c + d) * (1 << 260))
    e = keep(a * b + c * d - 17)
    keep(e * e)

def prog_cmp_bits(keep):
    x = PrivVal(77); y = PubVal(-13); z = PrivVal(77)
    keep(x < y, x <= z, x == z, x != y, x > y, x >= z, x == 77, y != -13)
    w = PrivVal(200)
    keep(x & 0x3c, x | w, x ^ z, ~x, x << 3, x >> 2, x & z, abs(y), w ^ 0xff)
    keep(x.to_bits(8))
    keep(LinComb.from_bits(x.to_bits(8)))
    keep(x.check_positive(), y.check_positive(), x.check_zero(), (x - z).check_zero(), x.check_nonzero())
    x.assert_eq(z); x.assert_ne(y); x.assert_gt(y); y.assert_lt(x); x.assert_ge(z); x.assert_le(z)
    x.assert_positive(); x.assert_nonzero(); (x - z).assert_zero(); x.assert_range(0, 100)

def prog_guards(keep):
    x = PrivVal(9); y = PrivVal(4); t = PrivValBool(1); f = PrivValBool(0)
    keep(if_then_else(t, x, y), if_then_else(f, x, y), if_then_else(t, 3, y), if_then_else(f, x, 8))
    keep(if_then_else(t, lambda: x * y + 1, lambda: x / 3))
    keep(if_then_else(f, lambda: x / y, lambda: x - y))               # untaken branch has an improper division
    keep(if_then_else(f, lambda: (x - 9) .check_nonzero() + x % y, lambda: if_then_else(t, lambda: y * y, lambda: y / 3)))
    @guarded(f.lc)
    def off():
        (x - y).assert_zero()
        x.assert_lt(y)
        return keep(x // y, x % y, x / y, x * y, (x < y), x.to_bits(3))
    off()
    @guarded(t.lc)
    def on():
        (x - 9).assert_zero()
        @guarded((~t).lc)
        def inner():
            x.assert_eq(y)
            return keep(x * x)
        inner()
        return keep(x // y, x % y, x * y)
    on()

def prog_ignore_errors(keep):
    x = PrivVal(10); y = PrivVal(5)
    ignore_errors(True)
    keep(x / y, x / 5, x // y, x % y, x * y, x < y, x == y, x >> 1, x & y)
    keep(x.check_positive(), x.to_bits(6))
    ignore_errors(False)
    keep(x * y - 50)

def prog_bool_fxp(keep):
    a = PrivValBool(1); b = PubValBool(0); c = PrivValBool(1)
    keep(a & b, a | b, a ^ c, ~a, a & c, (a | b) & ~c, a + b, a * 3, a - c)
    p = PrivValFxp(1.5); q = PubValFxp(-2.25); r = PrivValFxp(3.0)
    keep(p + q, p - q, p * q, p * 2, q / r, p + 1, -q, p < q, p >= q, abs(q))
    keep(if_then_else(a, p, q), if_then_else(b, lambda: p * q, lambda: p + r))

def prog_empty(keep):
    # empty and zero-coefficient combinations in constraints
    x = PrivVal(6)
    z = LinComb.ZERO
    runtime.add_constraint(z, x, z)
    runtime.add_constraint(x - x, x, z + z)
    runtime.add_constraint(z * 5, z - z, x * 0)
    runtime.add_constraint(x, LinComb.ONE, x + z)
    keep(z + z, z - z, z * 3, x + z, z + x, z - x, x - z)

def prog_outputs_interleaved(keep):
    # public values created after private ones and in between
    a = PrivVal(3); b = PubVal(4); c = PrivVal(5)
    d = keep(a * b + c); d.val()
    e = PrivVal(-8); f = keep(d * e); f.val(); g = PubVal(1 << 280)
    keep((f + g) * (a - c)).val()

def main():
    partA_directed()
    for seed in range(600):
        partA_case(seed)
        if len(failures) > 5: break
    for (name, fn) in [("arith", prog_arith), ("big", prog_big), ("cmp_bits", prog_cmp_bits), ("guards", prog_guards),
                       ("ignore_errors", prog_ignore_errors), ("bool_fxp", prog_bool_fxp), ("empty", prog_empty),
                       ("outputs_interleaved", prog_outputs_interleaved)]:
        partB_program(name, fn)
    reset_backend()
    if failures:
        print("FAILED: %d violation(s) in %d cases" % (len(failures), ncases))
        sys.exit(1)
    print("OK: property C10 held in all %d cases" % ncases)
    sys.exit(0)

main()
