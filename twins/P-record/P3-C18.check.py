#!/usr/bin/env python3
"""
Evidence program for P (PYSNARK_AUTOPROVE gives the initial value of runtime.autoprove).

Run as   PYTHONPATH=<tree> /venv/bin/python P.check.py   from an empty directory.

It checks property C18 itself, black box: small pysnark scripts are run in fresh interpreters with
the snarkjs backend (the file-writing backend that needs no external tool) and with nobackend,
terminated in every way at every statement position, under many PYSNARK_AUTOPROVE settings and
in-script assignments of runtime.autoprove.  For every run the program decides from plain Python
semantics

  * whether the run is a success (exit status 0)           -> expected process return code,
  * whether automatic proving is on at exit                -> env setting, overridden by the script,
  * what the complete trace is at the point of termination -> public / private values, #constraints,

and then requires

  success and on :  the proving step ran exactly once (its message appears once), witness.wtns and
                    circuit.r1cs exist, decode, carry exactly the expected wires in the expected
                    order, the expected number of constraints, and every constraint holds on the
                    witness modulo the field prime;
  otherwise      :  no file at all was produced;
  always         :  the exit hook did not fail (no "atexit" error report on stderr), and the return
                    code is what plain Python gives for that way of terminating.

Not part of the matrix (upstream behaviour that P neither touches nor depends on): `raise
SystemExit(n)` / builtin `exit(n)` with n != 0, which bypass the sys.exit wrapper.

On a tree without P the environment variable is ignored (automatic proving on unless the script
says otherwise); the program detects that and still checks the property, so it exits 0 there too.
"""

import concurrent.futures
import os
import shutil
import subprocess
import sys
import tempfile

P = 21888242871839275222246405745257275088548364400416034343698204186575808495617
WRITTEN = "snarkjs witness.wtns and circuit.r1cs written"

# --------------------------------------------------------------------------------------------------
# decoding of the snarkjs artefacts
# --------------------------------------------------------------------------------------------------

class Reader:
    def __init__(self, data): self.data, self.pos = data, 0
    def raw(self, n):
        if self.pos + n > len(self.data): raise ValueError("file truncated")
        ret = self.data[self.pos:self.pos + n]; self.pos += n; return ret
    def int(self, n): return int.from_bytes(self.raw(n), "little")
    def done(self): return self.pos == len(self.data)

def decode_wtns(data):
    r = Reader(data)
    if r.raw(4) != b"wtns": raise ValueError("bad wtns magic")
    if r.int(4) != 2 or r.int(4) != 2: raise ValueError("bad wtns version / section count")
    if r.int(4) != 1 or r.int(8) != 40 or r.int(4) != 32: raise ValueError("bad wtns header section")
    if r.int(32) != P: raise ValueError("bad wtns modulus")
    n = r.int(4)
    if r.int(4) != 2 or r.int(8) != 32 * n: raise ValueError("bad wtns value section")
    vals = [r.int(32) for _ in range(n)]
    if not r.done(): raise ValueError("trailing bytes in wtns")
    return vals

def decode_r1cs(data):
    r = Reader(data)
    if r.raw(4) != b"r1cs": raise ValueError("bad r1cs magic")
    if r.int(4) != 1 or r.int(4) != 3: raise ValueError("bad r1cs version / section count")
    if r.int(4) != 1 or r.int(8) != 64 or r.int(4) != 32: raise ValueError("bad r1cs header section")
    if r.int(32) != P: raise ValueError("bad r1cs modulus")
    nvars, npub = r.int(4), r.int(4)
    r.int(4); r.int(4); r.int(8)
    ncons = r.int(4)
    if r.int(4) != 2: raise ValueError("bad r1cs constraint section")
    seclen = r.int(8); start = r.pos
    cons = []
    for _ in range(ncons):
        con = []
        for _ in range(3):
            lc = []
            for _ in range(r.int(4)):
                var = r.int(4); coef = r.int(32)
                if var >= nvars: raise ValueError("constraint refers to wire %d of %d" % (var, nvars))
                lc.append((var, coef))
            con.append(lc)
        cons.append(con)
    if r.pos - start != seclen: raise ValueError("r1cs constraint section length is wrong")
    if r.int(4) != 3 or r.int(8) != 8 * nvars: raise ValueError("bad r1cs label section")
    r.raw(8 * nvars)
    if not r.done(): raise ValueError("trailing bytes in r1cs")
    return nvars, npub, cons

# --------------------------------------------------------------------------------------------------
# the scripts: statements with their plain-Python effect on the trace
# --------------------------------------------------------------------------------------------------

PRELUDE = "import sys\nimport pysnark.runtime as rt\nfrom pysnark.runtime import PrivVal, PubVal\n"

# (source, new public values, new private values, new constraints)
STATEMENTS = [
    ("a = PrivVal(3)\nb = PubVal(5)\n",                      [5],    [3],         0),
    ("lin = a*7 + b - 2\n",                                  [],     [],          0),   # linear: no wire, no gate
    ("c = a*b\n",                                            [],     [15],        1),
    ("d = (c+a)*(b-2)\nd.assert_eq(54)\n",                   [],     [54],        2),
    ("e = PubVal(-4)\nf = e*e\n",                            [-4],   [16],        1),
    # a guarded region with guard 0: the failing assertion inside is neutralised by a dummy wire
    ("g = PrivVal(0)\n"
     "def blk():\n"
     "    t = a*a\n"
     "    t.assert_eq(10)\n"
     "rt.guarded(g)(blk)()\n",                               [],     [0, 9, -9],  3),   # constants are scaled by the guard: 10 -> 0
    ("h = f*f\n",                                            [],     [256],       1),
]

# the same guarded region with the terminator inside it (position "G")
GUARDED_TERM = ("g = PrivVal(0)\n"
                "def blk():\n"
                "    t = a*a\n"
                "    %s\n"
                "    t.assert_eq(10)\n"
                "rt.guarded(g)(blk)()\n",                    [],     [0, 9],      1)

# (name, source, success, return code)
TERMINATORS = [
    ("fall off the end",      None,                                  True,  0),
    ("sys.exit(0)",           "sys.exit(0)",                         True,  0),
    ("sys.exit()",            "sys.exit()",                          True,  0),
    ("sys.exit(None)",        "sys.exit(None)",                      True,  0),
    ("sys.exit(False)",       "sys.exit(False)",                     True,  0),
    ("sys.exit(1)",           "sys.exit(1)",                         False, 1),
    ("sys.exit(3)",           "sys.exit(3)",                         False, 3),
    ("sys.exit(-1)",          "sys.exit(-1)",                        False, 255),
    ("sys.exit(True)",        "sys.exit(True)",                      False, 1),
    ("sys.exit('message')",   "sys.exit('message')",                 False, 1),
    ("raise ValueError",      "raise ValueError('boom')",            False, 1),
    ("ZeroDivisionError",     "1//0",                                False, 1),
    ("failing constraint",    "PrivVal(2).assert_eq(3)",             False, 1),
    ("KeyboardInterrupt",     "raise KeyboardInterrupt",             False, None),
    ("raise SystemExit(0)",   "raise SystemExit(0)",                 True,  0),
    ("raise SystemExit",      "raise SystemExit",                    True,  0),
    ("raise SystemExit(None)","raise SystemExit(None)",              True,  0),
    ("builtin exit(0)",       "exit(0)",                             True,  0),
    ("builtin exit()",        "exit()",                              True,  0),
    ("builtin quit()",        "quit()",                              True,  0),
]
SHORT_TERMS = ["fall off the end", "sys.exit(0)", "sys.exit(1)", "raise ValueError", "raise SystemExit(0)"]

# (label, value of PYSNARK_AUTOPROVE or None, meaning with P: True on / False off, warning expected)
ENVS = [
    ("unset",    None,      True,  False),
    ("1",        "1",       True,  False),
    ("true",     "true",    True,  False),
    ("Yes",      "Yes",     True,  False),
    (" on ",     " on ",    True,  False),
    ("empty",    "",        True,  False),
    ("0",        "0",       False, False),
    ("false",    "false",   False, False),
    ("No",       "No",      False, False),
    (" OFF ",    " OFF ",   False, False),
    ("banana",   "banana",  True,  True),
    ("2",        "2",       True,  True),
    ("-1",       "-1",      True,  True),
]

# in-script assignments of runtime.autoprove: (label, at start, just before the terminator, effective or None)
OVERRIDES = [
    ("no assignment",  "",                      "",                      None),
    ("False at start", "rt.autoprove = False\n", "",                      False),
    ("True at start",  "rt.autoprove = True\n",  "",                      True),
    ("False late",     "",                      "rt.autoprove = False\n", False),
    ("True late",      "rt.autoprove = False\n", "rt.autoprove = True\n",  True),
]

def build(position, term_src, override):
    """ Script terminated at `position` (0..len(STATEMENTS), or "G" = inside the guarded function)
        and the trace (pubs, privs, ncons) that exists at that moment. """
    _, at_start, late, _ = override
    src = PRELUDE + at_start
    pubs, privs, ncons = [], [], 0
    upto = 5 if position == "G" else position
    for (stmt, npub, npriv, ncon) in STATEMENTS[:upto]:
        src += stmt; pubs += npub; privs += npriv; ncons += ncon
    src += late
    if position == "G":
        (stmt, npub, npriv, ncon) = GUARDED_TERM
        if term_src is None: return None
        src += stmt % term_src; pubs += npub; privs += npriv; ncons += ncon
        rest = STATEMENTS[6:]
    else:
        if term_src is not None: src += term_src + "\n"
        rest = STATEMENTS[upto:] if term_src is not None else []
    for (stmt, _, _, _) in rest: src += stmt          # never reached
    return src, pubs, privs, ncons

# --------------------------------------------------------------------------------------------------

def run(backend, src, envval):
    d = tempfile.mkdtemp(prefix="r7-C18-")
    try:
        with open(os.path.join(d, "script.py"), "w") as f: f.write(src)
        env = dict(os.environ)
        env["PYSNARK_BACKEND"] = backend
        env.pop("PYSNARK_AUTOPROVE", None)
        if envval is not None: env["PYSNARK_AUTOPROVE"] = envval
        r = subprocess.run([sys.executable, "script.py"], cwd=d, env=env, capture_output=True, text=True, timeout=120)
        files = {}
        for name in os.listdir(d):
            if name == "script.py" or name == "__pycache__": continue
            with open(os.path.join(d, name), "rb") as f: files[name] = f.read()
        return r.returncode, r.stdout, r.stderr, files
    finally:
        shutil.rmtree(d, ignore_errors=True)

def check_case(case, feature):
    (backend, position, term, envspec, override) = case
    (tname, tsrc, success, rc) = term
    (elabel, envval, env_on, env_warn) = envspec
    built = build(position, tsrc, override)
    if built is None: return []
    # under a guard with value 0 errors are suppressed, so a failing assertion does not terminate there
    if position == "G" and tname == "failing constraint": return []
    (src, pubs, privs, ncons) = built
    if not feature: env_on, env_warn = True, False
    on = override[3] if override[3] is not None else env_on

    what = "[%s] position %s, %s, PYSNARK_AUTOPROVE %s, %s" % (backend, position, tname, elabel, override[0])
    errs = []
    def err(msg): errs.append(what + ": " + msg)

    (code, out, stderr, files) = run(backend, src, envval)

    if rc is None:
        if code not in (-2, 130, 1): err("return code %r for KeyboardInterrupt" % code)
    elif code != rc: err("return code %r, plain Python gives %r\n%s" % (code, rc, stderr))

    if "atexit" in stderr: err("the exit hook failed:\n" + stderr)
    if stderr.count("unknown value for PYSNARK_AUTOPROVE") != (1 if env_warn else 0):
        err("warning about the setting expected %s\n%s" % (env_warn, stderr))

    nproved = stderr.count(WRITTEN)
    if backend == "nobackend":
        if files: err("nobackend produced files %s" % sorted(files))
        return errs

    if not (success and on):
        if files: err("proof artefacts %s although %s" % (sorted(files), "the run failed" if not success else "automatic proving is off"))
        if nproved: err("proving step ran %d time(s)" % nproved)
        return errs

    if nproved != 1: err("proving step ran %d times instead of once\n%s" % (nproved, stderr))
    if sorted(files) != ["circuit.r1cs", "witness.wtns"]:
        err("files produced: %s" % sorted(files)); return errs
    try:
        wit = decode_wtns(files["witness.wtns"])
        (nvars, npub, cons) = decode_r1cs(files["circuit.r1cs"])
    except ValueError as e:
        err("artefact does not decode: %s" % e); return errs

    expect = [1] + [v % P for v in pubs] + [v % P for v in privs]
    if wit != expect: err("witness %s is not the complete trace %s" % (wit, expect))
    if nvars != len(expect) or npub != len(pubs): err("circuit has %d wires / %d public, trace has %d / %d" % (nvars, npub, len(expect), len(pubs)))
    if len(cons) != ncons: err("circuit has %d constraints, trace has %d" % (len(cons), ncons))
    if len(wit) == nvars:
        for (i, (a, b, c)) in enumerate(cons):
            ev = lambda lc: sum(coef * wit[var] for (var, coef) in lc) % P
            if ev(a) * ev(b) % P != ev(c): err("constraint %d does not hold on the witness" % i)
    return errs

def main():
    os.environ.pop("PYSNARK_AUTOPROVE", None)
    os.environ["PYSNARK_BACKEND"] = "nobackend"
    import pysnark.runtime as rt
    rt.autoprove = False
    feature = hasattr(rt, "autoprove_from_env")
    print("tree:", os.path.dirname(rt.__file__), "- PYSNARK_AUTOPROVE", "supported" if feature else "not supported (ignored)")

    errors = []

    # the parser in isolation
    if feature:
        table = {None: True, "": True, " ": True, "1": True, "true": True, "TRUE": True, "yes": True, "On": True, "\ton\n": True,
                 "0": False, "false": False, "FALSE": False, "no": False, "Off": False, " 0 ": False}
        for (raw, want) in table.items():
            got = rt.autoprove_from_env({} if raw is None else {"PYSNARK_AUTOPROVE": raw})
            if got is not want: errors.append("autoprove_from_env(%r) = %r, expected %r" % (raw, got, want))
        for raw in ["2", "-1", "00", "01", "none", "disable", "y", "n", "t", "f", "0.0", "1 0", "off!", "tru"]:
            if rt.autoprove_from_env({"PYSNARK_AUTOPROVE": raw}) is not True:
                errors.append("autoprove_from_env(%r) does not fall back to on" % raw)
        if rt.autoprove_from_env({"PYSNARK_BACKEND": "0", "OTHER": "off"}) is not True:
            errors.append("autoprove_from_env looks at other variables")

    positions = list(range(len(STATEMENTS) + 1)) + ["G"]
    byname = {t[0]: t for t in TERMINATORS}
    cases = []
    # every way of terminating x every position, proving on (unset) and off ("0"), both backends for "unset"
    for position in positions:
        for term in TERMINATORS:
            cases.append(("snarkjs", position, term, ENVS[0], OVERRIDES[0]))
            cases.append(("snarkjs", position, term, ENVS[6], OVERRIDES[0]))
    # every setting x every in-script assignment x main ways of terminating x some positions
    for envspec in ENVS:
        for override in OVERRIDES:
            for tname in SHORT_TERMS:
                for position in (0, 3, len(STATEMENTS), "G"):
                    cases.append(("snarkjs", position, byname[tname], envspec, override))
    # the exit hook must not fail with a backend that has nothing to write either
    for envspec in (ENVS[0], ENVS[6], ENVS[10]):
        for tname in SHORT_TERMS:
            for position in (0, len(STATEMENTS)):
                cases.append(("nobackend", position, byname[tname], envspec, OVERRIDES[0]))
    cases = list(dict.fromkeys(cases))

    with concurrent.futures.ThreadPoolExecutor(max_workers=min(8, (os.cpu_count() or 2))) as pool:
        for errs in pool.map(lambda c: check_case(c, feature), cases):
            errors += errs

    print("%d script runs, %d deviations" % (len(cases), len(errors)))
    for e in errors[:40]: print("VIOLATION:", e)
    if errors: sys.exit(1)
    print("property C18 held in all cases")

if __name__ == "__main__":
    main()
