"""
P.check.py - C05 (selection part): if_then_else(cond, t, f) returns what the Python expression
`t if cond else f` yields on plain values, or raises; on branches of the same shape it does
not raise.

The program drives pysnark.branching.if_then_else over randomly generated (nested) lists,
tuples and dicts of integers / LinCombs / LinCombBools / LinCombFxps and
  * compares the result, element by element and container type by container type, with
    `t if c else f` evaluated on the plain Python values,
  * does so eagerly, with lazy (callable) branches, inside guards that are on and off,
    and with ignore_errors set,
  * evaluates every constraint emitted during the call on the recorded witness,
  * feeds branches of DIFFERENT shape (shorter / longer / other container type / other
    keys / container against scalar) and requires an exception rather than a value that
    differs from Python's.

Exit 0 when the property held in all cases, 1 otherwise.
"""
import os, sys, random
os.environ["PYSNARK_BACKEND"] = "snarkjs"

import pysnark.runtime as rt
from pysnark.runtime import PrivVal, PubVal, LinComb, guarded, ignore_errors
from pysnark.boolean import LinCombBool, PrivValBool, PubValBool
from pysnark.fixedpoint import LinCombFxp, PrivValFxp
import pysnark.fixedpoint as fxp
from pysnark.branching import if_then_else
import pysnark.snarkjsbackend as be
rt.autoprove = False

MOD = be.get_modulus()
rnd = random.Random(505)
failures = []

def fail(msg):
    failures.append(msg)
    if len(failures) <= 15: print("FAIL:", msg)

# ---------------------------------------------------------------- constraint evaluation
def ev(lc):
    tot = 0
    for k, c in lc.lc.items():
        tot += c * (1 if k == 0 else (be.pubvals[k-1] if k > 0 else be.privvals[-k-1]))
    return tot % MOD

def constraints_hold(start):
    return all((ev(v) * ev(w) - ev(y)) % MOD == 0 for (v, w, y) in be.constraints[start:])

# ---------------------------------------------------------------- values
# a leaf is (kind, plain value); kinds that may be paired within one selection
INT_KINDS = ["int", "priv", "pub", "expr", "bool"]

def rand_leaf(kind):
    if kind == "bool": return (kind, rnd.choice([0, 1]))
    if kind == "fxp":  return (kind, rnd.randint(-40, 40) / 4)
    return (kind, rnd.choice([0, 1, -1, 2, 7, -32768, 32767, 65535, 1 << 20, -(1 << 20), rnd.randint(-1000, 1000)]))

def trace(leaf):
    kind, v = leaf
    if kind == "int":  return v
    if kind == "priv": return PrivVal(v)
    if kind == "pub":  return PubVal(v)
    if kind == "expr": return PrivVal(v - 5) + 5
    if kind == "bool": return PrivValBool(v)
    if kind == "fxp":  return PrivValFxp(v)
    raise AssertionError(kind)

def rand_shape(depth):
    """ a shape: 'leaf' | ('list', [shapes]) | ('tuple', [shapes]) | ('dict', {key: shape}) """
    if depth == 0 or rnd.random() < 0.35:
        return "leaf"
    kind = rnd.choice(["list", "tuple", "dict"])
    n = rnd.choice([0, 1, 1, 2, 3, 4])
    if kind == "dict":
        return ("dict", {rnd.choice(["a", "b", "c", 1, 2, (0, 1)]) : rand_shape(depth - 1) for _ in range(n)})
    return (kind, [rand_shape(depth - 1) for _ in range(n)])

def fill(shape, fxpmode):
    """ -> (tree of leaves for the true branch, same for the false branch) """
    if shape == "leaf":
        if fxpmode: return (rand_leaf("fxp"), rand_leaf("fxp"))
        return (rand_leaf(rnd.choice(INT_KINDS)), rand_leaf(rnd.choice(INT_KINDS)))
    kind, sub = shape
    if kind == "dict":
        pairs = {k: fill(s, fxpmode) for k, s in sub.items()}
        keys = list(pairs)
        rkeys = keys[:]; rnd.shuffle(rkeys)          # other insertion order in the false branch
        return (("dict", {k: pairs[k][0] for k in keys}), ("dict", {k: pairs[k][1] for k in rkeys}))
    pairs = [fill(s, fxpmode) for s in sub]
    return ((kind, [p[0] for p in pairs]), (kind, [p[1] for p in pairs]))

def is_leaf(t): return isinstance(t, tuple) and len(t) == 2 and isinstance(t[0], str) and t[0] not in ("list", "tuple", "dict")

def build(tree, conv):
    """ turn a tree of leaves into the Python container structure, converting leaves with conv """
    if is_leaf(tree): return conv(tree)
    kind, sub = tree
    if kind == "list":  return [build(s, conv) for s in sub]
    if kind == "tuple": return tuple(build(s, conv) for s in sub)
    return {k: build(s, conv) for k, s in sub.items()}

def plain(tree): return build(tree, lambda leaf: leaf[1])

def decode(x):
    """ traced result -> plain Python structure """
    if isinstance(x, LinComb): return x.value
    if isinstance(x, LinCombBool): return x.lc.value
    if isinstance(x, LinCombFxp): return x.lc.value / (1 << fxp.resolution)
    if isinstance(x, list): return [decode(e) for e in x]
    if isinstance(x, tuple): return tuple(decode(e) for e in x)
    if isinstance(x, dict): return {k: decode(e) for k, e in x.items()}
    return x

def same(a, b):
    """ equality that also distinguishes list / tuple / dict """
    if isinstance(a, (list, tuple, dict)) or isinstance(b, (list, tuple, dict)):
        if not (type(a) is type(b)) or len(a) != len(b): return False
        if isinstance(a, dict): return a.keys() == b.keys() and all(same(a[k], b[k]) for k in a)
        return all(same(x, y) for x, y in zip(a, b))
    return a == b

def mkcond(c, how):
    if how == 0: return PrivValBool(c)
    if how == 1: return PubValBool(c)
    if how == 2: return PrivVal(3) < PrivVal(4 if c else 2)
    return ~PrivValBool(1 - c)

# ---------------------------------------------------------------- one experiment
def experiment(ttree, ftree, c, mode, must_return, label):
    """ mode: eager | lazy_t | lazy_f | lazy_tf; returns 'ret' / 'raise' """
    expect = plain(ttree) if c else plain(ftree)
    start = len(be.constraints)
    try:
        cond = mkcond(c, rnd.randrange(4))
        c = cond.lc.value            # (a comparison made in code whose guard is off yields 0)
        expect = plain(ttree) if c else plain(ftree)
        tv = (lambda: build(ttree, trace)) if mode in ("lazy_t", "lazy_tf") else build(ttree, trace)
        fv = (lambda: build(ftree, trace)) if mode in ("lazy_f", "lazy_tf") else build(ftree, trace)
        got = decode(if_then_else(cond, tv, fv))
    except Exception as e:
        if must_return:
            fail("%s: raised %r on branches of the same shape: %r / %r" % (label, e, plain(ttree), plain(ftree)))
        if not constraints_hold(start):
            fail("%s: constraints emitted before the exception do not hold" % label)
        return "raise"
    if not same(got, expect):
        fail("%s: cond=%d %r / %r returned %r, Python gives %r" % (label, c, plain(ttree), plain(ftree), got, expect))
    if not constraints_hold(start):
        fail("%s: emitted constraints do not hold on the witness (%r / %r)" % (label, plain(ttree), plain(ftree)))
    return "ret"

def in_context(ctx, fn):
    """ run fn plainly, under a guard that is on / off, or with errors ignored """
    if ctx == "plain": return fn()
    if ctx == "guard1": return guarded(PrivVal(1))(fn)()
    if ctx == "guard0": return guarded(PrivVal(0))(fn)()
    if ctx == "nested": return guarded(PrivVal(1))(lambda: guarded(PrivVal(0))(fn)())()
    if ctx == "ignore":
        old = ignore_errors(); ignore_errors(True)
        try: return fn()
        finally: ignore_errors(old)
    raise AssertionError(ctx)

# ---------------------------------------------------------------- broken shapes
def mutate(tree):
    """ return a tree whose shape differs from tree's somewhere (or None when there is no container in it) """
    spots = []
    def walk(t, path):
        if is_leaf(t): return
        spots.append(path)
        kind, sub = t
        for k in (sub if kind == "dict" else range(len(sub))): walk(sub[k], path + [k])
    walk(tree, [])
    if not spots: return None
    path = rnd.choice(spots)
    def rebuild(t, path):
        kind, sub = t
        if path:
            if kind == "dict": sub = dict(sub); sub[path[0]] = rebuild(sub[path[0]], path[1:]); return (kind, sub)
            sub = list(sub); sub[path[0]] = rebuild(sub[path[0]], path[1:]); return (kind, sub)
        how = rnd.choice(["drop", "add", "kind", "scalar", "key"])
        if kind == "dict":
            sub = dict(sub)
            if how == "drop" and sub: sub.pop(next(iter(sub))); return (kind, sub)
            if how == "key" and sub: sub["zz"] = sub.pop(next(iter(sub))); return (kind, sub)
            if how == "kind": return ("list", list(sub.values()))
            if how == "scalar": return rand_leaf("priv")
            sub["extra"] = rand_leaf("priv"); return (kind, sub)
        sub = list(sub)
        if how == "drop" and sub: sub.pop(rnd.randrange(len(sub))); return (kind, sub)
        if how == "kind": return ("tuple" if kind == "list" else "list", sub)
        if how == "key": return ("dict", {i: s for i, s in enumerate(sub)})
        if how == "scalar": return rand_leaf("priv")
        sub.insert(rnd.randrange(len(sub) + 1), rand_leaf("priv")); return (kind, sub)
    return rebuild(tree, path)

# ---------------------------------------------------------------- run
counts = {}
def note(key): counts[key] = counts.get(key, 0) + 1

CTXS = ["plain", "plain", "guard1", "guard0", "nested", "ignore"]
MODES = ["eager", "eager", "lazy_t", "lazy_f", "lazy_tf"]

for bl in (8, 16):
    rt.bitlength = bl
    for it in range(900):
        shape = rand_shape(3)
        fxpmode = rnd.random() < 0.2
        ttree, ftree = fill(shape, fxpmode)
        for c in (0, 1):
            ctx, mode = rnd.choice(CTXS), rnd.choice(MODES)
            r = in_context(ctx, lambda: experiment(ttree, ftree, c, mode, True, "same shape/%s/%s" % (ctx, mode)))
            note(("same", r))
        # a different shape in one of the two branches: an exception, or exactly Python's value
        for victim in ("t", "f"):
            m = mutate(ttree if victim == "t" else ftree)
            if m is None: continue
            a, b = (m, ftree) if victim == "t" else (ttree, m)
            for c in (0, 1):
                ctx, mode = rnd.choice(CTXS), rnd.choice(MODES)
                r = in_context(ctx, lambda: experiment(a, b, c, mode, False, "different shape/%s/%s" % (ctx, mode)))
                note(("diff", r))
rt.bitlength = 16

# hand-picked corner cases -------------------------------------------------------------
L = lambda *v: ("list", [("priv", x) for x in v])
T = lambda *v: ("tuple", [("priv", x) for x in v])
D = lambda **v: ("dict", {k: ("priv", x) for k, x in v.items()})
corner = [
    (L(), L(), True), (T(), T(), True), (D(), D(), True),
    (L(1, 2), L(3), False), (L(1), L(3, 4), False), (L(), L(1), False),      # zip used to truncate these
    (T(1, 2), T(3, 4), True), (T(1, 2), L(3, 4), False), (L(1, 2), T(3, 4), False),
    (D(a=1, b=2), D(b=4, a=3), True), (D(a=1), D(b=1), False), (D(a=1), D(a=1, b=2), False),
    (L(1), ("priv", 5), False), (("priv", 5), L(1), False), (("priv", 5), D(a=1), False), (T(1), ("int", 5), False),
    (("list", [T(1, 2), D(a=3)]), ("list", [T(5, 6), D(a=7)]), True),
    (("list", [T(1, 2), D(a=3)]), ("list", [T(5, 6), D(b=7)]), False),
    (("tuple", [L(1), L(2, 3)]), ("tuple", [L(4), L(5)]), False),
]
for (a, b, ok) in corner:
    for c in (0, 1):
        for ctx in ("plain", "guard1", "guard0", "ignore"):
            for mode in MODES[1:]:
                r = in_context(ctx, lambda: experiment(a, b, c, mode, ok, "corner/%s/%s" % (ctx, mode)))
                note(("corner", r))
                if not ok and r != "raise":
                    pass   # a return is only acceptable when it equals Python's value; experiment() checked that

# public (integer) conditions take the Python expression literally, whatever the shapes
for c in (0, 1):
    a, b = [PrivVal(1), PrivVal(2)], (PrivVal(3),)
    got = if_then_else(c, a, b)
    if got is not (a if c else b): fail("integer condition %d did not return the selected branch object" % c)
# the same object in both branches is returned as is
x = (PrivVal(1), [PrivVal(2)])
if if_then_else(PrivValBool(0), x, x) is not x: fail("identical branches not returned unchanged")
# guard state is restored after an exception caused by a shape mismatch in lazy branches
try:
    if_then_else(PrivValBool(1), lambda: [PrivVal(1)], lambda: (PrivVal(1),))
    fail("list against tuple returned a value")
except (TypeError, ValueError):
    pass
if rt.guard is not None or rt.ignore_errors() or LinComb.ONE is not LinComb.ONE_SAFE:
    fail("guard / ignore_errors / LinComb.ONE not restored after a shape error")

print("experiments:", ", ".join("%s/%s=%d" % (k[0], k[1], v) for k, v in sorted(counts.items())))
print("constraints evaluated:", len(be.constraints))
if failures:
    print("C05 VIOLATED in %d cases" % len(failures))
    sys.exit(1)
print("C05 held: every selection returned Python's value (same container types) or raised; same-shape branches never raised")
