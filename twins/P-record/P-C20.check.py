#!/usr/bin/env python
"""
Evidence program for property C20 (hash gadgets equal a plain reference and use the
active backend's parameters), written for change P (square-and-multiply Poseidon S-box).

Run as:  PYTHONPATH=<tree> /venv/bin/python P.check.py      (from any, e.g. an empty, directory)

The driver starts one child interpreter per (backend, way the backend was selected) in a
fresh temporary working directory.  Each child checks the PROPERTY, not equality with an
older version of the code:

  * the parameter set bound by pysnark.poseidon_hash is the one registered for the backend
    the runtime really selected (environment / pre-import / auto-detection), its field is
    the backend's field, and unsupported backends raise instead of falling back;
  * the traced permutation / sponge return the field elements of an independent plain
    integer Poseidon (own code below, pow(x, a, p) S-box) on messages of 0..13 elements
    (1..4 blocks) with values across and outside the field, for every operand kind;
  * the published test vectors are reproduced (by the traced code and by the reference);
  * every emitted constraint holds on the recorded witness, every new wire is DEFINED by
    exactly one constraint over earlier wires (so the witness is unique), and re-solving
    the circuit from the constraints alone gives the reference digest (soundness);
    for tiny fields the S-box constraints are brute-forced over all witnesses;
  * the number (and the shape) of the constraints does not depend on the input values,
    guards, lazy if_then_else branches or ignore_errors;
  * the padded forms of messages of different length never coincide;
  * the traced subset-sum hash equals its plain counterpart and an own reference.

flatbuffers is not installed; the zkinterface backends only need it in prove(), which is
never called here, so an empty stub module is installed in the children.
"""
import hashlib
import importlib
import itertools
import math
import os
import random
import shutil
import struct
import subprocess
import sys
import tempfile
import time
import types

BACKEND_MODULE = {
    "snarkjs":          "pysnark.snarkjsbackend",
    "zkinterface":      "pysnark.zkinterface.backend",
    "zkifbellman":      "pysnark.zkinterface.backendbellman",
    "zkifbulletproofs": "pysnark.zkinterface.backendbulletproofs",
    "nobackend":        "pysnark.nobackend",
}

# scalar fields of BN254, BLS12-381 and Curve25519 (nobackend: the dummy modulus of pysnark.nobackend)
EXPECTED_MODULUS = {
    "zkinterface":      21888242871839275222246405745257275088548364400416034343698204186575808495617,
    "zkifbellman":      52435875175126190479447740508185965837690552500527637822603658699938581184513,
    "zkifbulletproofs": 2**252 + 27742317777372353535851937790883648493,
    "nobackend":        10000,
}

# published vectors: Poseidon permutation of [0,1,2,3,4], reference implementation (x^5, t=5, 128 bit)
VECTORS = {
    "zkinterface": [
        0x299c867db6c1fdd79dcefa40e4510b9837e60ebb1ce0663dbaa525df65250465,
        0x1148aaef609aa338b27dafd89bb98862d8bb2b429aceac47d86206154ffe053d,
        0x24febb87fed7462e23f6665ff9a0111f4044c38ee1672c1ac6b0637d34f24907,
        0x0eb08f6d809668a981c186beaf6110060707059576406b248e5d9cf6e78b3d3e,
        0x07748bc6877c9b82c8b98666ee9d0626ec7f5be4205f79ee8528ef1c4a376fc7],
    "zkifbellman": [
        0x2a918b9c9f9bd7bb509331c81e297b5707f6fc7393dcee1b13901a0b22202e18,
        0x65ebf8671739eeb11fb217f2d5c5bf4a0c3f210e3f3cd3b08b5db75675d797f7,
        0x2cc176fc26bc70737a696a9dfd1b636ce360ee76926d182390cdb7459cf585ce,
        0x4dc4e29d283afd2a491fe6aef122b9a968e74eff05341f3cc23fda1781dcb566,
        0x03ff622da276830b9451b88b85e6184fd6ae15c8ab3ee25a5667be8592cce3b1],
}

# (expected backend, way of selection, level)   level: full / light / unsupported
SCENARIOS = [
    ("zkinterface",      "env",       "full"),
    ("zkifbellman",      "env",       "full"),
    ("zkifbulletproofs", "env",       "full"),
    ("nobackend",        "env",       "full"),
    ("zkinterface",      "preimport", "light"),
    # (pre-importing backendbellman / backendbulletproofs also loads pysnark.zkinterface.backend, which
    #  runtime.py then reports as "zkinterface"; that resolution is runtime's and is not touched by P)
    ("nobackend",        "preimport", "light"),
    ("zkinterface",      "auto",      "light"),      # earlier entries of the list made unimportable
    ("nobackend",        "auto",      "light"),      # everything but nobackend unimportable
    ("snarkjs",          "auto",      "unsupported"),  # what auto-detection finds on this machine
    ("snarkjs",          "env",       "unsupported"),
    ("snarkjs",          "preimport", "unsupported"),
]


def check(cond, *msg):
    if not cond:
        raise AssertionError(" ".join(str(m) for m in msg))


# ----------------------------------------------------------------------------------------
# plain references (independent of pysnark code; only the registered numbers are shared)
# ----------------------------------------------------------------------------------------

class Params:
    def __init__(self, table, p):
        self.R_F, self.R_P, self.t, self.a = table["R_F"], table["R_P"], table["t"], table["a"]
        self.rc, self.M, self.p = table["round_constants"], table["matrix"], p


def ref_permute(state, P):
    p = P.p
    s = [x % p for x in state]
    check(len(s) == P.t)
    for r in range(P.R_F + P.R_P):
        s = [(x + c) % p for x, c in zip(s, P.rc[r])]
        if r < P.R_F // 2 or r >= P.R_F // 2 + P.R_P:
            s = [pow(x, P.a, p) for x in s]
        else:
            s[0] = pow(s[0], P.a, p)
        s = [sum(P.M[i][j] * s[j] for j in range(P.t)) % p for i in range(P.t)]
    return s


def ref_pad(msg, P):
    rate = P.t - 1
    padded = list(msg) + [1]
    while len(padded) % rate:
        padded.append(0)
    return padded


def ref_hash(msg, P):
    rate = P.t - 1
    padded = ref_pad(msg, P)
    state = [0] * P.t
    for b in range(0, len(padded), rate):
        for j in range(rate):
            state[1 + j] = (state[1 + j] + padded[b + j]) % P.p
        state = ref_permute(state, P)
    return state[1:]


def ref_ggh_coefficient(i, p):
    nbits = p.bit_length()
    it = 0
    while True:
        digest = hashlib.sha512(struct.pack("=QQ", i, it)).digest()
        val = int.from_bytes(digest, "little") % (1 << nbits)
        if val < p:
            return val
        it += 1


def ref_ggh(bits, p):
    return sum(b * ref_ggh_coefficient(i, p) for i, b in enumerate(bits)) % p


# ----------------------------------------------------------------------------------------
# child
# ----------------------------------------------------------------------------------------

def install_flatbuffers_stub():
    fb = types.ModuleType("flatbuffers")
    fb.__path__ = []
    compat = types.ModuleType("flatbuffers.compat")
    compat.import_numpy = lambda: None
    fb.compat = compat
    sys.modules["flatbuffers"] = fb
    sys.modules["flatbuffers.compat"] = compat


class Blocker:
    """ makes the named modules unimportable (as if their dependencies were not installed) """
    def __init__(self, names):
        self.names = set(names)

    def find_spec(self, name, path=None, target=None):
        if name in self.names:
            raise ImportError("not available in this scenario: " + name)
        return None


def child(expected, how, level):
    rnd = random.Random(20200 + len(expected) * 7 + len(how))

    # ---- select the backend in the requested way
    if how == "env":
        check(os.environ.get("PYSNARK_BACKEND") == expected)
    else:
        check("PYSNARK_BACKEND" not in os.environ)
    if not (how == "auto" and expected == "nobackend"):
        install_flatbuffers_stub()
    if how == "auto":
        # auto-detection takes the first importable entry of runtime.backends; make the outcome
        # independent of what happens to be installed on this machine
        blocked = ["pysnark.libsnark.backend", "pysnark.libsnark.backendgg", "pysnark.qaptools.backend"]
        if expected in ("zkinterface", "nobackend"):
            blocked.append("pysnark.snarkjsbackend")
        if expected == "nobackend":
            blocked.append("flatbuffers")
        sys.meta_path.insert(0, Blocker(blocked))
    if how == "preimport":
        importlib.import_module(BACKEND_MODULE[expected])

    from pysnark import runtime
    runtime.autoprove = False
    check(runtime.backend_name == expected, "selected", runtime.backend_name, "expected", expected)
    check(runtime.backend is sys.modules[BACKEND_MODULE[expected]])

    from pysnark.poseidon_constants import poseidon_constants

    if level == "unsupported":
        check(expected not in poseidon_constants)
        try:
            import pysnark.poseidon_hash
        except NotImplementedError:
            pass
        else:
            raise AssertionError("poseidon_hash imported for a backend without registered parameters")
        check("pysnark.poseidon_hash" not in sys.modules)
        print("ok  %-16s %-9s unsupported backend refused, no fallback parameters" % (expected, how))
        return

    import pysnark.poseidon_hash as ph
    import pysnark.ggh_hash as ggh
    from pysnark.runtime import PrivVal, PubVal, ConstVal, LinComb
    from pysnark.boolean import PrivValBool, PubValBool
    from pysnark.fixedpoint import PrivValFxp
    from pysnark.branching import if_then_else

    backend = runtime.backend
    p = backend.get_modulus()
    recording = expected != "nobackend"
    store = sys.modules["pysnark.zkinterface.backend"] if recording else None

    # ---- clause: the parameter set in use is the one registered for the selected backend
    table = poseidon_constants[expected]
    check(p == EXPECTED_MODULUS[expected], "field of the backend")
    check(ph.constants is table)
    check(ph.round_constants is table["round_constants"] and ph.matrix is table["matrix"])
    check((ph.R_F, ph.R_P, ph.t, ph.a) == (table["R_F"], table["R_P"], table["t"], table["a"]))
    check(ggh.PRIME == p)
    P = Params(table, p)
    check(len(P.rc) >= P.R_F + P.R_P and all(len(row) == P.t for row in P.rc))
    check(len(P.M) == P.t and all(len(row) == P.t for row in P.M))
    if expected != "nobackend":
        check((P.R_F, P.R_P, P.t, P.a) == (8, 60, 5, 5), "128-bit x^5 t=5 instance")
        check(all(0 <= c < p for row in P.rc for c in row) and all(0 <= c < p for row in P.M for c in row))
        check(math.gcd(P.a, p - 1) == 1, "S-box is a permutation of the field")
        check(table is not poseidon_constants["nobackend"])
        for other in poseidon_constants:       # no two backends share a set: a wrong binding is visible below
            if other != expected:
                check(poseidon_constants[other]["round_constants"] != P.rc)

    sbox_cost = P.a.bit_length() + bin(P.a).count("1") - 2 if hasattr(ph, "sbox") else P.a - 1
    perm_cost = (P.R_F * P.t + P.R_P) * sbox_cost

    # ---- witness helpers (zkinterface family records wires and constraints in plain lists)
    def wire(k, assign=None):
        if assign is not None and k in assign:
            return assign[k]
        if k == 0:
            return 1
        return store.pubvals[k - 1] if k > 0 else store.privvals[-k - 1]

    def ev(lc, assign=None):
        return sum(c * wire(k, assign) for k, c in lc.lc.items()) % p

    def evq(lc, assign, q):
        return sum(c * wire(k, assign) for k, c in lc.lc.items()) % q

    class Trace:
        """ runs fn, keeps the constraints / wires it created """
        def __init__(self, fn):
            n0 = runtime.num_constraints
            if recording:
                self.c0, self.w0, self.u0 = len(store.constraints), len(store.privvals), len(store.pubvals)
            self.out = fn()
            self.count = runtime.num_constraints - n0
            if recording:
                self.cons = store.constraints[self.c0:]
                self.w1, self.u1 = len(store.privvals), len(store.pubvals)
                check(len(self.cons) == self.count)

        def check_witness(self):
            for (A, B, C) in self.cons:
                check(ev(A) * ev(B) % p == ev(C), "constraint violated on the recorded witness")

        def resolve(self, outs):
            """ every constraint must define one fresh wire from known ones; recompute all of
            them from the constraints alone and return the outputs under that assignment """
            check(self.u1 == self.u0, "no instance wires are created by the gadget")
            known = set(range(0, self.u0 + 1)) | set(-k for k in range(1, self.w0 + 1))
            assign = {}
            for n, (A, B, C) in enumerate(self.cons):
                fresh = -(self.w0 + n + 1)
                check(C.lc == {fresh: 1}, "right-hand side is one fresh wire")
                check(set(A.lc) <= known and set(B.lc) <= known, "factors only use defined wires")
                assign[fresh] = ev(A, assign) * ev(B, assign) % p
                check(assign[fresh] == store.privvals[-fresh - 1] % p)
                known.add(fresh)
            check(self.w1 - self.w0 == len(self.cons), "every new wire is defined by a constraint")
            for o in outs:
                check(set(o.lc.lc) <= known)
            return [ev(o.lc, assign) for o in outs]

        def shape(self):
            def norm(k):
                return k + self.w0 if k < 0 else k
            return [tuple(sorted((norm(k), c % p) for k, c in X.lc.items())) for con in self.cons for X in con]

    def field_values(n):
        special = [0, 1, 2, 3, p - 1, p - 2, (p - 1) // 2, (p + 1) // 2, 1 << (p.bit_length() - 1),
                   p, p + 1, 2 * p + 3, -1, -2, -p, -p - 5, 1 << 300, -(1 << 300) + 7]
        return [rnd.choice(special) if rnd.random() < 0.45 else rnd.randrange(p) for _ in range(n)]

    def make(kind, v):
        """ an operand of the given kind carrying (a representative of) v; returns (operand, plain value) """
        if kind == "mixed":
            kind = rnd.choice(["priv", "pub", "const", "lin", "bool", "pubbool", "fxp", "zero", "one"])
        if kind == "priv":
            return PrivVal(v), v
        if kind == "pub":
            return PubVal(v), v
        if kind == "const":
            return ConstVal(v), v
        if kind == "lin":
            u, w = rnd.randrange(p), rnd.randrange(1, 50)
            return PrivVal(u) * w + PubVal(v - u * w - 11) + 11, v
        if kind == "bool":
            return PrivValBool(v & 1), v & 1
        if kind == "pubbool":
            return PubValBool(v & 1), v & 1
        if kind == "fxp":
            x = PrivValFxp((v % 4096) / 8.0)
            return x, x.lc.value
        if kind == "zero":
            return LinComb.ZERO, 0
        if kind == "one":
            return LinComb.ONE, 1
        raise ValueError(kind)

    def hash_case(values, kind, shapes=None):
        ops = [make(kind, v) for v in values]
        msg = [o for o, _ in ops]
        expect = ref_hash([v % p for _, v in ops], P)
        tr = Trace(lambda: ph.poseidon_hash(msg))
        outs = tr.out
        check(isinstance(outs, list) and len(outs) == P.t - 1 and all(type(o) is LinComb for o in outs))
        check([o.value % p for o in outs] == expect, "traced digest differs from the reference", len(values), kind)
        check(all(0 <= o.value < p for o in outs))
        blocks = len(values) // (P.t - 1) + 1
        check(tr.count == blocks * perm_cost, "constraint count", tr.count, blocks * perm_cost)
        if recording:
            check([ev(o.lc) for o in outs] == expect, "digest wires differ from the reference")
            tr.check_witness()
            check(tr.resolve(outs) == expect, "circuit re-solved from its constraints differs from the reference")
            if shapes is not None and kind == "priv":
                tr.w0 -= len(values)            # count the message wires from the first one
                s = tr.shape()
                tr.w0 += len(values)
                check(shapes.setdefault(len(values), s) == s, "constraint shape depends on the values")
        return tr

    # ---- clause: published test vectors (traced code and reference)
    if expected in VECTORS:
        check(ref_permute([0, 1, 2, 3, 4], P) == VECTORS[expected], "reference does not reproduce the vector")
        for mk in (PrivVal, PubVal, ConstVal):
            tr = Trace(lambda: ph.permute([mk(i) for i in range(5)]))
            check([o.value for o in tr.out] == VECTORS[expected], "published vector not reproduced")
            check(tr.count == perm_cost)
            if recording:
                check([ev(o.lc) for o in tr.out] == VECTORS[expected])
                tr.check_witness()

    # ---- clause: permutation equals the reference on arbitrary states, constant cost
    nperm = 6 if level == "full" else 2
    for _ in range(nperm):
        vals = field_values(P.t)
        state = [make(rnd.choice(["priv", "pub", "const", "lin"]), v)[0] for v in vals]
        before = [(x.value, x.lc) for x in state]
        tr = Trace(lambda: ph.permute(list(state)))
        expect = ref_permute(vals, P)
        check([o.value % p for o in tr.out] == expect, "permutation differs from the reference")
        check(tr.count == perm_cost)
        check(all(x.value == b[0] and x.lc is b[1] for x, b in zip(state, before)), "operands were modified")
        if recording:
            check([ev(o.lc) for o in tr.out] == expect)
            tr.check_witness()
            check(tr.resolve(tr.out) == expect)

    # ---- clause: sponge equals the reference for 0..13 elements, all operand kinds; cost and shape
    #      do not depend on the values
    shapes = {}
    if level == "full":
        plan = [(n, kind) for n in range(0, 14) for kind in ("priv", "priv", "mixed")]
        plan += [(n, kind) for n in (0, 1, 3, 4, 5, 8) for kind in ("pub", "const", "lin", "bool", "fxp")]
    else:
        plan = [(n, "priv") for n in (0, 1, 4, 9)] + [(5, "mixed")]
    for n, kind in plan:
        hash_case(field_values(n), kind, shapes)
    for n in (1, 4, 6):      # extreme assignments of one length against each other
        for vals in ([0] * n, [p - 1] * n, [1] * n):
            hash_case(vals, "priv", shapes)

    # ---- clause: invalid messages are refused as before (nothing silently hashed)
    for bad in ([PrivVal(1), 2], (PrivVal(1),), [None], [1.5], "ab", None):
        n0 = runtime.num_constraints
        try:
            ph.poseidon_hash(bad)
        except RuntimeError:
            pass
        else:
            raise AssertionError("invalid message accepted: %r" % (bad,))
        check(runtime.num_constraints == n0)

    # ---- clause: padding - messages of different length never share a padded form
    absorbed = []
    real_permute = ph.permute

    def recording_permute(sponge):
        check(len(sponge) == P.t and sponge[0].value == 0)
        absorbed.append([x.value % p for x in sponge[1:]])
        return [LinComb.ZERO] * P.t          # so that the next call shows the next block alone
    ph.permute = recording_permute
    try:
        forms = {}
        for n in range(0, 14):
            patterns = [[0] * n, [1] * n, [0] * (n - 1) + [1] if n else [], [1] + [0] * (n - 1) if n else [],
                        [0] * (n - 2) + [1, 0] if n > 1 else [0] * n, [p - 1] * n,
                        [rnd.randrange(p) for _ in range(n)], [rnd.choice([0, 1]) for _ in range(n)]]
            for pat in patterns:
                del absorbed[:]
                ph.poseidon_hash([PrivVal(v) for v in pat])
                padded = [v for block in absorbed for v in block]
                check(len(padded) % (P.t - 1) == 0 and len(padded) == (n // (P.t - 1) + 1) * (P.t - 1))
                check(padded == ref_pad(pat, P), "padded form")
                # the padded form can be decoded: strip zeros, then the single one
                q = list(padded)
                while q[-1] == 0:
                    q.pop()
                check(q.pop() == 1 and q == [v % p for v in pat], "padding is not invertible")
                key = tuple(padded)
                check(forms.setdefault(key, tuple(pat)) == tuple(pat), "two messages share a padded form", pat)
        check(len(set(len(m) for m in forms.values())) == 14)
    finally:
        ph.permute = real_permute
    # and the digests of the classical near-collisions differ
    near = [[], [0], [1], [0, 0], [1, 0], [0, 1], [0, 0, 0], [1, 0, 0], [0, 0, 0, 0], [1, 0, 0, 0], [0, 0, 0, 0, 1],
            [0, 0, 0, 0, 1, 0]]
    digests = [tuple(ref_hash(m, P)) for m in near]
    if expected != "nobackend":      # the toy field of nobackend has 10^4 elements and an all-ones matrix
        check(len(set(digests)) == len(near), "padding collision")
    for m in near[:6] if level == "full" else near[:2]:
        outs = ph.poseidon_hash([PrivVal(v) for v in m])
        check(tuple(o.value % p for o in outs) == tuple(ref_hash(m, P)))

    # ---- clause: guards, lazy branches, ignore_errors - same digest, same cost, witness satisfies all
    def guarded_case(c, m1, m2, nested):
        cond = PrivValBool(c)
        inner = PrivValBool(1 - c)

        def left():
            if nested:
                return if_then_else(inner, lambda: ph.poseidon_hash([PrivVal(v) for v in m2]),
                                    lambda: ph.poseidon_hash([PrivVal(v) for v in m1]))
            return ph.poseidon_hash([PrivVal(v) for v in m1])

        def right():
            return ph.poseidon_hash([PrivVal(v) for v in m2])
        tr = Trace(lambda: if_then_else(cond, left, right))
        expect = ref_hash([v % p for v in (m1 if c else m2)], P)
        check([o.value % p for o in tr.out] == expect, "digest selected by a lazy branch")
        if recording:
            check([ev(o.lc) for o in tr.out] == expect)
            tr.check_witness()
        return tr.count

    for nested in ((False, True) if level == "full" else (False,)):
        m1, m2 = field_values(3), field_values(5)
        counts = set(guarded_case(c, m1, m2, nested) for c in (0, 1))
        check(len(counts) == 1, "cost depends on the guard value")
    m = field_values(6)
    runtime.ignore_errors(True)
    try:
        a_count = hash_case(m, "priv", shapes).count
    finally:
        runtime.ignore_errors(False)
    check(a_count == hash_case(m, "priv", shapes).count)

    # ---- soundness: a changed internal wire always violates a constraint
    if recording and level == "full":
        tr = hash_case(field_values(2), "priv")
        for k in rnd.sample(range(tr.w0 + 1, tr.w1 + 1), 12):
            assign = {-k: (store.privvals[k - 1] + rnd.randrange(1, p)) % p}
            check(any(ev(A, assign) * ev(B, assign) % p != ev(C, assign) for (A, B, C) in tr.cons),
                  "tampered witness accepted")

    # ---- soundness of the S-box gadget by brute force over ALL witnesses in tiny fields
    if recording and level == "full":
        sbox = getattr(ph, "sbox", None)
        saved_a, saved_p = ph.a, p
        try:
            for q, exps in ((13, (3, 5)), (7, (1, 2, 3, 4, 5, 6, 7, 9, 11, 12))):
                store.set_modulus(q)
                for e in exps:
                    ph.a = e
                    for x in range(q):
                        for form in ("wire", "lin"):
                            xin = PrivVal(x) if form == "wire" else PrivVal((x - 3) % q) * 1 + 3
                            c0, w0 = len(store.constraints), len(store.privvals)
                            y = sbox(xin) if sbox else xin ** e
                            cons = store.constraints[c0:]
                            new = [-(k + 1) for k in range(w0, len(store.privvals))]
                            if sbox:
                                check(len(cons) == (e.bit_length() + bin(e).count("1") - 2 if e else 0))
                            check(y.value % q == pow(x, e, q))
                            if len(new) > 5:
                                continue
                            sols = 0
                            for cand in itertools.product(range(q), repeat=len(new)):
                                assign = dict(zip(new, cand))
                                if all(evq(A, assign, q) * evq(B, assign, q) % q == evq(C, assign, q)
                                       for (A, B, C) in cons):
                                    sols += 1
                                    check(evq(y.lc, assign, q) == pow(x, e, q), "S-box constraints admit a wrong output")
                            check(sols == 1, "S-box witness not unique / not satisfiable")
        finally:
            ph.a = saved_a
            store.set_modulus(saved_p)
        check(backend.get_modulus() == p)
        hash_case(field_values(3), "priv", shapes)      # everything is back in place

    # ---- subset-sum hash: traced == plain == own reference, no constraints
    for n in (0, 1, 7, 40) if level == "full" else (0, 5):
        bits = [rnd.randrange(2) for _ in range(n)]
        want = ref_ggh(bits, p)
        check(ggh.ggh_hash(bits) == want and ggh.ggh_hash_plain(bits) == want)
        if n:
            for mk in (PrivVal, PubVal):
                tr = Trace(lambda: ggh.ggh_hash([mk(b) for b in bits]))
                check(isinstance(tr.out, LinComb) and tr.out.value % p == want and tr.count == 0)
                if recording:
                    check(ev(tr.out.lc) == want)

    print("ok  %-16s %-9s %-5s S-box %d constraints, permutation %d" % (expected, how, level, sbox_cost, perm_cost))


# ----------------------------------------------------------------------------------------
# driver
# ----------------------------------------------------------------------------------------

def driver():
    me = os.path.abspath(__file__)
    procs = []
    failed = 0
    workdirs = []
    try:
        for expected, how, level in SCENARIOS:
            env = dict(os.environ)
            env.pop("PYSNARK_BACKEND", None)
            if how == "env":
                env["PYSNARK_BACKEND"] = expected
            wd = tempfile.mkdtemp(prefix="c20check")
            workdirs.append(wd)
            procs.append(((expected, how, level), subprocess.Popen(
                [sys.executable, me, "--child", expected, how, level], cwd=wd, env=env,
                stdout=subprocess.PIPE, stderr=subprocess.STDOUT, universal_newlines=True)))
            while sum(1 for _, pr in procs if pr.poll() is None) >= 4:
                time.sleep(0.1)
        for scen, pr in procs:
            out, _ = pr.communicate()
            lines = [l for l in out.splitlines() if not l.startswith("*** Error loading backend")]
            if pr.returncode != 0:
                failed += 1
                print("FAILED %s %s %s (exit %d)" % (scen + (pr.returncode,)))
                print("\n".join("    " + l for l in lines[-25:]))
            else:
                print("\n".join(l for l in lines if l.startswith("ok ")))
    finally:
        for wd in workdirs:
            shutil.rmtree(wd, ignore_errors=True)
    if failed:
        print("%d scenario(s) failed" % failed)
        sys.exit(1)
    print("C20 held in all %d scenarios" % len(SCENARIOS))


if __name__ == "__main__":
    if len(sys.argv) > 1 and sys.argv[1] == "--child":
        child(*sys.argv[2:5])
    else:
        driver()
