# Evidence program for change P (nested guards are combined by one multiplication;
# add_guard / guarded accept LinCombBool conditions).
#
# Property checked (C01): whenever a traced computation finishes without raising,
# the recorded public/private assignment satisfies EVERY emitted rank-1 constraint
# modulo the backend's field prime.
#
# run as:  PYTHONPATH=<tree> /venv/bin/python P.check.py      (from an empty directory)

import os, sys, itertools, tempfile, warnings
os.environ["PYSNARK_BACKEND"] = "snarkjs"
warnings.simplefilter("ignore")

import pysnark.runtime as rt
rt.autoprove = False
import pysnark.snarkjsbackend as be
from pysnark.runtime import PrivVal, PubVal, LinComb, guarded, add_guard, restore_guard
from pysnark.boolean import PrivValBool, LinCombBool
from pysnark.fixedpoint import PrivValFxp, LinCombFxp
from pysnark.branching import (if_then_else, BranchingValues, _if, _endif,
                               _while, _endwhile, _breakif, _range, _endfor)
from pysnark.array import Array

ORIG_P = be.snarkjsp
failures = []
stats = {"programs": 0, "completed": 0, "raised": 0, "constraints": 0, "valuechecks": 0, "contexts": 0}

# ---------------------------------------------------------------- infrastructure

def reset():
    be.constraints.clear(); be.privvals.clear(); be.pubvals.clear()
    rt.guard = None
    rt._ignore_errors = False
    LinComb.ONE = LinComb.ONE_SAFE

def wire(k):
    if k == 0: return 1
    return be.pubvals[k-1] if k > 0 else be.privvals[-k-1]

def ev(lc, p):
    return sum(c * wire(k) for (k, c) in lc.lc.items()) % p

def violated(p):
    bad = []
    for (i, (a, b, c)) in enumerate(be.constraints):
        if (ev(a, p) * ev(b, p) - ev(c, p)) % p != 0:
            bad.append((i, ev(a, p), ev(b, p), ev(c, p)))
    return bad

def state_is_clean():
    return rt.guard is None and rt._ignore_errors is False and LinComb.ONE is LinComb.ONE_SAFE

def lcval(r):
    """ integer carried by a result of any of the library's types """
    if isinstance(r, (LinCombBool, LinCombFxp)): r = r.lc
    return r.value if isinstance(r, LinComb) else r

def lcwire(r):
    if isinstance(r, (LinCombBool, LinCombFxp)): r = r.lc
    return r

def run(name, prog, expected=None):
    """ trace prog(); a raise makes the property vacuous; otherwise every constraint must hold,
        the guard state must have been restored, the value of the result must be the value its
        wire carries, and (when given) equal plain Python's result """
    p = be.get_modulus()
    reset()
    stats["programs"] += 1
    try:
        res = prog()
    except (ValueError, AssertionError, IndexError, RuntimeError, ZeroDivisionError, TypeError):
        stats["raised"] += 1
        reset()
        return None
    stats["completed"] += 1
    stats["constraints"] += len(be.constraints)
    bad = violated(p)
    if bad:
        failures.append("%s: %d of %d constraints not satisfied by the recorded witness, first: #%d  %d * %d != %d (mod p)"
                        % ((name, len(bad), len(be.constraints)) + bad[0]))
    if not state_is_clean():
        failures.append("%s: guard state not restored (guard=%s ignore=%s)" % (name, rt.guard, rt._ignore_errors))
    if isinstance(res, (LinComb, LinCombBool, LinCombFxp)):
        if (ev(lcwire(res).lc, p) - lcval(res)) % p != 0:
            failures.append("%s: result reports %d but its wire carries %d" % (name, lcval(res), ev(lcwire(res).lc, p)))
        if expected is not None:
            try:
                want = expected()
            except Exception:
                want = None
            if want is not None:
                stats["valuechecks"] += 1
                if (lcval(res) - want) % p != 0:
                    failures.append("%s: result %d, plain Python gives %d" % (name, lcval(res), want))
    return res

# does this tree accept LinCombBool guards (it does with P; the unchanged tree wants the .lc)
def boolguards_supported():
    reset()
    try:
        restore_guard(add_guard(PrivValBool(1)))
        return True
    except TypeError:
        return False
    finally:
        reset()

# ---------------------------------------------------------------- operations used as branch bodies
# (traced function, plain-Python function); both may raise on bad inputs

class PyErr(Exception): pass

def need(c):
    if not c: raise PyErr()

def py_bits(v, n):
    need(0 <= v < (1 << n)); return v

def B(): return rt.bitlength

OPS = [
    ("mul",      lambda x, y: x * y + 3,                       lambda x, y: x * y + 3),
    ("exactdiv", lambda x, y: x / y,                           lambda x, y: (need(y != 0 and x % y == 0), x // y)[1]),
    ("divconst", lambda x, y: x / 3,                           lambda x, y: (need(x % 3 == 0), x // 3)[1]),
    ("floordiv", lambda x, y: x // y,                          lambda x, y: (need(y > 0 and 0 <= x and y < (1 << B()) and x < (1<<B())), x // y)[1]),
    ("mod",      lambda x, y: x % y,                           lambda x, y: (need(y > 0 and 0 <= x and y < (1 << B()) and x < (1<<B())), x % y)[1]),
    ("lt",       lambda x, y: (x < y) + 0,                     lambda x, y: (need(abs(y - x - 1) < (1 << B())), int(x < y))[1]),
    ("ge",       lambda x, y: (x >= y) + 0,                    lambda x, y: (need(abs(x - y) < (1 << B())), int(x >= y))[1]),
    ("eq",       lambda x, y: (x == y) + 0,                    lambda x, y: int(x == y)),
    ("ne",       lambda x, y: (x != y) + 0,                    lambda x, y: int(x != y)),
    ("tobits",   lambda x, y: sum(x.to_bits(4)) + 0,           lambda x, y: bin(py_bits(x, 4)).count("1")),
    ("asserts",  lambda x, y: (x.assert_lt(y), x.assert_range(0, 8), y.assert_nonzero(), (x - x).assert_zero(), x + 1)[-1],
                                                               lambda x, y: (need(x < y and 0 <= x < 8 and y - x - 1 < (1 << B())), x + 1)[1]),
    ("asserteq", lambda x, y: (x.assert_eq(y), x.assert_ne(y + 1), x.assert_ge(y), x.assert_le(y), x)[-1],
                                                               lambda x, y: (need(x == y), x)[1]),
    ("and",      lambda x, y: x & y,                           lambda x, y: py_bits(x, B()) & py_bits(y, B())),
    ("or",       lambda x, y: x | y,                           lambda x, y: py_bits(x, B()) | py_bits(y, B())),
    ("xor",      lambda x, y: x ^ y,                           lambda x, y: py_bits(x, B()) ^ py_bits(y, B())),
    ("shifts",   lambda x, y: (x >> 1) + (y << 2),             lambda x, y: (py_bits(x, B()) >> 1) + (y << 2)),
    ("abs",      lambda x, y: abs(x - y),                      lambda x, y: (need(abs(x - y) < (1 << B())), abs(x - y))[1]),
    ("pow3",     lambda x, y: x ** 3,                          lambda x, y: x ** 3),
    ("invert",   lambda x, y: ~x,                              lambda x, y: (1 << B()) - 1 - py_bits(x, B())),
    ("boolops",  lambda x, y: ((LinCombBool(x) & (y == 2)) | ~LinCombBool(x)) + 0,
                                                               lambda x, y: (need(x in (0, 1)), int((x and y == 2) or not x))[1]),
    ("arrayget", lambda x, y: Array([PrivVal(10), PrivVal(20), PrivVal(30)])[x] + y,
                                                               lambda x, y: (need(0 <= x < 3), [10, 20, 30][x] + y)[1]),
    ("arrayset", lambda x, y: _arrayset(x, y),                 lambda x, y: (need(0 <= x < 3), sum(v if i != x else y for (i, v) in enumerate([1, 2, 3])))[1]),
    ("fxp",      lambda x, y: (LinCombFxp(x) * PrivValFxp(1.5) + LinCombFxp(y) / PrivValFxp(0.5)).lc,
                                                               None),
    ("powlc",    lambda x, y: PrivVal(3) ** x,                 lambda x, y: 3 ** py_bits(x, B())),
]

def _arrayset(x, y):
    a = Array([PrivVal(1), PrivVal(2), PrivVal(3)])
    a[x] = y
    return sum(a.arr)

def pyop(op, xv, yv):
    if op[2] is None: raise PyErr()
    return op[2](xv, yv)

VALUES8 = [-3, 0, 1, 2, 5, 7, 255, 256, 300]

# ---------------------------------------------------------------- the program families

def nested_if(opa, opb, opc, xv, yv, c1v, c2v, boolguard):
    """ if c1: opa(x,y) + (if c2: opb else: opc) else: 7      with function-valued branches,
        c1, c2 results of comparisons; records guard value / error state seen inside """
    seen = []
    def prog():
        x = PrivVal(xv); y = PrivVal(yv)
        c1 = PrivVal(c1v) == 1
        c2 = PrivVal(c2v) == 1
        def inner_t():
            seen.append(("tt", rt.guard.value, rt.ignore_errors(), LinComb.ONE.value))
            return opb[1](x, y)
        def inner_f():
            seen.append(("tf", rt.guard.value, rt.ignore_errors(), LinComb.ONE.value))
            return opc[1](x, y)
        def outer_t():
            seen.append(("t", rt.guard.value, rt.ignore_errors(), LinComb.ONE.value))
            return opa[1](x, y) + if_then_else(c2, inner_t, inner_f)
        return if_then_else(c1, outer_t, lambda: LinComb.ONE * 7)
    def expected():
        if not c1v: return 7
        return pyop(opa, xv, yv) + (pyop(opb, xv, yv) if c2v else pyop(opc, xv, yv))
    name = "nested_if[%s,%s,%s](x=%d,y=%d,c1=%d,c2=%d)" % (opa[0], opb[0], opc[0], xv, yv, c1v, c2v)
    res = run(name, prog, expected)
    if res is not None:
        want = {"t": c1v, "tt": c1v & c2v, "tf": c1v & (1 - c2v)}
        for (tag, g, ign, one) in seen:
            if g != want[tag] or ign != (g == 0) or one != g:
                failures.append("%s: inside branch %s guard=%d ignore_errors=%s ONE=%d, expected guard %d"
                                % (name, tag, g, ign, one, want[tag]))

def three_deep(op, xv, yv, cs, kinds):
    """ three nested guarded regions entered through the decorator, with LinComb / LinCombBool /
        public-one conditions; the body runs in the innermost region """
    def mk(cv, kind):
        if kind == "lc": return PrivVal(cv)
        if kind == "bool": return PrivValBool(cv)
        if kind == "cmp": return (PrivVal(cv) != 0)
        if kind == "not": return ~PrivValBool(1 - cv)
        if kind == "one": return LinComb.ONE
        if kind == "int": return 1
    out = []
    def prog():
        x = PrivVal(xv); y = PrivVal(yv)
        conds = [mk(c, k) for (c, k) in zip(cs, kinds)]
        if not BOOLGUARDS: conds = [c.lc if isinstance(c, LinCombBool) else c for c in conds]
        @guarded(conds[0])
        def l1():
            @guarded(conds[1])
            def l2():
                @guarded(conds[2])
                def l3():
                    g = 1 if rt.guard is None else rt.guard.value
                    out.append((g, rt.ignore_errors()))
                    return op[1](x, y)
                return l3()
            return l2()
        return l1()
    effective = [1 if k in ("one", "int") else c for (c, k) in zip(cs, kinds)]
    name = "three_deep[%s](x=%d,y=%d,conds=%s,kinds=%s)" % (op[0], xv, yv, cs, kinds)
    res = run(name, prog, (lambda: pyop(op, xv, yv)) if all(effective) else None)
    if res is not None and out:
        (g, ign) = out[0]
        if g != min(effective) or ign != (g == 0):
            failures.append("%s: innermost guard=%d ignore_errors=%s, expected guard %d" % (name, g, ign, min(effective)))

def contexts(xv, nv):
    """ the context-manager style API on comparison results: _if without else, _while, _range """
    def prog():
        _ = BranchingValues()
        try:
            return body(_)
        except Exception:
            _.stack.clear()                 # a raise inside an open region: nothing left to close
            raise
    def body(_):
        x = PrivVal(xv)
        _.acc = PrivVal(0)
        _.i = PrivVal(0)
        c = (x < 5) if BOOLGUARDS else (x < 5).lc
        if _if(c):
            _.acc = _.acc + x * x
            d = (x != 2) if BOOLGUARDS else (x != 2).lc
            if _if(d):
                _.acc = _.acc + 100 / (x - 2)       # exact division, only well defined when taken
            _endif()
        _endif()
        w = (_.i != nv) if BOOLGUARDS else None
        if w is not None:
            n = 0
            while _while((_.i != nv)) and n < 4:
                _.i = _.i + 1
                _.acc = _.acc + 1
                n += 1
            _endwhile()
        return _.acc
    def expected():
        acc = 0
        if xv < 5:
            acc += xv * xv
            if xv != 2:
                need(100 % (xv - 2) == 0); acc += 100 // (xv - 2)
        if BOOLGUARDS:
            i = 0; n = 0
            while i != nv and n < 4: i += 1; acc += 1; n += 1
        return acc
    if run("contexts(x=%d,n=%d)" % (xv, nv), prog, expected) is not None: stats["contexts"] += 1

def nested_guard_cost():
    """ observable effect of P: an inner guard costs one constraint, whatever the bitlength """
    costs = {}
    for bl in (8, 16, 24):
        rt.bitlength = bl
        reset()
        bak1 = add_guard(PrivVal(1))
        before = len(be.constraints)
        bak2 = add_guard(PrivVal(1))
        costs[bl] = len(be.constraints) - before
        restore_guard(bak2); restore_guard(bak1)
        if violated(be.get_modulus()): failures.append("nested_guard_cost: constraints violated")
    reset()
    return costs

def decode_files():
    """ write witness.wtns / circuit.r1cs for one composite program and re-check the constraints
        from the decoded bytes """
    p = be.get_modulus()
    reset()
    x = PrivVal(6); y = PrivVal(3); out = PubVal(0)
    r = if_then_else(x < 5, lambda: x / y + if_then_else(y == 3, lambda: x.to_bits(2)[0] + 0, lambda: y // x),
                            lambda: x % y + if_then_else(y == 4, lambda: (x / 5) + Array([x, y])[x], lambda: abs(y - x)))
    (r - out - r.value).assert_zero()
    if violated(p): failures.append("decode_files: in-memory constraints violated")
    cwd = os.getcwd()
    with tempfile.TemporaryDirectory() as d:
        os.chdir(d)
        try:
            be.prove()
            w = open("witness.wtns", "rb").read()
            c = open("circuit.r1cs", "rb").read()
        finally:
            os.chdir(cwd)
    rd = lambda buf, off, n: int.from_bytes(buf[off:off+n], "little")
    assert w[:4] == b"wtns" and c[:4] == b"r1cs"
    wp = rd(w, 28, 32); nw = rd(w, 60, 4)
    wit = [rd(w, 76 + 32*i, 32) for i in range(nw)]
    cp = rd(c, 28, 32); ncons = rd(c, 84, 4)
    if wp != p or cp != p: failures.append("decode_files: prime in files differs from backend modulus")
    off = 100
    nbad = 0
    for _ in range(ncons):
        vals = []
        for _lc in range(3):
            n = rd(c, off, 4); off += 4
            acc = 0
            for _t in range(n):
                ix = rd(c, off, 4); co = rd(c, off+4, 32); off += 36
                acc += co * wit[ix]
            vals.append(acc % p)
        if (vals[0] * vals[1] - vals[2]) % p: nbad += 1
    if ncons != len(be.constraints): failures.append("decode_files: constraint count mismatch")
    if nbad: failures.append("decode_files: %d constraints of the written r1cs not satisfied by the written witness" % nbad)
    stats["constraints"] += ncons
    reset()

# ---------------------------------------------------------------- main

BOOLGUARDS = boolguards_supported()
print("LinCombBool guards accepted by this tree:", BOOLGUARDS)
print("constraints for a guard nested in a guard, by bitlength:", nested_guard_cost())

for prime in (ORIG_P, (1 << 61) - 1):
    be.snarkjsp = prime
    for bl in (8, 12):
        rt.bitlength = bl
        # two-level function-valued branches: every op in the outer branch, a rotating pair inside
        for (i, opa) in enumerate(OPS):
            opb = OPS[(i + 5) % len(OPS)]; opc = OPS[(i + 11) % len(OPS)]
            vals = VALUES8 if bl == 8 else [-3, 0, 2, 7, 4095, 4096]
            if opa[0] == "powlc" or opb[0] == "powlc" or opc[0] == "powlc": vals = [0, 2, 5, 300]
            for (xv, yv) in itertools.product(vals, repeat=2):
                for (c1v, c2v) in itertools.product((0, 1), repeat=2):
                    nested_if(opa, opb, opc, xv, yv, c1v, c2v, BOOLGUARDS)
        if bl == 8:
            # three-level decorator guards, all condition values, mixed condition types
            kindsets = [("lc", "lc", "lc"), ("bool", "cmp", "not"), ("cmp", "one", "lc"), ("int", "bool", "one"), ("not", "lc", "cmp")]
            for op in OPS:
                if op[0] == "powlc": continue
                for kinds in kindsets:
                    for cs in itertools.product((0, 1), repeat=3):
                        for (xv, yv) in [(6, 3), (2, 0), (-3, 5), (300, 7), (1, 1), (0, 2)]:
                            three_deep(op, xv, yv, cs, kinds)
            for xv in (-3, 0, 1, 2, 3, 4, 5, 7, 12, 102):
                for nv in (0, 2, 9):
                    contexts(xv, nv)
    decode_files()
be.snarkjsp = ORIG_P

# non-boolean guard values must still be rejected when errors are checked, and be harmless inside
# an untaken region (the combined guard stays 0)
reset()
try:
    add_guard(PrivVal(2)); failures.append("guard value 2 accepted");
except RuntimeError: pass
reset()
def garbage_inner():
    x = PrivVal(9)
    @guarded(PrivVal(0))
    def outer():
        @guarded(x - 2)                    # value 7 inside an untaken region
        def inner():
            if rt.guard.value != 0: failures.append("guard inside untaken region is %d" % rt.guard.value)
            return x / 4 + (x < 3) + 0
        return inner()
    return outer()
run("garbage_inner", garbage_inner)

print("programs: %(programs)d  completed: %(completed)d  raised (property vacuous): %(raised)d  "
      "constraints evaluated: %(constraints)d  results compared with plain Python: %(valuechecks)d  completed context-manager programs: %(contexts)d" % stats)
if stats["completed"] < 1000 or stats["valuechecks"] < 500:
    failures.append("too few completed programs - the check is not exercising the code")
if failures:
    print("PROPERTY C01 VIOLATED / unexpected behaviour in %d cases:" % len(failures))
    for f in failures[:25]: print("  ", f)
    sys.exit(1)
print("OK: every emitted constraint is satisfied by the recorded witness in all completed programs")
sys.exit(0)
