# Evidence program for change P (abs() built from the sign/magnitude split of the sign test).
#
# run as:  PYTHONPATH=<tree> /venv/bin/python P.check.py      (from an empty directory; writes nothing)
#
# What is checked is property C02 itself, on the code paths P touches (abs of LinComb / LinCombFxp /
# LinCombBool, check_positive and the order comparisons that share the split):
#
#  A. real field (BN254 scalar field of the snarkjs backend), bitlength 16, honest prover:
#     every emitted constraint holds on the recorded witness, the result wire carries |x| (resp. the
#     comparison outcome), the Python-level value agrees; plain, inside lazy if_then_else branches
#     (active / inactive / nested), with ignore_errors, negative and out-of-range operands.
#  B. adversarial prover, exhaustively: the traced constraint systems are interpreted over small prime
#     fields F_q (the gadget only needs 2^(bitlength+1) <= q, so bitlength is lowered accordingly) and ALL
#     q^k assignments of ALL auxiliary witness wires are enumerated (depth first, pruning on violated
#     constraints).  For every operand value in F_q the set of results reachable by satisfying
#     assignments must be exactly {honest result} (operand in range) or empty (operand out of range);
#     boolean-typed results must be in {0,1}.
#  C. the circuit does not depend on operand values / ignore_errors (same constraint structure).
#
# exit status 0 iff the property held in every case.

import os, sys, random
os.environ["PYSNARK_BACKEND"] = "snarkjs"

import pysnark.runtime as rt
rt.autoprove = False
import pysnark.snarkjsbackend as be
import pysnark.fixedpoint as fx
from pysnark.runtime import PrivVal, PubVal, ConstVal, LinComb, ignore_errors
from pysnark.boolean import PrivValBool, LinCombBool
from pysnark.fixedpoint import PrivValFxp, LinCombFxp
from pysnark.branching import if_then_else

P = be.snarkjsp
failures = []
stats = {"honest": 0, "constraints": 0, "exhaustive_inputs": 0, "assignments": 0}

def fail(msg):
    failures.append(msg)
    print("PROPERTY VIOLATED:", msg)

# ---------------------------------------------------------------- tracing

def blc(obj):
    """backend linear combination of a LinComb / LinCombBool / LinCombFxp"""
    while not isinstance(obj, be.LinearCombination):
        obj = obj.lc
    return obj

def wire_of(obj):
    lc = blc(obj).lc
    assert len(lc) == 1 and list(lc.values()) == [1], "input is not a single wire"
    return list(lc.keys())[0]

class Trace:
    def __enter__(self):
        self.c0, self.p0, self.u0 = len(be.constraints), len(be.privvals), len(be.pubvals)
        return self
    def __exit__(self, *exc):
        self.cons = be.constraints[self.c0:]
        self.priv = [-(k + 1) for k in range(self.p0, len(be.privvals))]   # wire ids, allocation order
        self.pub = [k + 1 for k in range(self.u0, len(be.pubvals))]
        return False

def honest(idx):
    if idx == 0: return 1
    return be.pubvals[idx - 1] if idx > 0 else be.privvals[-idx - 1]

def ev_honest(lc):
    return sum(c * honest(k) for k, c in lc.lc.items()) % P

def check_honest(tr, what):
    for n, (a, b, c) in enumerate(tr.cons):
        stats["constraints"] += 1
        if (ev_honest(a) * ev_honest(b) - ev_honest(c)) % P != 0:
            fail("%s: constraint #%d of the operation does not hold on the honest witness" % (what, n))
            return False
    return True

def structure(tr):
    """constraint system with wires renamed relative to the trace (value independent part)"""
    ren = {0: "one"}
    for i, w in enumerate(tr.priv): ren[w] = "p%d" % i
    for i, w in enumerate(tr.pub): ren[w] = "u%d" % i
    def part(lc):
        return tuple(sorted((ren[k], c % P) for k, c in lc.lc.items() if c % P != 0))
    return tuple((part(a), part(b), part(c)) for a, b, c in tr.cons)

# ---------------------------------------------------------------- A. honest prover, real field

def py_abs_cases():
    xs = [-65535, -65534, -32769, -32768, -32767, -257, -256, -255, -2, -1, 0, 1, 2, 3, 255, 256, 257,
          32767, 32768, 32769, 65534, 65535]
    rnd = random.Random(20261004)
    xs += [rnd.randrange(-65535, 65536) for _ in range(200)]
    return xs

def honest_abs(name, make, x, expect):
    """make() builds operand and returns result object of abs()"""
    with Trace() as tr:
        res = make()
    stats["honest"] += 1
    ok = check_honest(tr, "%s x=%s" % (name, x))
    got_wire = ev_honest(blc(res))
    if got_wire != expect % P:
        fail("%s x=%s: result wire carries %d, expected %d" % (name, x, got_wire, expect % P))
    pyval = res.lc.value if not isinstance(res.lc, be.LinearCombination) else res.value
    if pyval != expect:
        fail("%s x=%s: value attribute is %s, expected %s" % (name, x, pyval, expect))
    return tr

def part_A():
    rt.bitlength = 16
    fx.resolution = 8
    for x in py_abs_cases():
        honest_abs("abs(PrivVal)", lambda: abs(PrivVal(x)), x, abs(x))
        honest_abs("abs(PubVal)", lambda: abs(PubVal(x)), x, abs(x))
        honest_abs("abs(3*a-b+7)", lambda: abs(3 * PrivVal(x) - PubVal(2 * x + 7) + 7), x, abs(x))
        honest_abs("abs(ConstVal)", lambda: abs(ConstVal(x)), x, abs(x))
        honest_abs("abs(LinCombFxp raw)", lambda: abs(LinCombFxp(PrivVal(x), False)), x, abs(x))
        # comparisons go through the same split
        for y in (0, 1, -1, x, x + 1, x - 1, 17):
            if not -65535 <= y - x - 1 < 65535 or not -65535 <= x - y - 1 < 65535: continue
            for opn, op, pyop in (("<", lambda a, b: a < b, x < y), ("<=", lambda a, b: a <= b, x <= y),
                                  (">", lambda a, b: a > b, x > y), (">=", lambda a, b: a >= b, x >= y)):
                with Trace() as tr:
                    r = op(PrivVal(x), PrivVal(y))
                stats["honest"] += 1
                check_honest(tr, "%d %s %d" % (x, opn, y))
                if not isinstance(r, LinCombBool):
                    fail("%d %s %d is not typed boolean" % (x, opn, y))
                if ev_honest(blc(r)) != int(pyop):
                    fail("%d %s %d: result wire carries %d" % (x, opn, y, ev_honest(blc(r))))
    for f in (-100.5, -3.75, -1.0, -0.00390625, 0.0, 0.00390625, 2.5, 99.25, 127.99609375):
        honest_abs("abs(PrivValFxp)", lambda: abs(PrivValFxp(f)), f, int(abs(f) * 256))
        honest_abs("abs(-PrivValFxp)", lambda: abs(-PrivValFxp(f)), f, int(abs(f) * 256))
    for b in (0, 1):
        honest_abs("abs(PrivValBool)", lambda: abs(PrivValBool(b)), b, b)

    # out of range: refused (as before the change), nothing half-emitted that a later proof could rely on
    for x in (65536, 65537, -65537, 1 << 20, -(1 << 40)):
        try:
            abs(PrivVal(x))
            fail("abs(%d) with bitlength 16 did not raise" % x)
        except ValueError:
            pass

    # lazy branches: active, inactive (also with operands that are out of range there), nested
    for c in (0, 1):
        for x, y in ((5, -7), (-5, 7), (0, 0), (-65535, 65535), (70000, -3), (-3, -70000), (1 << 30, -(1 << 30))):
            # the branch that is not taken may see garbage; the taken one must be in range
            taken = x if c else y
            if not -65536 < taken < 65536: continue
            with Trace() as tr:
                cb = PrivValBool(c); xv = PrivVal(x); yv = PrivVal(y)
                r = if_then_else(cb, lambda: abs(xv), lambda: abs(yv) + 1)
            stats["honest"] += 1
            check_honest(tr, "if_then_else(%d, abs(%d), abs(%d)+1)" % (c, x, y))
            exp = abs(x) if c else abs(y) + 1
            if ev_honest(blc(r)) != exp % P or r.value != exp:
                fail("if_then_else(%d, abs(%d), abs(%d)+1) gives %s" % (c, x, y, r.value))
            if rt.guard is not None or ignore_errors():
                fail("guard state not restored")
    for c1 in (0, 1):
        for c2 in (0, 1):
            for x in (-9, 9, 0, -65534, 65534):
                with Trace() as tr:
                    b1 = PrivValBool(c1); b2 = PrivValBool(c2); xv = PrivVal(x)
                    r = if_then_else(b1, lambda: if_then_else(b2, lambda: abs(xv), lambda: abs(xv - 1)), lambda: abs(xv + 1) * 2)
                stats["honest"] += 1
                check_honest(tr, "nested c1=%d c2=%d x=%d" % (c1, c2, x))
                exp = (abs(x) if c2 else abs(x - 1)) if c1 else abs(x + 1) * 2
                if ev_honest(blc(r)) != exp % P:
                    fail("nested if_then_else c1=%d c2=%d x=%d gives wire %d, expected %d" % (c1, c2, x, ev_honest(blc(r)), exp))

    # ignore_errors: same circuit as the normal one, and the (unavoidably wrong) witness of an
    # out-of-range operand does NOT satisfy it -> no proof for a made-up absolute value
    with Trace() as tr_ok:
        abs(PrivVal(-12345))
    ignore_errors(True)
    try:
        with Trace() as tr_ie_ok:
            r = abs(PrivVal(-12345))
        if not check_honest(tr_ie_ok, "ignore_errors abs(-12345)") or ev_honest(blc(r)) != 12345:
            fail("abs(-12345) wrong under ignore_errors")
        for x in (65536, -65537, 1 << 33):
            with Trace() as tr_ie:
                r = abs(PrivVal(x))
            if structure(tr_ie) != structure(tr_ok):
                fail("circuit of abs() depends on ignore_errors / on the operand value")
            sat = all((ev_honest(a) * ev_honest(b) - ev_honest(c)) % P == 0 for a, b, c in tr_ie.cons)
            if sat:
                fail("ignore_errors: abs(%d) produced a satisfied constraint system (result wire %d)" % (x, ev_honest(blc(r))))
    finally:
        ignore_errors(False)
    if structure(tr_ie_ok) != structure(tr_ok):
        fail("circuit of abs() differs under ignore_errors")

# ---------------------------------------------------------------- B. every prover, small fields

def reduce_lc(lc, q):
    return [(k, c % q) for k, c in lc.lc.items() if c % q != 0]

def enum_results(cons, fixed, aux, q, outs):
    """Set of value tuples of the linear combinations `outs` over ALL assignments of the wires in
    `aux` (values in F_q) that satisfy all constraints, wires in `fixed` keeping their values."""
    pos = {w: i for i, w in enumerate(aux)}
    val = dict(fixed); val[0] = 1
    levels = [[] for _ in aux]
    def ev(part):
        return sum(c * val[k] for k, c in part) % q
    for (a, b, c) in cons:
        lv = -1
        for part in (a, b, c):
            for k, _ in part:
                if k in pos: lv = max(lv, pos[k])
                elif k not in val: raise KeyError("wire %d neither operand nor auxiliary" % k)
        if lv < 0:
            if (ev(a) * ev(b) - ev(c)) % q != 0: return set(), 0
        else:
            levels[lv].append((a, b, c))
    results = set(); nsol = [0]; n = len(aux)
    def rec(i):
        if i == n:
            nsol[0] += 1
            results.add(tuple(ev(o) for o in outs))
            return
        w = aux[i]
        for v in range(q):
            val[w] = v
            stats["assignments"] += 1
            for (a, b, c) in levels[i]:
                if (ev(a) * ev(b) - ev(c)) % q != 0: break
            else:
                rec(i + 1)
        del val[w]
    rec(0)
    return results, nsol[0]

def signed(v, q, bl):
    """integer in [-2^bl, 2^bl) represented by field element v, or None"""
    if v < (1 << bl): return v
    if v >= q - (1 << bl): return v - q
    return None

def exhaustive(name, q, bl, seed_vals, build, expected, domains, boolean=False):
    """build(vals) -> (operand objects, result object), traced with the honest values seed_vals.
    expected(vals in F_q) -> honest result (int), or None when no satisfying assignment may exist,
    or ("any", v): satisfiable and every satisfying assignment gives v."""
    rt.bitlength = bl
    assert (1 << (bl + 1)) <= q
    with Trace() as tr:
        ops, res = build(seed_vals)
    check_honest(tr, name + " (seed)")
    opw = [wire_of(o) for o in ops]
    aux = [w for w in tr.priv if w not in opw]
    assert not [w for w in tr.pub if w not in opw]
    cons = [(reduce_lc(a, q), reduce_lc(b, q), reduce_lc(c, q)) for a, b, c in tr.cons]
    out = reduce_lc(blc(res), q)
    def rec(i, cur):
        if i == len(domains):
            stats["exhaustive_inputs"] += 1
            results, nsol = enum_results(cons, dict(zip(opw, cur)), aux, q, [out])
            exp = expected(cur)
            got = sorted(r[0] for r in results)
            if exp is None:
                if got:
                    fail("%s over F_%d, operands %s: out of range, yet satisfiable with results %s" % (name, q, cur, got))
            else:
                if got != [exp % q]:
                    fail("%s over F_%d, operands %s: results reachable by satisfying assignments: %s, honest result: %d"
                         % (name, q, cur, got, exp % q))
                if boolean and any(g not in (0, 1) for g in got):
                    fail("%s over F_%d, operands %s: boolean-typed result can be %s" % (name, q, cur, got))
            return
        for v in domains[i]:
            rec(i + 1, cur + [v])
    import time; t0 = time.time()
    rec(0, [])
    if os.environ.get("CHECK_TIMING"): print("  %-60s F_%d bl=%d  %.1fs" % (name, q, bl, time.time() - t0))
    return structure(tr)

def part_B():
    fx.resolution = 1
    for q, bl in ((11, 2), (17, 2), (17, 3), (31, 3), (37, 4), (67, 5), (131, 6)):
        full = list(range(q))
        def exp_abs(cur, q=q, bl=bl):
            s = signed(cur[0], q, bl)
            return None if s is None else abs(s)
        exhaustive("abs(PrivVal)", q, bl, [1], lambda v: (lambda x: ([x], abs(x)))(PrivVal(v[0])), exp_abs, [full])
        exhaustive("abs(PubVal)", q, bl, [-1], lambda v: (lambda x: ([x], abs(x)))(PubVal(v[0])), exp_abs, [full])
        exhaustive("abs(LinCombFxp)", q, bl, [-2], lambda v: (lambda x: ([x], abs(LinCombFxp(x, False))))(PrivVal(v[0])), exp_abs, [full])
        def exp_pos(cur, q=q, bl=bl):
            s = signed(cur[0], q, bl)
            return None if s is None else int(s >= 0)
        exhaustive("check_positive", q, bl, [1], lambda v: (lambda x: ([x], x.check_positive()))(PrivVal(v[0])), exp_pos, [full], boolean=True)
        # abs of a linear combination 2a-b+1 of two operands
        if q <= 31:
            def exp_lin(cur, q=q, bl=bl):
                s = signed((2 * cur[0] - cur[1] + 1) % q, q, bl)
                return None if s is None else abs(s)
            exhaustive("abs(2a-b+1)", q, bl, [1, 2],
                       lambda v: (lambda a, b: ([a, b], abs(2 * a - b + 1)))(PrivVal(v[0]), PubVal(v[1])), exp_lin, [full, full])
            for opn, op, pyop in (("<", lambda a, b: a < b, lambda s, t: s < t), ("<=", lambda a, b: a <= b, lambda s, t: s <= t),
                                  (">", lambda a, b: a > b, lambda s, t: s > t), (">=", lambda a, b: a >= b, lambda s, t: s >= t)):
                def exp_cmp(cur, q=q, bl=bl, opn=opn, pyop=pyop):
                    # the gadget decides on d = y-x-1 / y-x / x-y-1 / x-y, which must be in [-2^bl, 2^bl)
                    x, y = cur
                    d = {"<": y - x - 1, "<=": y - x, ">": x - y - 1, ">=": x - y}[opn] % q
                    s = signed(d, q, bl)
                    return None if s is None else int(s >= 0)
                exhaustive("x%sy" % opn, q, bl, [1, 2],
                           lambda v, op=op: (lambda a, b: ([a, b], op(a, b)))(PrivVal(v[0]), PrivVal(v[1])), exp_cmp, [full, full], boolean=True)
    # boolean operand: its own constraint is part of the system; abs(b) = b
    q, bl = 17, 2
    exhaustive("abs(PrivValBool)", q, bl, [1], lambda v: (lambda b: ([b], abs(b)))(PrivValBool(v[0])),
               lambda cur: cur[0] if cur[0] in (0, 1) else None, [list(range(q))])

    # lazy branches under a guard.  guard wire c is an operand too.
    for q, bl in ((11, 2), (17, 2), (17, 3)):
        full = list(range(q))
        def build(v):
            c = PrivValBool(v[0]); x = PrivVal(v[1]); y = PrivVal(v[2])
            return [c, x, y], if_then_else(c, lambda: abs(x), y)
        def exp_g(cur, q=q, bl=bl):
            c, x, y = cur
            if c == 1:
                s = signed(x, q, bl)
                return None if s is None else abs(s)
            if c == 0:
                return y            # abs() is switched off: anything goes inside, result is y regardless
            return None
        exhaustive("if_then_else(c, lambda: abs(x), y) c=1", q, bl, [1, 1, 5], build, exp_g, [[1], full, [0, 5]])
        exhaustive("if_then_else(c, lambda: abs(x), y) c not boolean", q, bl, [1, 1, 5], build, exp_g, [[2, 5, q - 1], [1, q - 1], [3]])
        if bl == 2:
            # switched off: bitlength+1 wires are free, so this enumerates q^3 assignments per operand tuple
            exhaustive("if_then_else(c, lambda: abs(x), y) c=0", q, bl, [1, 1, 5], build, exp_g, [[0], [0, 2, q - 1, (1 << bl) + 1], [0, 5]])
    q, bl = 11, 2
    def build2(v):
        c = PrivValBool(v[0]); x = PrivVal(v[1])
        return [c, x], if_then_else(c, lambda: abs(x), lambda: abs(x + 1) + 1)
    def exp_g2(cur):
        c, x = cur
        s = signed(x, q, bl) if c == 1 else signed((x + 1) % q, q, bl)
        if s is None: return None
        return abs(s) if c == 1 else abs(s) + 1
    exhaustive("if_then_else(c, lambda: abs(x), lambda: abs(x+1)+1)", q, bl, [1, 1], build2, exp_g2, [[0, 1], [0, 1, 3, 4, 7, 10]])

# ---------------------------------------------------------------- C. value independence

def part_C():
    rt.bitlength = 8
    ref = None
    for x in (-255, -254, -1, 0, 1, 77, 255):
        with Trace() as tr:
            xv = PrivVal(x)
            abs(xv)
        s = structure(tr)
        if ref is None: ref = s
        elif s != ref:
            fail("circuit of abs() depends on the operand value (x=%d)" % x)
    n = len(ref)
    print("abs() with bitlength 8 costs %d constraints" % n)

part_A()
part_B()
part_C()

print("honest runs: %(honest)d (%(constraints)d constraints evaluated); operand tuples checked against every prover: "
      "%(exhaustive_inputs)d (%(assignments)d partial assignments enumerated)" % stats)
if failures:
    print("FAILED: %d violations" % len(failures))
    sys.exit(1)
print("OK: property C02 held in all cases")
sys.exit(0)
