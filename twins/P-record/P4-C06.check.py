# Evidence program for change P (guarded assert_zero / assert_nonzero / Boolean
# constraints without a dummy wire).
#
# Run as:  PYTHONPATH=<tree> /venv/bin/python P.check.py      (from an empty directory)
#
# For a series of programs that reach the changed code in every mode (no guard,
# guard on, guard off, nested guards, ignore_errors, several bitlengths) it
#   1. runs the program on many input vectors and demands that ALL completing
#      runs emit the identical constraint system: number of public / private
#      wires, every constraint with its terms in order and its coefficients,
#      and the wire expressions of the results                     (property C06)
#   2. evaluates every emitted constraint on the recorded witness: all hold for
#      valid inputs, whichever way the secret conditions go (so an untaken
#      branch fed with garbage is still provable)
#   3. checks that invalid inputs are refused in normal mode and, with
#      ignore_errors, leave at least one constraint violated (the cheaper
#      guarded constraints still enforce what they are there for)
#   4. compares the results with plain Python semantics.
# Exit status 0 iff everything held.

import os, sys, itertools
os.environ["PYSNARK_BACKEND"] = "snarkjs"

import pysnark.runtime as rt
import pysnark.snarkjsbackend as be
from pysnark.runtime import PrivVal, PubVal, LinComb, ignore_errors, guarded
from pysnark.boolean import PrivValBool, PubValBool, LinCombBool
from pysnark.fixedpoint import PrivValFxp, LinCombFxp
from pysnark.branching import if_then_else
from pysnark.array import Array

rt.autoprove = False
P = be.snarkjsp
failures = []

def fail(msg):
    failures.append(msg)
    print("FAIL:", msg)

def reset(bitlength):
    be.pubvals.clear(); be.privvals.clear(); be.constraints.clear()
    rt.guard = None
    rt._ignore_errors = False
    LinComb.ONE = LinComb.ONE_SAFE
    rt.num_constraints = 0
    rt.bitlength = bitlength

def lcterms(lc):
    return tuple((k, v % P) for (k, v) in lc.lc.items())

def wires(res):
    if isinstance(res, (list, tuple)): return tuple(wires(r) for r in res)
    if isinstance(res, (LinCombBool, LinCombFxp)): return (type(res).__name__, lcterms(res.lc.lc))
    if isinstance(res, LinComb): return ("LinComb", lcterms(res.lc))
    return ("const", res)

def values(res):
    if isinstance(res, (list, tuple)): return tuple(values(r) for r in res)
    if isinstance(res, (LinCombBool, LinCombFxp)): return res.lc.value
    if isinstance(res, LinComb): return res.value
    return res

def wireval(k):
    if k == 0: return 1
    return be.pubvals[k-1] if k > 0 else be.privvals[-k-1]

def evallc(lc):
    return sum(wireval(k)*v for (k, v) in lc.lc.items()) % P

def violated():
    return [i for (i, (v, w, y)) in enumerate(be.constraints) if (evallc(v)*evallc(w) - evallc(y)) % P != 0]

def run(prog, vec, bitlength, ignore):
    """ returns None if the run raised, else (structure, nviolated, result values) """
    reset(bitlength)
    ignore_errors(ignore)
    try:
        res = prog(*vec)
    except (AssertionError, ValueError, IndexError) as e:
        return None
    finally:
        if rt.guard is not None: fail("guard left set by " + prog.__name__ + str(vec))
    struct = (len(be.pubvals), len(be.privvals),
              tuple((lcterms(v), lcterms(w), lcterms(y)) for (v, w, y) in be.constraints),
              wires(res))
    if rt.num_constraints != len(be.constraints): fail("constraint counter out of step")
    return (struct, violated(), values(res))

def check(prog, vectors, pyfn, isvalid, bitlengths=(8, 16)):
    """ vectors: input tuples; isvalid(vec, bitlength): True if the program should
        accept the vector; pyfn: plain Python semantics of the result """
    for bl in bitlengths:
        ref = None; nruns = 0
        for vec in vectors:
            ok = isvalid(bl, *vec)
            normal = run(prog, vec, bl, False)
            ignoring = run(prog, vec, bl, True)
            if ignoring is None:
                fail("%s%s bl=%d: raised although errors are ignored" % (prog.__name__, vec, bl)); continue
            if ok:
                if normal is None:
                    fail("%s%s bl=%d: valid input refused" % (prog.__name__, vec, bl)); continue
                for (nm, r) in (("normal", normal), ("ignoring", ignoring)):
                    if r[1]: fail("%s%s bl=%d %s: constraints %s violated on valid input" % (prog.__name__, vec, bl, nm, r[1]))
                    if r[2] != pyfn(*vec): fail("%s%s bl=%d %s: result %s, Python says %s" % (prog.__name__, vec, bl, nm, r[2], pyfn(*vec)))
            else:
                if normal is not None:
                    fail("%s%s bl=%d: invalid input accepted" % (prog.__name__, vec, bl))
                if not ignoring[1]:
                    fail("%s%s bl=%d: invalid input leaves all constraints satisfied" % (prog.__name__, vec, bl))
            for (nm, r) in (("normal", normal), ("ignoring", ignoring)):
                if r is None: continue
                nruns += 1
                if ref is None: ref = (r[0], vec, nm)
                elif r[0] != ref[0]:
                    a, b = ref[0], r[0]
                    what = ("%d/%d public, %d/%d private wires, %d/%d constraints" %
                            (a[0], b[0], a[1], b[1], len(a[2]), len(b[2])))
                    if (a[0], a[1], len(a[2])) == (b[0], b[1], len(b[2])):
                        dif = [i for i in range(len(a[2])) if a[2][i] != b[2][i]]
                        what += ", constraints differing: " + str(dif[:5]) + (", results differ" if a[3] != b[3] else "")
                    fail("%s bl=%d: constraint system for %s (%s) differs from that for %s (%s): %s" %
                         (prog.__name__, bl, vec, nm, ref[1], ref[2], what))
        print("%-22s bitlength %2d: %3d completing runs, %3d public + %4d private wires, %4d constraints" %
              (prog.__name__, bl, nruns, ref[0][0], ref[0][1], len(ref[0][2])))

# ---------------------------------------------------------------------------
# programs

SMALL = [0, 1, 2, 5, 7]
ODD = [-3, -1, 200, 255, 256, 1000, 70000, -70000]   # negative / out of range for 8 or 16 bits

def flat_asserts(x, y, z):
    """ unguarded: assert_eq (assert_zero), assert_ne (assert_nonzero), Boolean wires """
    x = PubVal(x); y = PrivVal(y); z = PrivVal(z)
    x.assert_eq(y)
    (y - z).assert_nonzero()
    y.assert_ne(z)
    b = LinCombBool(x - y + 1)
    return [x + y, b & PrivValBool(1)]

check(flat_asserts,
      [(x, y, z) for x in SMALL + ODD for y in (x, x + 1) for z in (y, y + 3, x)],
      lambda x, y, z: (x + y, 1),
      lambda bl, x, y, z: x == y and y != z)

def branch_eq_ne(c, x, y):
    """ lazy branches: equality asserted where c, inequality where not c """
    c = PrivValBool(c); x = PrivVal(x); y = PrivVal(y)
    def yes():
        x.assert_eq(y)
        (x - y).assert_zero()
        return x + 1
    def no():
        x.assert_ne(y)
        (x - y).assert_nonzero()
        return 2 * y
    return if_then_else(c, yes, no)

check(branch_eq_ne,
      [(c, x, y) for c in (0, 1) for x in SMALL + ODD for y in (x, x + 1, -x, 3)],
      lambda c, x, y: x + 1 if c else 2 * y,
      lambda bl, c, x, y: (x == y) if c else (x != y))

def branch_bits(c, x):
    """ bit decomposition (Boolean wires + equality) in one branch only """
    c = PrivValBool(c); x = PrivVal(x)
    return if_then_else(c, lambda: LinComb.from_bits(x.to_bits(8)[2:]) + 0 * x, lambda: x * x)

check(branch_bits,
      [(c, x) for c in (0, 1) for x in SMALL + ODD + [128, 129]],
      lambda c, x: (x >> 2) if c else x * x,
      lambda bl, c, x: (0 <= x < 256) if c else True)

def branch_compare(c, x, y):
    """ comparisons (fresh Boolean wires, inner if_then_else) inside a branch """
    c = PrivValBool(c); x = PrivVal(x); y = PrivVal(y)
    def smaller():
        return if_then_else(x < y, x, y)
    return if_then_else(c, smaller, lambda: x - y)

check(branch_compare,
      [(c, x, y) for c in (0, 1) for x in SMALL + ODD for y in (0, 3, x, 100)],
      lambda c, x, y: min(x, y) if c else x - y,
      lambda bl, c, x, y: ((y - x - 1).bit_length() <= bl) if c else True)

def branch_array(c, i, v):
    """ secret array index (selector sum asserted equal to one) inside a branch """
    c = PrivValBool(c); i = PrivVal(i); v = PrivVal(v)
    arr = Array([v, v + 1, PrivVal(7), 2 * v])
    return if_then_else(c, lambda: arr[i], lambda: v)

check(branch_array,
      [(c, i, v) for c in (0, 1) for i in (0, 1, 2, 3, 4, -1, 100) for v in (0, 5, -2)],
      lambda c, i, v: [v, v + 1, 7, 2 * v][i] if c else v,
      lambda bl, c, i, v: (0 <= i < 4) if c else True)

def nested(c1, c2, x, y):
    """ guard inside guard; assertions at both levels """
    c1 = PrivValBool(c1); c2 = PrivValBool(c2); x = PrivVal(x); y = PrivVal(y)
    def outer():
        (x - y).assert_nonzero()
        def inner():
            (x - 2 * y).assert_zero()
            b = PrivValBool(1) & (x == 2 * y)
            return b * x
        return if_then_else(c2, inner, lambda: x + y)
    return if_then_else(c1, outer, lambda: y)

check(nested,
      [(c1, c2, x, y) for c1 in (0, 1) for c2 in (0, 1) for (x, y) in
       [(2, 1), (10, 5), (0, 0), (3, 3), (4, 1), (-6, -3), (1000, 500), (70000, 35000), (5, -5)]],
      lambda c1, c2, x, y: (x if c2 else x + y) if c1 else y,
      lambda bl, c1, c2, x, y: (x != y and (x == 2 * y if c2 else True)) if c1 else True)

def decorated(g, x, y):
    """ runtime.guarded used directly; LinComb operands turned into Booleans under the guard """
    g = PrivVal(g); x = PrivVal(x); y = PrivVal(y)
    @guarded(g)
    def body():
        x.assert_eq(y)
        b = PrivValBool(1) ^ (x - y)       # _ensurebool: Boolean constraint on a derived wire
        (x - y + 1).assert_nonzero()
        return b | PrivValBool(0)
    return [body(), x * g]

check(decorated,
      [(g, x, y) for g in (0, 1) for x in SMALL + [-4, 300] for y in (x,)] +
      [(1, 7, 6), (1, 1, 0), (1, -4, -5)],     # x-y must stay 0/1: other values are refused as Booleans in every mode
      lambda g, x, y: (1, x * g),
      lambda bl, g, x, y: x == y)

def branch_fxp(c, x, y):
    """ fixed-point equality / nonzero inside branches """
    c = PrivValBool(c); x = PrivValFxp(x); y = PrivValFxp(y)
    def yes():
        x.assert_eq(y)
        return x + 1
    def no():
        (x - y).assert_nonzero()
        return y
    return if_then_else(c, yes, no)

check(branch_fxp,
      [(c, x, y) for c in (0, 1) for x in (0.0, 1.5, -2.25, 300.0) for y in (x, x + 0.5, 1.5)],
      lambda c, x, y: int((x + 1) * 256) if c else int(y * 256),
      lambda bl, c, x, y: (x == y) if c else (x != y))

# ---------------------------------------------------------------------------
# what a guarded assertion costs (informational), and that the cost is the same
# for every value of guard and operand

def cost(fn, g, v):
    reset(16)
    g = PrivVal(g); v = PrivVal(v)
    before = (len(be.constraints), len(be.privvals))
    ignore_errors(True)
    guarded(g)(lambda: fn(v))()
    return (len(be.constraints) - before[0], len(be.privvals) - before[1])

for (nm, fn) in (("assert_zero", lambda v: v.assert_zero()),
                 ("assert_nonzero", lambda v: v.assert_nonzero()),
                 ("LinCombBool", lambda v: LinCombBool(v * 0 + (1 if v.value % 2 else 0))),
                 ("to_bits", lambda v: v.to_bits())):
    costs = {cost(fn, g, v) for g in (0, 1) for v in (0, 1, 2, 77, -1)}
    if len(costs) != 1: fail("cost of guarded " + nm + " depends on the values: " + str(costs))
    print("guarded %-15s: (constraints, private wires) = %s" % (nm, sorted(costs)))

if failures:
    print("%d FAILURES" % len(failures))
    sys.exit(1)
print("OK: identical constraint systems for all inputs, witnesses consistent")
