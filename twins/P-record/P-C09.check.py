# Evidence program for change P (guarded assert_zero / assert_nonzero emit one constraint on the guard).
#
# It checks property C09 itself, not equality with the old constraint system:
#   1. programs written once against a small "ops" interface are run natively (Python ints, Python `if`, real
#      asserts, only the taken branch is evaluated) and obliviously (LinComb, if_then_else with lazy branches,
#      guarded assertions in both branches); the resulting values must agree for every input;
#   2. every constraint emitted for a run is evaluated on the recorded witness and must hold;
#   3. the emitted constraint system (wires, coefficients, order) must be the same for every input of a
#      program, i.e. independent of which branches were taken;
#   4. inputs for which the native program fails an assertion in a TAKEN branch must be rejected: an exception
#      without ignore_errors, an unsatisfied constraint system of the same shape with ignore_errors(True);
#   5. for small gadgets the emitted constraint system is brute-forced over ALL assignments of all wires (over
#      a small prime field; the systems only have coefficients 0, +-1, 2 so they are meaningful over any field):
#      every satisfying assignment must agree with native semantics (soundness), and every native-valid input
#      must have a satisfying assignment (completeness), whatever the guard / branch condition is;
#   6. the block constructs (_if/_else/_endif, _while/_breakif/_endwhile) are run with guarded assertions in
#      their bodies: untouched variables keep their values, constraints hold and do not depend on the branch.
#
# Run as: PYTHONPATH=<tree> /venv/bin/python P.check.py   (from an empty directory; writes no files)

import itertools
import os
import sys

os.environ["PYSNARK_BACKEND"] = "snarkjs"

import pysnark.runtime as rt
rt.autoprove = False  # nothing is written at exit

import pysnark.snarkjsbackend as be
from pysnark.runtime import PrivVal, PubVal, LinComb, guarded, ignore_errors
from pysnark.boolean import PrivValBool, LinCombBool
from pysnark.branching import (if_then_else, BranchingValues, _if, _elif, _else, _endif, _while, _endwhile,
                               _breakif)

assert rt.backend is be, "snarkjs backend expected"
P = be.get_modulus()

failures = []
stats = {"runs": 0, "constraints": 0, "bruteforce_assignments": 0}


def fail(msg):
    failures.append(msg)
    print("FAIL:", msg)


# ---------------------------------------------------------------------------------------------------------------
# recording helpers on top of the snarkjs backend (which keeps constraints as {wire: coeff} dictionaries)

class Mark:
    def __init__(self):
        self.nc = len(be.constraints)
        self.npriv = len(be.privvals)
        self.npub = len(be.pubvals)


def wire_value(k):
    if k == 0: return 1
    if k > 0: return be.pubvals[k - 1] % P
    return be.privvals[-k - 1] % P


def eval_lc(lcdict, value_of):
    return sum(c * value_of(k) for (k, c) in lcdict.items())


def rel(mark, k):
    """ wire name relative to the start of the run """
    if k == 0: return ("one", 0)
    if k > 0: return ("pub", k - mark.npub) if k > mark.npub else ("oldpub", k)
    return ("priv", -k - mark.npriv) if -k > mark.npriv else ("oldpriv", -k)


def rel_lc(mark, lcdict):
    return tuple(sorted((rel(mark, k), c % P) for (k, c) in lcdict.items() if c % P != 0))


def shape(mark):
    return tuple((rel_lc(mark, v.lc), rel_lc(mark, w.lc), rel_lc(mark, y.lc)) for (v, w, y) in be.constraints[mark.nc:])


def unsatisfied(mark):
    bad = []
    for ix, (v, w, y) in enumerate(be.constraints[mark.nc:]):
        if (eval_lc(v.lc, wire_value) * eval_lc(w.lc, wire_value) - eval_lc(y.lc, wire_value)) % P != 0:
            bad.append(ix)
    return bad


def clean_state():
    ok = rt.guard is None and LinComb.ONE is LinComb.ONE_SAFE and not ignore_errors()
    if not ok:
        fail("guard / ONE / ignore_errors not restored after a run")
        rt.guard = None
        LinComb.ONE = LinComb.ONE_SAFE
        ignore_errors(False)
    return ok


# ---------------------------------------------------------------------------------------------------------------
# one program text, two interpretations

class Native:
    """ plain Python values, native control flow, real assertions """
    name = "native"
    def secret(self, v): return v
    def secretbool(self, v): return v
    def ite(self, c, f, g):
        assert c in (0, 1)
        r = f if c else g
        return r() if callable(r) else r
    def azero(self, x): assert x == 0
    def anonzero(self, x): assert x != 0
    def aeq(self, x, y): assert x == y
    def ane(self, x, y): assert x != y
    def alt(self, x, y): assert x < y and y - x - 1 < (1 << 16)
    def bits(self, x, n):
        assert 0 <= x < (1 << n)
        return sum(((x >> i) & 1) << i for i in range(n))
    def exactdiv(self, x, y):
        assert y != 0 and x % y == 0
        return x // y
    def eq(self, x, y): return 1 if x == y else 0
    def lt(self, x, y): return 1 if x < y else 0
    def band(self, a, b): return a & b
    def bnot(self, a): return 1 - a
    def out(self, x): return x
    def value(self, x): return int(x)


class Obliv:
    """ pysnark values, oblivious selection with lazily evaluated branches, guarded assertions """
    name = "oblivious"
    def secret(self, v): return PrivVal(v)
    def secretbool(self, v): return PrivValBool(v)
    def ite(self, c, f, g): return if_then_else(c, f, g)
    def azero(self, x): x.assert_zero()
    def anonzero(self, x): x.assert_nonzero()
    def aeq(self, x, y): x.assert_eq(y)
    def ane(self, x, y): x.assert_ne(y)
    def alt(self, x, y): x.assert_lt(y)
    def bits(self, x, n): return LinComb.from_bits(x.to_bits(n))
    def exactdiv(self, x, y): return x / y
    def eq(self, x, y): return x == y
    def lt(self, x, y): return x < y
    def band(self, a, b): return a & b
    def bnot(self, a): return ~a
    def out(self, x): return x
    def value(self, x):
        if isinstance(x, LinCombBool): x = x.lc
        if isinstance(x, LinComb): return x.value
        return int(x)


# --- programs: (name, function(ops, *inputs) -> list of results, iterable of input tuples) --------------------

def prog_zero_nonzero(o, c, x):
    c = o.secretbool(c); x = o.secret(x)
    def t():
        o.azero(x - 5)
        return x * 2
    def f():
        o.anonzero(x - 5)
        return x + 1
    return [o.ite(c, t, f)]


def prog_eq_ne(o, c, x, y):
    c = o.secretbool(c); x = o.secret(x); y = o.secret(y)
    def t():
        o.aeq(x, y)
        return x * y
    def f():
        o.ane(x, y)
        return x - y
    return [o.ite(c, t, f), x, y]


def prog_bits(o, c, x):
    c = o.secretbool(c); x = o.secret(x)
    def t(): return o.bits(x, 3) + 100
    def f(): return o.bits(x + 4, 2) + 200
    return [o.ite(c, t, f), x]


def prog_nested(o, c1, c2, x, y):
    c1 = o.secretbool(c1); c2 = o.secretbool(c2); x = o.secret(x); y = o.secret(y)
    d = y * y + 1  # never zero: the library refuses a zero divisor even in a branch that is not taken
    def tt():
        o.azero(x - y)
        return o.exactdiv(x * d + (x - y), d)  # only divisible on the path where x == y
    def tf():
        o.anonzero(x - y)
        return x * x + 7
    def t():
        o.anonzero(x)
        return o.ite(c2, tt, tf)
    def ft():
        o.azero(y)
        return 11
    def f():
        return o.ite(c2, ft, lambda: y + o.bits(x, 2))
    return [o.ite(c1, t, f), x, y]


def prog_derived_cond(o, x, y):
    """ conditions computed from secret data; the branch decides which assertion is meaningful """
    x = o.secret(x); y = o.secret(y)
    iseq = o.eq(x, y)
    def t():
        o.azero(x - y)
        return o.ite(o.eq(x, 2), lambda: (o.aeq(x, 2), x + 40)[1], lambda: (o.ane(y, 2), y + 50)[1])
    def f():
        o.anonzero(x - y)
        lt = o.lt(x, y)
        return o.ite(lt, lambda: (o.alt(x, y), y - x)[1], lambda: (o.alt(y, x), x - y)[1])
    return [o.ite(iseq, t, f), x]


def prog_three_deep(o, c1, c2, c3, x):
    c1 = o.secretbool(c1); c2 = o.secretbool(c2); c3 = o.secretbool(c3); x = o.secret(x)
    def leaf(k):
        def _leaf():
            o.azero(x - k)         # only true on the path that is really taken
            o.anonzero(x - k + 1)
            return x * 10 + k
        return _leaf
    def lvl3(base):
        return lambda: o.ite(c3, leaf(base + 1), leaf(base))
    def lvl2(base):
        return lambda: o.ite(c2, lvl3(base + 2), lvl3(base))
    return [o.ite(c1, lvl2(4), lvl2(0)), x]


def prog_list_and_eager(o, c, x, y):
    """ list-valued lazy branches and an eager (non-callable) branch, with guarded assertions on one side only """
    c = o.secretbool(c); x = o.secret(x); y = o.secret(y)
    def t():
        o.azero(x - 1)
        return [x + y, y, 3]
    r = o.ite(c, t, [x, x * y, y])
    s = o.ite(o.bnot(c), lambda: (o.anonzero(x - 1), y)[1], x)
    return list(r) + [s]


def prog_top_level(o, x, y):
    """ no guard at all: unguarded assertions are part of the same code """
    x = o.secret(x); y = o.secret(y)
    o.azero(x - y)
    o.anonzero(x + 1)
    return [o.bits(x, 3)]


PROGRAMS = [
    ("zero_nonzero", prog_zero_nonzero, list(itertools.product([0, 1], [-3, 0, 4, 5, 6, 1000]))),
    ("eq_ne", prog_eq_ne, list(itertools.product([0, 1], [-2, 0, 3], [-2, 0, 3, 9]))),
    ("bits", prog_bits, list(itertools.product([0, 1], [-5, -4, -3, -1, 0, 1, 7, 8, 200]))),
    ("nested", prog_nested, list(itertools.product([0, 1], [0, 1], [-1, 0, 1, 2, 3, 4], [-1, 0, 2, 3]))),
    ("derived_cond", prog_derived_cond, list(itertools.product([-3, 0, 1, 2, 3, 70000], [-3, 0, 2, 3, 5]))),
    ("three_deep", prog_three_deep, list(itertools.product([0, 1], [0, 1], [0, 1], range(-1, 9)))),
    ("list_and_eager", prog_list_and_eager, list(itertools.product([0, 1], [-1, 0, 1, 2], [0, 3]))),
    ("top_level", prog_top_level, list(itertools.product([-1, 0, 3, 7, 8], [0, 3, 7, 8]))),
]


def run_native(fn, inp):
    try:
        return [Native().value(v) for v in fn(Native(), *inp)]
    except AssertionError:
        return None  # the native program itself rejects this input


def run_oblivious(fn, inp, ignore):
    """ returns (results or None, exception or None, shape, unsatisfied constraint indexes) """
    mark = Mark()
    ignore_errors(ignore)
    res = exc = None
    try:
        res = [Obliv().value(v) for v in fn(Obliv(), *inp)]
    except (AssertionError, ValueError) as e:
        exc = e
    finally:
        ignore_errors(False)
    clean_state()
    stats["runs"] += 1
    stats["constraints"] += len(be.constraints) - mark.nc
    return res, exc, shape(mark), unsatisfied(mark)


def check_program(name, fn, inputs):
    shapes = {}
    nvalid = ninvalid = 0
    for inp in inputs:
        expected = run_native(fn, inp)
        if expected is not None:
            nvalid += 1
            for ignore in (False, True):
                res, exc, shp, bad = run_oblivious(fn, inp, ignore)
                tag = "%s%r ignore_errors=%s" % (name, inp, ignore)
                if exc is not None:
                    fail(tag + ": oblivious program raised %r but the native program accepts the input" % (exc,))
                    continue
                if [r % P for r in res] != [e % P for e in expected] or res != expected:
                    fail(tag + ": values %r differ from native %r" % (res, expected))
                if bad:
                    fail(tag + ": constraints %r do not hold on the recorded witness" % (bad,))
                shapes.setdefault(shp, []).append((inp, ignore))
        else:
            ninvalid += 1
            # an assertion of a TAKEN branch fails natively: must not be accepted silently
            res, exc, shp, bad = run_oblivious(fn, inp, False)
            if exc is None:
                fail("%s%r: native program fails an assertion, oblivious program ran through" % (name, inp))
            res, exc, shp, bad = run_oblivious(fn, inp, True)
            if exc is not None:
                fail("%s%r: raised %r although ignore_errors is set" % (name, inp, exc))
            else:
                if not bad:
                    fail("%s%r: assertion of a taken branch is false but all constraints hold (unsound)" % (name, inp))
                shapes.setdefault(shp, []).append((inp, True))
    if len(shapes) != 1:
        fail("%s: %d different constraint systems depending on the secret inputs: %r" %
             (name, len(shapes), [v[0] for v in shapes.values()]))
    ncons = len(next(iter(shapes))) if shapes else 0
    print("program %-15s %3d accepted inputs, %3d rejected inputs, %3d constraints per run, 1 shape: %s" %
          (name, nvalid, ninvalid, ncons, len(shapes) == 1))
    if nvalid == 0 or ninvalid == 0:
        fail(name + ": test inputs do not cover both accepted and rejected cases")


# ---------------------------------------------------------------------------------------------------------------
# exhaustive check of small gadgets over all wire assignments

def brute_force(name, build, q, spec, expect_inputs):
    """
    build() emits the gadget once and returns (input LinCombs, output LinCombs / ints). All wires created by
    build() are enumerated over F_q. spec(inputs) returns None when native semantics rejects the inputs and
    the list of native outputs otherwise. Checked: every satisfying assignment has spec(inputs) != None and
    outputs equal to it; every input in expect_inputs accepted by spec has a satisfying assignment.
    """
    mark = Mark()
    ins, outs = build()
    clean_state()
    cons = [(dict(v.lc), dict(w.lc), dict(y.lc)) for (v, w, y) in be.constraints[mark.nc:]]
    wires = [k for k in range(mark.npub + 1, len(be.pubvals) + 1)] + [-k for k in range(mark.npriv + 1, len(be.privvals) + 1)]
    pos = {k: i for (i, k) in enumerate(wires)}
    for c in cons:
        for part in c:
            for k in part:
                if k != 0 and k not in pos:
                    fail(name + ": constraint refers to a wire from outside the gadget")
                    return
    # constraint becomes checkable once its highest wire is assigned
    ready = [[] for _ in wires]
    for c in cons:
        hi = max([pos[k] for part in c for k in part if k != 0] + [0])
        ready[hi].append(c)
    assign = [0] * len(wires)
    def val(k): return 1 if k == 0 else assign[pos[k]]
    def ev(d): return sum(cf * val(k) for (k, cf) in d.items()) % q
    def outval(o):
        if isinstance(o, LinCombBool): o = o.lc
        return ev(o.lc.lc) if isinstance(o, LinComb) else o % q
    satisfiable_inputs = set()
    nsat = [0]
    def rec(i):
        if i == len(wires):
            nsat[0] += 1
            inp = tuple(ev(x.lc.lc) for x in ins)
            satisfiable_inputs.add(inp)
            want = spec(*inp)
            if want is None:
                fail("%s: assignment %r satisfies all constraints but native semantics rejects inputs %r" % (name, assign, inp))
            elif [w % q for w in want] != [outval(o) for o in outs]:
                fail("%s: assignment %r satisfies all constraints, outputs %r, native %r" % (name, assign, [outval(o) for o in outs], want))
            return
        for v in range(q):
            assign[i] = v
            stats["bruteforce_assignments"] += 1
            if all((ev(a) * ev(b) - ev(c)) % q == 0 for (a, b, c) in ready[i]):
                rec(i + 1)
                if len(failures) > nfail0 + 20: return  # enough counterexamples for this gadget
    nfail0 = len(failures)
    rec(0)
    for inp in expect_inputs:
        if spec(*inp) is not None and tuple(x % q for x in inp) not in satisfiable_inputs:
            fail("%s: native-valid inputs %r have no satisfying assignment (incomplete)" % (name, inp))
    print("gadget  %-28s F_%d, %d wires, %d constraints, %d satisfying assignments" % (name, q, len(wires), len(cons), nsat[0]))


def lcb(x):
    return x.lc if isinstance(x, LinCombBool) else x


def brute_force_all():
    # 1. assert_zero under a guard: guard=1 forces x=0, guard=0 forces nothing
    def g1():
        g = PrivValBool(1); x = PrivVal(0)
        guarded(g.lc)(lambda: x.assert_zero())()
        return [g.lc, x], []
    brute_force("guarded assert_zero", g1, 7, lambda g, x: [] if g in (0, 1) and (g == 0 or x == 0) else None,
                [(g, x) for g in (0, 1) for x in range(7)])

    # 2. assert_nonzero under a guard
    def g2():
        g = PrivValBool(0); x = PrivVal(3)
        guarded(g.lc)(lambda: x.assert_nonzero())()
        return [g.lc, x], []
    brute_force("guarded assert_nonzero", g2, 7, lambda g, x: [] if g in (0, 1) and (g == 0 or x != 0) else None,
                [(g, x) for g in (0, 1) for x in range(7)])

    # 3. the same two gadgets emitted while the guard is off must give the same relation (branch independence)
    def g3():
        g = PrivValBool(0); x = PrivVal(5); y = PrivVal(0)
        def body():
            x.assert_zero()
            y.assert_nonzero()
        guarded(g.lc)(body)()
        return [g.lc, x, y], []
    brute_force("guarded zero+nonzero (off)", g3, 5,
                lambda g, x, y: [] if g in (0, 1) and (g == 0 or (x == 0 and y != 0)) else None,
                [(g, x, y) for g in (0, 1) for x in range(5) for y in range(5)])

    # 4. if_then_else with lazy branches: which assertion binds depends on the secret condition
    for cval, xval in ((1, 0), (0, 2)):
        def g4():
            c = PrivValBool(cval); x = PrivVal(xval); y = PrivVal(3); z = PrivVal(4)
            r = if_then_else(c, lambda: (x.assert_zero(), y)[1], lambda: (x.assert_nonzero(), z)[1])
            return [c.lc, x, y, z], [r]
        def spec4(c, x, y, z):
            if c == 1 and x == 0: return [y]
            if c == 0 and x != 0: return [z]
            return None
        brute_force("lazy if_then_else c=%d" % cval, g4, 5, spec4,
                    [(c, x, y, z) for c in (0, 1) for x in range(5) for y in (0, 3) for z in (1, 4)])

    # 5. bit decomposition (uses assert_zero) in a lazy branch
    for cval, xval in ((1, 2), (0, 6)):
        def g5():
            c = PrivValBool(cval); x = PrivVal(xval)
            r = if_then_else(c, lambda: LinComb.from_bits(x.to_bits(2)) + 1, lambda: x * 2)
            return [c.lc, x], [r]
        def spec5(c, x):
            if c == 1 and x < 4: return [x + 1]
            if c == 0: return [2 * x]
            return None
        brute_force("lazy to_bits(2) c=%d" % cval, g5, 7, spec5, [(c, x) for c in (0, 1) for x in range(7)])

    # 6. nested guards (the inner guard is the AND of the two conditions, itself computed under the outer guard)
    oldbl = rt.bitlength
    rt.bitlength = 1  # 1-bit operands for the guard conjunction keep the wire count enumerable
    try:
        for c1v, c2v, xv in ((1, 1, 0), (1, 0, 3), (0, 1, 3), (0, 0, 3)):
            def g6():
                c1 = PrivValBool(c1v); c2 = PrivValBool(c2v); x = PrivVal(xv)
                def inner():
                    return if_then_else(c2, lambda: (x.assert_zero(), 2)[1], 3)
                r = if_then_else(c1, inner, 4)
                return [c1.lc, c2.lc, x], [r]
            def spec6(c1, c2, x):
                if c1 not in (0, 1) or c2 not in (0, 1): return None
                if c1 and c2: return [2] if x == 0 else None
                return [3] if c1 else [4]
            brute_force("nested lazy c1=%d c2=%d" % (c1v, c2v), g6, 3, spec6,
                        [(a, b, x) for a in (0, 1) for b in (0, 1) for x in range(3)])
    finally:
        rt.bitlength = oldbl


# ---------------------------------------------------------------------------------------------------------------
# block constructs with guarded assertions in their bodies

def block_if(c, a):
    """ native: if c: assert a-2==0, assert a!=0  else: assert a-2!=0 ; x and y are not written """
    v = BranchingValues()
    v.x = PrivVal(a)
    v.y = 17
    cond = PrivVal(c)
    if _if(cond, ctx=v):
        (v.x - 2).assert_zero()
        v.x.assert_nonzero()
        v.x.to_bits(2)
    if _else(ctx=v):
        (v.x - 2).assert_nonzero()
    _endif(ctx=v)
    assert len(v.stack) == 0
    return [v.x.value, v.y]


def block_nested_if(c1, c2, a):
    v = BranchingValues()
    v.x = PrivVal(a)
    if _if(PrivVal(c1), ctx=v):
        v.x.assert_nonzero()
        if _if(PrivVal(c2), ctx=v):
            (v.x - 1).assert_zero()
        if _else(ctx=v):
            (v.x - 1).assert_nonzero()
        _endif(ctx=v)
    _endif(ctx=v)
    assert len(v.stack) == 0
    return [v.x.value]


def block_while(n, a):
    """ native: i=0; while i!=n (at most 3 iterations): assert a-i != 0; i+=1 """
    v = BranchingValues()
    v.x = PrivVal(a)
    nn = PrivVal(n)
    i = 0
    while _while((nn != i).lc, ctx=v) and i < 3:
        (v.x - i).assert_nonzero()
        (nn - i).assert_nonzero()
        i += 1
    _endwhile(ctx=v)
    assert len(v.stack) == 0
    return [v.x.value]


def native_block(kind, inp):
    try:
        if kind == "if":
            c, a = inp
            if c:
                assert a - 2 == 0 and a != 0 and 0 <= a < 4
            else:
                assert a - 2 != 0
            return [a, 17]
        if kind == "nested_if":
            c1, c2, a = inp
            if c1:
                assert a != 0
                if c2: assert a - 1 == 0
                else: assert a - 1 != 0
            return [a]
        if kind == "while":
            n, a = inp
            i = 0
            while i != n and i < 3:
                assert a - i != 0 and n - i != 0
                i += 1
            return [a]
    except AssertionError:
        return None


BLOCKS = [
    ("if", block_if, list(itertools.product([0, 1], [-7, 0, 1, 2, 3, 9]))),
    ("nested_if", block_nested_if, list(itertools.product([0, 1], [0, 1], [-1, 0, 1, 2]))),
    ("while", block_while, list(itertools.product([0, 1, 2, 3], [-1, 0, 1, 2, 5]))),
]


def check_blocks():
    for kind, fn, inputs in BLOCKS:
        shapes = {}
        nvalid = ninvalid = 0
        for inp in inputs:
            expected = native_block(kind, inp)
            for ignore in ((False, True) if expected is not None else (True,)):
                mark = Mark()
                ignore_errors(ignore)
                res = exc = None
                try:
                    res = fn(*inp)
                except (AssertionError, ValueError) as e:
                    exc = e
                finally:
                    ignore_errors(False)
                clean_state()
                stats["runs"] += 1
                bad = unsatisfied(mark)
                tag = "block %s%r ignore_errors=%s" % (kind, inp, ignore)
                if exc is not None:
                    fail(tag + ": raised %r" % (exc,))
                    continue
                shapes.setdefault(shape(mark), []).append(inp)
                if expected is not None:
                    if res != expected: fail(tag + ": values %r, native %r" % (res, expected))
                    if bad: fail(tag + ": constraints %r do not hold" % (bad,))
                elif not bad:
                    fail(tag + ": assertion of a taken branch is false but all constraints hold")
            if expected is None:
                ninvalid += 1
                # without ignore_errors the failing assertion of the taken branch must be reported
                try:
                    fn(*inp)
                    fail("block %s%r: native program fails an assertion, oblivious block ran through" % (kind, inp))
                except (AssertionError, ValueError):
                    pass
                finally:
                    # the aborted block leaves its guard behind; that is how an exception inside a block behaves
                    rt.guard = None
                    LinComb.ONE = LinComb.ONE_SAFE
                    ignore_errors(False)
            else:
                nvalid += 1
        if len(shapes) != 1:
            fail("block %s: %d different constraint systems depending on secrets" % (kind, len(shapes)))
        print("block   %-15s %3d accepted inputs, %3d rejected inputs, 1 shape: %s" % (kind, nvalid, ninvalid, len(shapes) == 1))


# BranchingValues.__del__ raises for unclosed branches of aborted runs; keep that quiet, it is expected above
BranchingValues.__del__ = lambda self: None

for (name, fn, inputs) in PROGRAMS:
    check_program(name, fn, inputs)
brute_force_all()
check_blocks()

print("runs: %(runs)d, constraints evaluated on witnesses: %(constraints)d, brute-force assignments: %(bruteforce_assignments)d" % stats)
if failures:
    print("%d FAILURES" % len(failures))
    sys.exit(1)
print("OK: oblivious results equal native results, all constraints hold and are branch-independent, gadgets sound and complete")
sys.exit(0)
