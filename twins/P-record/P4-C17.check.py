# Evidence program for property C17 (a @snark function exposes exactly its
# arguments and results as public values) on a tree whose for_each_in walks
# the structure with an explicit stack.
#
#   PYTHONPATH=<tree> /venv/bin/python P.check.py        (from an empty directory)
#
# Everything is checked on the snarkjs backend, which records every wire and
# every constraint; a reduced run is repeated in a child process on nobackend.
# For every wrapped call the program checks
#   (a) the public wires created by the call are exactly: the numeric arguments
#       (depth first, left to right, through lists / tuples / dicts), then the
#       secret results, and nothing else;  the function receives those very
#       input wires in a copy of the argument structure;
#   (b) every public output carries the value of the computed wire and is FORCED
#       to it: with all other wires fixed the emitted constraints have exactly
#       one solution for the output wires (Gaussian elimination over GF(p));
#   (c) the caller gets the plain values the undecorated function returns;
#   (d) every constraint holds on the recorded witness (mod p);
#   (e) keyword arguments are refused before anything is allocated.
# At the end witness.wtns / circuit.r1cs are written, decoded again, and the
# public section and all constraints are checked from the bytes.
import os, sys, random, subprocess, collections

NOBACKEND = "--nobackend" in sys.argv
os.environ["PYSNARK_BACKEND"] = "nobackend" if NOBACKEND else "snarkjs"

from pysnark import runtime
from pysnark.runtime import snark, LinComb, PrivVal, PubVal, for_each_in, guarded, ignore_errors
from pysnark.fixedpoint import LinCombFxp, resolution
from pysnark.boolean import LinCombBool, PrivValBool
from pysnark.branching import if_then_else

runtime.autoprove = False
be = runtime.backend
failures = []
nchecks = [0]

def check(cond, msg):
    nchecks[0] += 1
    if not cond:
        failures.append(msg)
        print("FAIL:", msg)
        if len(failures) > 20:
            print("too many failures"); sys.exit(1)

# ---------------------------------------------------------------- recording
if NOBACKEND:
    PUB, PRIV, CONS = [], [], []
    _pub, _priv, _add = be.pubval, be.privval, be.add_constraint
    def pubval(v): PUB.append(v); return _pub(v)
    def privval(v): PRIV.append(v); return _priv(v)
    def addc(a, b, c): CONS.append(1); return _add(a, b, c)
    be.pubval, be.privval, be.add_constraint = pubval, privval, addc
    P = None
else:
    PUB, PRIV, CONS = be.pubvals, be.privvals, be.constraints
    P = be.snarkjsp

def snap(): return (len(PUB), len(PRIV), len(CONS))

def wval(k):
    return 1 if k == 0 else (PUB[k-1] if k > 0 else PRIV[-k-1])

def ev(lc):
    """ value (mod p) of a backend linear combination on the recorded witness """
    if isinstance(lc, LinComb): lc = lc.lc
    return sum(c * wval(k) for k, c in lc.lc.items()) % P

def holds(c):
    return (ev(c[0]) * ev(c[1]) - ev(c[2])) % P == 0

# ---------------------------------------------------------------- reference model
def leaves(s):
    """ depth first, left to right, through lists, tuples and dicts """
    if isinstance(s, (list, tuple)):
        for x in s: yield from leaves(x)
    elif isinstance(s, dict):
        for k in s: yield from leaves(s[k])
    else:
        yield s

def ref_map(conv, s):
    """ the recursive definition of for_each_in """
    if isinstance(s, list): return [ref_map(conv, x) for x in s]
    if isinstance(s, tuple): return tuple(ref_map(conv, x) for x in s)
    if isinstance(s, dict): return {k: ref_map(conv, s[k]) for k in s}
    return conv(s)

def same(a, b):
    """ same container types, equal leaves """
    if isinstance(a, (list, tuple, dict)) or isinstance(b, (list, tuple, dict)):
        if type(a) is not type(b) or len(a) != len(b): return False
        if isinstance(a, dict):
            return list(a) == list(b) and all(same(a[k], b[k]) for k in a)
        return all(same(x, y) for x, y in zip(a, b))
    if isinstance(a, float) or isinstance(b, float):
        return isinstance(a, (int, float)) and isinstance(b, (int, float)) and a == b
    if isinstance(a, (LinComb, LinCombFxp, LinCombBool)) or isinstance(b, (LinComb, LinCombFxp, LinCombBool)):
        return a is b
    return a == b

def scaled(x): return int(x * (1 << resolution))

# the library converts ints (bools included) first, then floats: this is the
# order of the public input wires at HEAD and the order this program expects
def expected_inputs(args):
    ls = list(leaves(args))
    return [v for v in ls if isinstance(v, int)] + [scaled(v) for v in ls if isinstance(v, float)]

def result_wires(ret):
    """ (computed wire, plain value) of the secret results, in the order the
        library publishes them: integers, then fixed point, then booleans """
    ls = list(leaves(ret))
    return [x for x in ls if isinstance(x, LinComb)] + \
           [x.lc for x in ls if isinstance(x, LinCombFxp)] + \
           [x.lc for x in ls if isinstance(x, LinCombBool)]

def plain_of(ret):
    def conv(x):
        if isinstance(x, LinComb): return x.value
        if isinstance(x, LinCombFxp): return float(x.lc.value) / (1 << resolution)
        if isinstance(x, LinCombBool): return x.lc.value
        return x
    return ref_map(conv, ret)

# ---------------------------------------------------------------- linear algebra over GF(p)
def forced(free, cons):
    """ with every wire outside `free` fixed to its recorded value, do the
        constraints leave exactly one assignment of the free wires? """
    free = list(free); pos = {k: i for i, k in enumerate(free)}
    rows = []
    def split(lc):
        c0 = 0; lin = {}
        for k, c in lc.lc.items():
            if k in pos: lin[pos[k]] = (lin.get(pos[k], 0) + c) % P
            else: c0 = (c0 + c * wval(k)) % P
        return c0, {i: c for i, c in lin.items() if c}
    for c in cons:
        (a0, al), (b0, bl), (c0, cl) = split(c[0]), split(c[1]), split(c[2])
        if not (al or bl or cl): continue
        if al and bl: return None            # not linear in the free wires
        if al: (a0, al), (b0, bl) = (b0, bl), (a0, al)
        row = [0] * (len(free) + 1)
        for i, co in bl.items(): row[i] = (row[i] + a0 * co) % P
        for i, co in cl.items(): row[i] = (row[i] - co) % P
        row[-1] = (c0 - a0 * b0) % P
        rows.append(row)
    rank = 0
    for col in range(len(free)):
        piv = next((r for r in range(rank, len(rows)) if rows[r][col]), None)
        if piv is None: continue
        rows[rank], rows[piv] = rows[piv], rows[rank]
        inv = pow(rows[rank][col], -1, P)
        rows[rank] = [x * inv % P for x in rows[rank]]
        for r in range(len(rows)):
            if r != rank and rows[r][col]:
                f = rows[r][col]
                rows[r] = [(x - f * y) % P for x, y in zip(rows[r], rows[rank])]
        rank += 1
    if any(not any(r[:-1]) and r[-1] for r in rows): return False   # inconsistent
    return rank == len(free)

# ---------------------------------------------------------------- one checked call
EXPECTED_PUBLIC = []           # everything the run is expected to have made public, in order

def checked_call(name, f, args, plain=True, guardval=None):
    """ call snark(f)(*args) and check (a)-(d); returns nothing """
    rec = {}
    def body(*a):
        rec["entry"] = snap(); rec["args"] = a
        r = f(*a)
        rec["ret"] = r; rec["exit"] = snap()
        return r
    before = snap()
    got = snark(body)(*args)
    after = snap()
    ins = expected_inputs(args)
    tag = name + repr(args)[:70]

    # (a) inputs
    check(rec["entry"][0] == before[0] + len(ins), tag + ": number of public inputs")
    check(rec["entry"][1:] == before[1:], tag + ": converting arguments made witnesses/constraints")
    check(list(PUB[before[0]:rec["entry"][0]]) == ins, tag + ": public input values/order %r != %r" % (PUB[before[0]:rec["entry"][0]], ins))
    # the function received a copy of the structure with those wires in it
    nint = sum(1 for v in leaves(args) if isinstance(v, int))
    iidx = iter(range(before[0] + 1, before[0] + nint + 1))
    fidx = iter(range(before[0] + nint + 1, before[0] + len(ins) + 1))
    def expect_arg(v):
        if isinstance(v, int): return ("I", None if NOBACKEND else {next(iidx): 1})
        if isinstance(v, float): return ("F", None if NOBACKEND else {next(fidx): 1})
        return ("X", v)
    def describe(v):
        if isinstance(v, LinComb): return ("I", None if NOBACKEND else dict(v.lc.lc))
        if isinstance(v, LinCombFxp): return ("F", None if NOBACKEND else dict(v.lc.lc.lc))
        return ("X", v)
    want = ref_map(expect_arg, tuple(args))
    gotargs = ref_map(describe, rec["args"])
    check(same(gotargs, want), tag + ": function did not receive the public input wires in place: %r vs %r" % (gotargs, want))

    # (a) outputs, nothing else public
    wires = result_wires(rec["ret"])
    check(rec["exit"][0] == rec["entry"][0], tag + ": body made something public (test bug)")
    check(after[0] == rec["exit"][0] + len(wires), tag + ": number of public outputs %d != %d" % (after[0] - rec["exit"][0], len(wires)))
    check(list(PUB[rec["exit"][0]:after[0]]) == [w.value for w in wires], tag + ": public output values/order")
    EXPECTED_PUBLIC.extend(ins); EXPECTED_PUBLIC.extend(w.value for w in wires)

    # (c) plain values
    check(same(got, plain_of(rec["ret"])), tag + ": returned %r, wires say %r" % (got, plain_of(rec["ret"])))
    if plain:
        check(same(got, f(*args)) or same(got, ref_map(lambda v: int(v) if isinstance(v, bool) else v, f(*args))),
              tag + ": returned %r, undecorated gives %r" % (got, f(*args)))

    if NOBACKEND: return
    # (d) all new constraints hold
    for i in range(before[2], after[2]):
        check(holds(CONS[i]), tag + ": constraint %d does not hold" % i)
    # (b) outputs carry the wire's value and are forced to it
    outs = list(range(rec["exit"][0] + 1, after[0] + 1))
    for k, w in zip(outs, wires):
        check(wval(k) % P == ev(w), tag + ": output %d differs from the computed wire" % k)
    free = list(outs)
    if guardval != 0:        # helper witnesses of the output conversion may move as well
        free += [-(i + 1) for i in range(rec["exit"][1], after[1])]
    if free:
        res = forced(free, CONS[before[2]:])
        check(res is True, tag + ": public outputs are not forced to the computed wires (%r)" % res)

# ---------------------------------------------------------------- the functions
INTS = [0, 1, -1, 2, -7, 255, 65535, 2**40, -2**70, 2**300]
if not NOBACKEND: INTS += [P - 1, P, P + 5]
SMALL = [0, 1, 2, 3, 100, 255, 4000]
FLOATS = [0.0, 1.5, -2.25, 100.0, 0.00390625, -0.5]
rnd = random.Random(17)

def cases():
    for x in INTS:
        yield "cube", (lambda x: x*x*x), (x,), True
        yield "const", (lambda x: 3), (x,), True
        yield "ident", (lambda x: x), (x,), True
    for _ in range(12):
        x, y = rnd.choice(INTS), rnd.choice(INTS)
        yield "pair", (lambda x, y: (x+y, x*y)), (x, y), True
        yield "lst", (lambda l: [sum(l), l[0]*l[-1], l]), ([x, y, 5],), True
        yield "dct", (lambda d: {"s": d["a"]+d["b"][0], "t": (d["b"][1]*2, 7), "u": []}), ({"b": (x, y), "a": 3},), True
        yield "mix", (lambda x, t: [t[0], [x, (t[1][0]*x,)], "str", None, t[2]]), (y, (x, [y, "s"], {"k": None})), True
        yield "dup", (lambda a, b: (a, a, b[0]+a)), (x, [y]), True
    shared = [1, 2]
    yield "shared", (lambda a, b: a[0][0]*b[1]), ([shared, shared], shared), True
    yield "noargs", (lambda: 5), (), True
    yield "none", (lambda: None), (), True
    yield "empty", (lambda a, b, c: (a, b, c)), ([], (), {}), True
    yield "bool", (lambda b, c: (b*3, c+1)), (True, False), True
    for _ in range(8):
        a, b = rnd.choice(FLOATS), rnd.choice(FLOATS)
        yield "fadd", (lambda a, b: a+b), (a, b), True
        yield "fsub", (lambda a, b: [a-b, (a+a,)]), (a, b), True
        yield "fint", (lambda a, n, b: (n+1, a+b, n*n, {"z": b})), (a, rnd.choice(INTS), b), True
        yield "fstruct", (lambda d, n: (d["p"][0]+d["q"], n)), ({"p": [a, 2], "q": b}, 7), True
    for _ in range(8):
        x, y = rnd.choice(SMALL), rnd.choice(SMALL)
        yield "lt", (lambda x, y: x < y), (x, y), "cmp"
        yield "eqs", (lambda x, y: [x == y, (x != y, x+y), x >= y]), (x, y), "cmp"
        yield "bits", (lambda x: x.to_bits()[:3] if isinstance(x, LinComb) else [(x >> i) & 1 for i in range(3)]), (x,), "cmp"
    # random structures
    for _ in range(40):
        s = rand_struct(rnd, 4)
        yield "rand", (lambda *a: jumble(a)), tuple(s) if isinstance(s, (list, tuple)) else (s,), True

def rand_struct(r, depth):
    k = r.random()
    if depth == 0 or k < 0.35:
        return r.choice([r.choice(INTS), r.choice(FLOATS), r.choice(INTS), "txt", None])
    n = r.randrange(0, 4)
    if k < 0.6: return [rand_struct(r, depth-1) for _ in range(n)]
    if k < 0.8: return tuple(rand_struct(r, depth-1) for _ in range(n))
    keys = r.sample(["z", "a", 3, "m", (1, 2)], n)
    return {key: rand_struct(r, depth-1) for key in keys}

def jumble(a):
    """ some arithmetic that works on plain values and on wires alike """
    ls = list(leaves(a))
    ints = [v for v in ls if isinstance(v, (int, LinComb)) and not isinstance(v, bool)]
    flts = [v for v in ls if isinstance(v, (float, LinCombFxp))]
    out = {"in": list(a)[::-1]}
    if ints: out["i"] = (sum(ints), ints[0]*ints[-1]+1)
    if flts: out["f"] = [flts[0]+flts[-1]]
    return out

# ---------------------------------------------------------------- for_each_in against its recursive definition
def check_for_each_in():
    r = random.Random(5)
    NT = collections.namedtuple("NT", "a b")
    class L(list): pass
    extra = [NT(1, [2, 3]), collections.OrderedDict([("y", 1), ("x", (2,))]), L([1, L([2])]),
             collections.defaultdict(list, {"k": [1, 2]}), [], (), {}, 5, None, [[[]]], ([{}],), {"a": {"b": {"c": (1,)}}}]
    structs = extra + [rand_struct(r, 6) for _ in range(300)]
    for s in structs:
        seen1, seen2 = [], []
        def c1(x): seen1.append(x); return ("c", x)
        def c2(x): seen2.append(x); return ("c", x)
        a = for_each_in(c1, s); b = ref_map(c2, s)
        check(same(a, b), "for_each_in result differs on %r: %r vs %r" % (s, a, b))
        check(len(seen1) == len(seen2) and all(x is y for x, y in zip(seen1, seen2)), "for_each_in converter order differs on %r" % (s,))
        check(not isinstance(s, (list, dict)) or a is not s, "for_each_in returned its argument")
    # converter exceptions propagate
    try:
        for_each_in(lambda x: 1 // x, [1, [0]]); check(False, "exception swallowed")
    except ZeroDivisionError: pass
    # a structure that is used twice is converted twice (no sharing in the copy)
    sh = [1]
    out = for_each_in(lambda x: [x], [sh, sh, (sh,)])
    check(out == [[[1]], [[1]], ([[1]],)] and out[0] is not out[1], "shared substructure")
    # deep nesting: either handled completely or refused with RecursionError
    for depth in (500, 3000, 8000):
        s = 7
        for i in range(depth):
            s = {"k": s} if i % 3 == 0 else ((s,) if i % 3 == 1 else [s, i])
        n = []
        try:
            out = for_each_in(lambda x: (n.append(x), x + 1)[1], s)
        except RecursionError:
            print("note: nesting depth %d refused by this tree (RecursionError)" % depth); continue
        cur = out; ok = True
        for i in reversed(range(depth)):
            if i % 3 == 0:
                ok = ok and type(cur) is dict and list(cur) == ["k"]; cur = cur["k"]
            elif i % 3 == 1:
                ok = ok and type(cur) is tuple and len(cur) == 1; cur = cur[0]
            else:
                ok = ok and type(cur) is list and len(cur) == 2 and cur[1] == i + 1; cur = cur[0]
        check(ok and cur == 8, "deep structure (%d) converted wrongly" % depth)
        check(n[0] == 7, "deep structure: innermost leaf must be converted first")
        del out, cur, s
    # cyclic structures are refused, they cannot be copied
    cyc = [1, 2]; cyc.append((cyc,))
    d = {"a": 1}; d["self"] = [d]
    for s in (cyc, d):
        try:
            for_each_in(lambda x: x, s); check(False, "cyclic structure accepted")
        except (ValueError, RecursionError): pass

def check_deep_call():
    """ a deeply nested argument through @snark """
    depth = 2500
    s = [3, 4]
    for i in range(depth): s = [s]
    def inner(a):
        while len(a) == 1: a = a[0]
        return a[0] * a[1]
    before = snap()
    try:
        got = snark(inner)(s)
    except RecursionError:
        # refused as a whole? wires made before the refusal stay public inputs of the run
        EXPECTED_PUBLIC.extend(PUB[before[0]:])
        print("note: deep argument refused by this tree (RecursionError)"); return
    check(got == 12 and list(PUB[before[0]:]) == [3, 4, 12], "deep argument: %r %r" % (got, PUB[before[0]:]))
    EXPECTED_PUBLIC.extend([3, 4, 12])

# ---------------------------------------------------------------- driver
def check_kwargs():
    for call in (lambda g: g(1, y=2), lambda g: g(x=1), lambda g: g(1, 2, **{"z": [3]})):
        before = snap()
        try:
            call(snark(lambda *a, **k: 1)); check(False, "keyword arguments accepted")
        except ValueError: pass
        check(snap() == before, "refused call allocated wires/constraints")

def check_nested():
    inner = snark(lambda z: z * z)
    before = snap()
    got = snark(lambda x: inner(x) + x)(6)
    check(got == 42 and list(PUB[before[0]:]) == [6, 36, 42], "nested wrapped calls: %r %r" % (got, PUB[before[0]:]))
    EXPECTED_PUBLIC.extend([6, 36, 42])
    before = snap()
    got = inner(inner(3))           # plain result of one call is a numeric argument of the next
    check(got == 81 and list(PUB[before[0]:]) == [3, 9, 9, 81], "chained wrapped calls")
    EXPECTED_PUBLIC.extend([3, 9, 9, 81])

def run_all(modes):
    for mode in modes:
        n = 0
        for name, f, args, plain in cases():
            n += 1
            if mode == "plain":
                checked_call(name, f, args, plain=bool(plain))
            elif mode == "ignore":
                ignore_errors(True)
                try: checked_call(name + "/ie", f, args, plain=bool(plain))
                finally: ignore_errors(False)
            elif mode in ("guard1", "guard0"):
                gv = 1 if mode == "guard1" else 0
                g = PrivVal(gv)
                guarded(g)(lambda: checked_call(name + "/" + mode, f, args, plain=(plain is True or (bool(plain) and gv == 1)), guardval=gv))()
            elif mode == "branch" and n % 3 == 0:
                c = PrivValBool(n % 2)
                def taken(): checked_call(name + "/then", f, args, plain=(plain is True or n % 2 == 1), guardval=n % 2); return 0
                def other(): checked_call(name + "/else", f, args, plain=(plain is True or n % 2 == 0), guardval=1 - n % 2); return 0
                if_then_else(c, taken, other)
        print("mode %-7s ok so far: %d checks, %d public wires" % (mode, nchecks[0], len(PUB)))

def decode_and_check_files():
    be.prove()
    def rd(b, o, n): return int.from_bytes(b[o:o+n], "little"), o + n
    w = open("witness.wtns", "rb").read(); c = open("circuit.r1cs", "rb").read()
    check(w[:4] == b"wtns" and c[:4] == b"r1cs", "magic")
    o = 4 + 4 + 4 + 4 + 8
    fs, o = rd(w, o, 4); prime, o = rd(w, o, fs); nw, o = rd(w, o, 4)
    o += 4 + 8
    wit = []
    for i in range(nw):
        v, o = rd(w, o, fs); wit.append(v)
    check(prime == P and o == len(w), "witness header")
    o = 4 + 4 + 4 + 4 + 8
    fs, o = rd(c, o, 4); prime, o = rd(c, o, fs)
    nvars, o = rd(c, o, 4); npubout, o = rd(c, o, 4); npubin, o = rd(c, o, 4); nprv, o = rd(c, o, 4)
    o += 8
    ncons, o = rd(c, o, 4)
    o += 4 + 8
    check(nvars == nw and prime == P, "r1cs header")
    check(npubout + npubin == len(EXPECTED_PUBLIC), "file declares %d public wires, expected %d" % (npubout + npubin, len(EXPECTED_PUBLIC)))
    check(wit[0] == 1 and wit[1:1+len(EXPECTED_PUBLIC)] == [v % P for v in EXPECTED_PUBLIC], "public section of the witness file is not arguments+results in order")
    bad = 0
    for i in range(ncons):
        vals = []
        for _ in range(3):
            n, o = rd(c, o, 4); acc = 0
            for _ in range(n):
                k, o = rd(c, o, 4); co, o = rd(c, o, fs); acc += co * wit[k]
            vals.append(acc % P)
        if (vals[0] * vals[1] - vals[2]) % P: bad += 1
    check(bad == 0 and ncons == len(CONS), "%d constraints of circuit.r1cs fail on witness.wtns" % bad)
    print("files: %d wires (%d public), %d constraints decoded and evaluated" % (nw, npubout + npubin, ncons))

def main():
    check_for_each_in()
    check_kwargs()
    run_all(["plain"] if NOBACKEND else ["plain", "ignore", "guard1", "guard0", "branch", "plain"])
    check_nested()
    check_deep_call()
    check_kwargs()
    if NOBACKEND:
        check(list(PUB) == EXPECTED_PUBLIC, "public values of the whole run")
    else:
        check([v % P for v in PUB] == [v % P for v in EXPECTED_PUBLIC], "public values of the whole run are not exactly arguments+results in order")
        for i, c in enumerate(CONS):
            check(holds(c), "constraint %d fails at the end of the run" % i)
        decode_and_check_files()
        r = subprocess.run([sys.executable, os.path.abspath(__file__), "--nobackend"])
        check(r.returncode == 0, "run on nobackend failed")
    print("%s: %d checks, %d failures" % ("nobackend" if NOBACKEND else "snarkjs", nchecks[0], len(failures)))
    sys.exit(1 if failures else 0)

main()
