# Evidence program for change P (secret-index writes go through array._select).
#
# Run as:  PYTHONPATH=<tree> /venv/bin/python P.check.py     (from an empty directory)
#
# A recording R1CS backend over a prime field is installed under the name
# pysnark.nobackend before pysnark.runtime is imported.  Every scenario is a
# sequence of reads and writes on an Array that is executed
#   * for every in-range combination of secret index values: afterwards
#       - every emitted constraint is evaluated on the recorded witness,
#       - the value of every cell / every value read is compared with a plain
#         Python list-of-lists model,
#       - every cell's linear combination is evaluated on the witness and has
#         to agree with the cell's .value (the wires really carry the content),
#       - the constraint system (all linear combinations, wire numbering
#         included) has to be identical for all index values;
#   * with one index out of range: IndexError has to be raised; with
#     ignore_errors(True) the SAME constraint system has to be emitted and the
#     recorded witness must violate it (the statement cannot be proven);
#   * inside a lazy if_then_else branch that is not taken (guard value 0) with
#     in-range and out-of-range indices: same constraint system as in the taken
#     case, all constraints satisfied, and the selected result is correct.
# Plus: shape errors (ragged rows, row over scalar) raise and leave the array
# untouched; cells holding the written public constant stay plain integers.
# Exit status 0 iff everything held.

import itertools, os, sys, types

P = 21888242871839275222246405745257275088548364400416034343698204186575808495617

class LC:
    __slots__ = ("t",)
    def __init__(self, t=None): self.t = t or {}
    def __add__(self, o):
        r = dict(self.t)
        for k, c in o.t.items():
            c = (r.get(k, 0) + c) % P
            if c: r[k] = c
            else: r.pop(k, None)
        return LC(r)
    def __neg__(self): return self * (-1)
    def __sub__(self, o): return self + (-o)
    def __mul__(self, c):
        c %= P
        return LC({k: v * c % P for k, v in self.t.items()} if c else {})
    def key(self): return tuple(sorted(self.t.items()))

class Rec:
    def __init__(self): self.reset()
    def reset(self):
        self.wit = [1]; self.cons = []
    def var(self, val):
        self.wit.append(val % P); return LC({len(self.wit) - 1: 1})
    def ev(self, lc): return sum(c * self.wit[k] for k, c in lc.t.items()) % P
    def unsatisfied(self):
        return [i for i, (a, b, c) in enumerate(self.cons) if (self.ev(a) * self.ev(b) - self.ev(c)) % P]
    def structure(self): return tuple((a.key(), b.key(), c.key()) for (a, b, c) in self.cons)

rec = Rec()
be = types.ModuleType("pysnark.nobackend")
be.privval = lambda v: rec.var(v)
be.pubval = lambda v: rec.var(v)
be.zero = lambda: LC()
be.one = lambda: LC({0: 1})
be.fieldinverse = lambda v: pow(v % P, P - 2, P)
be.get_modulus = lambda: P
be.add_constraint = lambda v, w, y: rec.cons.append((v, w, y))
be.prove = lambda: None
sys.modules["pysnark.nobackend"] = be
os.environ["PYSNARK_BACKEND"] = "nobackend"

import pysnark.runtime as rt
from pysnark.runtime import PrivVal, PubVal, LinComb, ignore_errors
from pysnark.boolean import LinCombBool
from pysnark.branching import if_then_else
from pysnark.array import Array, ArrayRow
rt.autoprove = False

failures = []
nchecks = 0
def check(cond, *msg):
    global nchecks
    nchecks += 1
    if not cond:
        failures.append(" ".join(str(m) for m in msg))
        if len(failures) <= 30: print("FAIL:", *msg)

def fresh():
    rec.reset(); ignore_errors(False)
    rt.guard = None
    LinComb.ONE = LinComb.ONE_SAFE

# ---- building arrays: 'c' constant cells, 's' secret cells, 'm' mixed -------------------------------------

def cell(kind, v, pos):
    if kind == 'c': return v
    if kind == 's': return PrivVal(v)
    if kind == 'p': return PubVal(v)
    return v if pos % 2 == 0 else PrivVal(v)          # 'm'

def build(kind, model, off=0):
    if isinstance(model[0], list):
        return Array([build(kind, row, off + i) for i, row in enumerate(model)])
    return Array([cell(kind, v, off + i) for i, v in enumerate(model)])

def val(x):
    if isinstance(x, Array): return [val(y) for y in x.arr]
    if isinstance(x, LinCombBool): x = x.lc
    if isinstance(x, LinComb): return x.value
    assert isinstance(x, int), type(x)
    return x

def wires_ok(x):
    """ the linear combination of every cell evaluates (on the witness) to the cell's value """
    if isinstance(x, Array): return all(wires_ok(y) for y in x.arr)
    if isinstance(x, LinCombBool): x = x.lc
    if isinstance(x, LinComb): return rec.ev(x.lc) == x.value % P
    return True

# ---- scenarios -----------------------------------------------------------------------------------------
# An op is (name, index spec, value spec).  Index spec: tuple of ('S', slot) secret index number `slot`,
# or ('P', k) public index k.  Value spec for writes: ('c', v) constant, ('s', v) secret, ('row', kind, [..]),
# ('cell', (i, j...)) another cell of the array (public position), ('same',) the constant currently stored
# at position 0 of the model (exercises the new shortcut).

def mk_index(spec, svals):
    out = []
    for (k, a) in spec:
        out.append(PrivVal(svals[a]) if k == 'S' else a)
    return out[0] if len(out) == 1 else tuple(out)

def plain_index(spec, svals):
    return [svals[a] if k == 'S' else a for (k, a) in spec]

def mk_value(vs, arr, model):
    if vs[0] == 'c': return vs[1], vs[1]
    if vs[0] == 's': return PrivVal(vs[1]), vs[1]
    if vs[0] == 'row': return Array([cell(vs[1], v, i) for i, v in enumerate(vs[2])]), list(vs[2])
    if vs[0] == 'cell':
        a, m = arr, model
        for k in vs[1]: a, m = a.arr[k], m[k]
        return a, (list(m) if isinstance(m, list) else m)
    raise ValueError(vs)

def run_ops(kind, model0, ops, svals, lazy=None):
    """ returns (array, model, reads, modelreads).  lazy: None or a guard value (0/1): run inside a lazy branch """
    import copy
    model = copy.deepcopy(model0)
    arr = build(kind, model)
    reads, mreads = [], []
    def body():
        for (name, ispec, vspec) in ops:
            idx = mk_index(ispec, svals)
            pidx = plain_index(ispec, svals)
            if name == 'r':
                reads.append(arr[idx])
                m = model
                ok = True
                for k in pidx:
                    if isinstance(m, list) and 0 <= k < len(m): m = m[k]
                    else: ok = False; break
                mreads.append(copy.deepcopy(m) if ok else None)
            else:
                v, mv = mk_value(vspec, arr, model)
                arr[idx] = v
                m = model
                ok = all(True for _ in pidx)
                for k in pidx[:-1]:
                    if 0 <= k < len(m): m = m[k]
                    else: ok = False; break
                if ok and 0 <= pidx[-1] < len(m): m[pidx[-1]] = copy.deepcopy(mv)
        return 0
    if lazy is None:
        body()
    else:
        g = PrivVal(lazy)
        cond = LinCombBool(g)
        if_then_else(cond, body, lambda: 0)
    return arr, model, reads, mreads

def scenario(title, kind, model0, ops, nslots):
    dims = []
    m = model0
    while isinstance(m, list): dims.append(len(m)); m = m[0]
    # which dimension does each slot index?
    slotdim = {}
    for (_, ispec, _) in ops:
        for d, (k, a) in enumerate(ispec):
            if k == 'S': slotdim[a] = d
    ranges = [range(dims[slotdim[s]]) for s in range(nslots)]
    ref = None
    for svals in itertools.product(*ranges):
        fresh()
        arr, model, reads, mreads = run_ops(kind, model0, ops, svals)
        check(val(arr) == model, title, kind, svals, "content", val(arr), "expected", model)
        check([val(r) for r in reads] == mreads, title, kind, svals, "reads", [val(r) for r in reads], "expected", mreads)
        check(rec.unsatisfied() == [], title, kind, svals, "unsatisfied constraints", rec.unsatisfied())
        check(wires_ok(arr) and all(wires_ok(r) for r in reads), title, kind, svals, "wire values differ from .value")
        st = rec.structure()
        if ref is None: ref = st
        check(st == ref, title, kind, svals, "constraint system depends on the index value")
        # same thing inside a lazy branch, taken and not taken
        for g in (1, 0):
            fresh()
            arr2, model2, reads2, _ = run_ops(kind, model0, ops, svals, lazy=g)
            check(rec.unsatisfied() == [], title, kind, svals, "guard", g, "unsatisfied", rec.unsatisfied())
            check(wires_ok(arr2), title, kind, svals, "guard", g, "wire values differ from .value")
            if g == 1: check(val(arr2) == model, title, kind, svals, "guarded content", val(arr2), model)
            key = (title, kind, g)
            lazyref.setdefault(key, rec.structure())
            check(rec.structure() == lazyref[key], title, kind, svals, "guard", g, "constraint system depends on the index value")
    # out of range: one slot at a time, below and above
    for s in range(nslots):
        for bad in (-1, dims[slotdim[s]], dims[slotdim[s]] + 3, -7):
            svals = [0] * nslots; svals[s] = bad
            fresh()
            try:
                run_ops(kind, model0, ops, svals)
                check(False, title, kind, svals, "out-of-range index did not raise")
            except IndexError:
                check(True)
            fresh(); ignore_errors(True)
            try:
                run_ops(kind, model0, ops, svals)
                check(rec.structure() == ref, title, kind, svals, "ignore_errors: constraint system differs")
                check(rec.unsatisfied() != [], title, kind, svals, "out-of-range index satisfies all constraints")
            except Exception as e:
                check(False, title, kind, svals, "ignore_errors: raised", repr(e))
            ignore_errors(False)
            # not-taken lazy branch: must be provable and identical in structure
            fresh()
            try:
                run_ops(kind, model0, ops, svals, lazy=0)
                check(rec.unsatisfied() == [], title, kind, svals, "untaken branch, out of range: unsatisfied")
                check(rec.structure() == lazyref[(title, kind, 0)], title, kind, svals, "untaken branch: constraint system differs")
            except Exception as e:
                check(False, title, kind, svals, "untaken branch raised", repr(e))
            # taken lazy branch: must raise
            fresh()
            try:
                run_ops(kind, model0, ops, svals, lazy=1)
                check(False, title, kind, svals, "taken branch with out-of-range index did not raise")
            except IndexError:
                check(True)
    fresh()

lazyref = {}
S0, S1, S2 = ('S', 0), ('S', 1), ('S', 2)
def Pi(k): return ('P', k)

V = [3, 4, 5, 6]
M = [[1, 2, 3], [4, 5, 6], [7, 8, 9]]
M2 = [[1, 2], [3, 4], [5, 6]]
T = [[[1, 2], [3, 4]], [[5, 6], [7, 8]]]

for kind in ('c', 's', 'm', 'p'):
    # one-dimensional
    scenario("1d write const", kind, V, [('w', (S0,), ('c', 9)), ('r', (S1,), None)], 2)
    scenario("1d write secret", kind, V, [('w', (S0,), ('s', 9)), ('r', (S1,), None)], 2)
    scenario("1d write the constant that is already there", kind, [5, 4, 5, 5], [('w', (S0,), ('c', 5)), ('r', (S1,), None), ('w', (S1,), ('c', 4))], 2)
    scenario("1d write cell to cell", kind, V, [('w', (S0,), ('cell', (2,))), ('r', (S0,), None)], 1)
    scenario("1d two writes", kind, V, [('w', (S0,), ('c', 0)), ('w', (S1,), ('s', 0)), ('r', (S0,), None)], 2)
    scenario("1d length one", kind, [7], [('w', (S0,), ('c', 7)), ('w', (S0,), ('c', 8)), ('r', (S0,), None)], 1)
    scenario("1d negative contents", kind, [-1, 0, -1], [('w', (S0,), ('c', -1)), ('w', (S1,), ('s', -5)), ('r', (S0,), None)], 2)
    # rows
    scenario("row write const row", kind, M2, [('w', (S0,), ('row', 'c', [9, 9])), ('r', (S1,), None)], 2)
    scenario("row write secret row", kind, M2, [('w', (S0,), ('row', 's', [9, 4])), ('r', (S1, Pi(1)), None)], 2)
    scenario("row write partly equal const row", kind, M2, [('w', (S0,), ('row', 'c', [3, 2])), ('r', (S1,), None)], 2)
    scenario("row write own row", kind, M, [('w', (S0,), ('cell', (0,))), ('r', (S0,), None)], 1)
    scenario("row write mixed row", kind, M, [('w', (S0,), ('row', 'm', [7, 5, 3])), ('w', (Pi(1),), ('row', 'c', [0, 0, 0])), ('r', (S0, S1), None)], 2)
    # cells of matrices
    scenario("2d secret/secret", kind, M2, [('w', (S0, S1), ('c', 9)), ('r', (S0, S1), None)], 2)
    scenario("2d secret/secret same const", kind, [[5, 5], [5, 1]], [('w', (S0, S1), ('c', 5)), ('r', (S0, S1), None)], 2)
    scenario("2d public/secret", kind, M2, [('w', (Pi(1), S0), ('s', 9)), ('r', (S1, Pi(0)), None)], 2)
    scenario("2d secret/public", kind, M2, [('w', (S0, Pi(1)), ('c', 4)), ('r', (Pi(2), S1), None)], 2)
    scenario("2d write then row write", kind, M2, [('w', (S0, S1), ('s', 0)), ('w', (S0,), ('cell', (1,))), ('r', (S2,), None)], 3)
scenario("3d", 'c', T, [('w', (S0, S1, S2), ('c', 6)), ('r', (S0, Pi(1), S2), None)], 3)
scenario("3d", 'm', T, [('w', (S0, Pi(0), S2), ('s', 6)), ('w', (S0,), ('cell', (1,))), ('r', (S0, S1, S2), None)], 3)

# ---- the shortcut keeps public constants public, and never anything else --------------------------------
fresh()
a = Array([5, 4, 5, PrivVal(5)])
a[PrivVal(1)] = 5
check(type(a.arr[0]) is int and type(a.arr[2]) is int and a.arr[0] == 5 and a.arr[2] == 5, "equal constants should stay integers", a)
check(isinstance(a.arr[1], LinComb) and a.arr[1].value == 5, "cell 1", a)
check(isinstance(a.arr[3], LinComb) and a.arr[3].value == 5, "secret cell stays a wire", a)
check(rec.unsatisfied() == [] and wires_ok(a), "shortcut run unsatisfied")
fresh()
big = int("1000000")                # not the same object as the cells below: equality, not identity, decides
a = Array([int("1000000"), 4, int("1000000"), -int("1000000")])
a[PrivVal(1)] = big
check(type(a.arr[0]) is int and type(a.arr[2]) is int and isinstance(a.arr[1], LinComb) and isinstance(a.arr[3], LinComb)
      and val(a) == [big, big, big, -big], "large equal constants", a)
check(rec.unsatisfied() == [] and wires_ok(a), "large constants run unsatisfied")
c0 = rt.num_constraints
r = a[PrivVal(2)]
check(r.value == big and rec.unsatisfied() == [] and rec.ev(r.lc) == big, "read after shortcut", r)
fresh()
a = Array([5, 4, 5])
a[PrivVal(1)] = PrivVal(5)          # a secret 5 is not the public constant 5
check(all(isinstance(x, LinComb) for x in a.arr) and val(a) == [5, 5, 5], "secret value written over equal constants", a)
check(rec.unsatisfied() == [] and wires_ok(a), "unsatisfied")
# a cheating prover cannot exploit kept constants: flip the selector witness and see a constraint fail
fresh()
a = Array([5, 4, 5])
n0 = len(rec.wit)
a[PrivVal(1)] = 5
r = a[PrivVal(0)]
check(rec.unsatisfied() == [], "honest run")
bad = 0
for w in range(1, len(rec.wit)):
    old = rec.wit[w]
    for nv in ((old + 1) % P, (old - 1) % P, 0, 1):
        if nv == old: continue
        rec.wit[w] = nv
        if rec.unsatisfied() == [] and (rec.ev(a.arr[1].lc) != 5 or rec.ev(r.lc) != 5): bad += 1
    rec.wit[w] = old
check(bad == 0, "single-wire modifications of the witness change an array cell and still satisfy all constraints:", bad)

# ---- brute force: array of length 3 with constants, every assignment of the wires from a small set -------
# (index wire, three selector outputs; the inverse hints are chosen freely by solving): no satisfying witness
# may give contents other than the model's.
def brute(contents, value):
    n = len(contents)
    seen = set()
    for idxv in range(-2, n + 2):
        fresh(); ignore_errors(True)
        a = Array(list(contents))
        i = PrivVal(idxv)
        try:
            a[i] = value
        except Exception as e:
            check(False, "brute: index", idxv, "with ignore_errors(True) raised", repr(e))
            continue
        sat = rec.unsatisfied() == []
        got = tuple(rec.ev(x.lc) if isinstance(x, LinComb) else x % P for x in a.arr)
        exp = tuple((value if k == idxv else c) % P for k, c in enumerate(contents))
        if 0 <= idxv < n:
            check(sat and got == exp, "brute", contents, value, idxv, got, exp)
        else:
            check(not sat, "brute: out-of-range index", idxv, "has a satisfying witness")
        seen.add(rec.structure())
    check(len(seen) == 1, "brute: constraint system depends on the index", contents, value)
    fresh()
for contents in ([5, 4, 5], [0, 0, 0], [1], [2, 2], [-3, 7, -3, 7]):
    for value in (5, 0, 2, -3, 7, 1):
        brute(contents, value)

# ---- shape errors: raise, array untouched -------------------------------------------------------------
def expect(exc, fn, what):
    try:
        fn()
        check(False, what, "did not raise")
    except exc:
        check(True)
    except Exception as e:
        check(False, what, "raised", repr(e), "instead of", exc)

for mode in ("plain", "ignore"):
    fresh(); ignore_errors(mode == "ignore")
    m = build('c', M2)
    before = val(m)
    ids = [id(r) for r in m.arr]
    def w1(): m[PrivVal(1)] = Array([1, 2, 3])
    def w2(): m[PrivVal(1)] = Array([1])
    def w3(): m[PrivVal(1)] = 5
    def w4(): m[PrivVal(1)] = PrivVal(5)
    expect(ValueError, w1, "longer row")
    expect(ValueError, w2, "shorter row")
    expect(TypeError, w3, "scalar over row")
    expect(TypeError, w4, "secret scalar over row")
    check(val(m) == before and [id(r) for r in m.arr] == ids, "rejected write modified the matrix", val(m))
    v = build('c', V)
    def w5(): v[PrivVal(1)] = Array([1, 2])
    expect(TypeError, w5, "row over scalar")
    check(val(v) == V, "rejected write modified the vector")
    # ragged matrix: rows of other lengths than the value are never silently cut
    rg = Array([Array([1, 2, 3]), Array([4, 5])])
    def w6(): rg[PrivVal(1)] = Array([7, 8])
    expect(ValueError, w6, "ragged matrix")
    check(val(rg) == [[1, 2, 3], [4, 5]], "ragged matrix modified", val(rg))
    ignore_errors(False)
fresh()

# ---- aliasing: rows produced by a secret write are fresh objects ------------------------------------------
fresh()
m = build('c', M2)
row = Array([9, 9])
m[PrivVal(0)] = row
m[0, PrivVal(1)] = 1
check(val(row) == [9, 9], "the written row object is shared with the matrix", val(row))
check(val(m) == [[9, 1], [3, 4], [5, 6]], val(m))
m[PrivVal(2)] = m.arr[1]
m[1, PrivVal(0)] = 0
check(val(m) == [[9, 1], [0, 4], [3, 4]], "rows share cells after a move", val(m))
check(rec.unsatisfied() == [] and wires_ok(m), "aliasing run unsatisfied")

print("checks:", nchecks, "failures:", len(failures))
sys.exit(1 if failures else 0)
