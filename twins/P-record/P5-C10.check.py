#!/usr/bin/env python
"""
P.check.py - checks property C10 (snarkjs files encode exactly the traced circuit and a valid
witness) on the tree found via PYTHONPATH, with emphasis on the mechanisms changed by P:
measured section lengths, table-driven wire numbering, to_bytes field elements, sorted factors.

Exit code 0 iff the property was observed to hold in every scenario.

Scenarios
  1. exhaustive: every creation history of up to 4 public/private values, with a constraint added after
     every creation (so constraints are added before later public values exist), for several rotations
     of the value/coefficient classes (negative, >= p, multiples of p, wider than 256 bits, zero...)
  2. random: ~400 random histories / constraint systems built with the backend's own
     LinearCombination algebra (+, -, *, neg; so dictionary orders vary), incl. empty combinations
  3. degenerate: empty program; only public; only private; only constraints on the constant
  4. a real traced program through pysnark.runtime (snarkjs backend), written by an explicit prove()
  5. the same through the real exit path: child interpreter, files written by the atexit hook
"""
import json
import os
import random
import struct
import subprocess
import sys
import tempfile

os.environ["PYSNARK_BACKEND"] = "snarkjs"

P = 21888242871839275222246405745257275088548364400416034343698204186575808495617

failures = []
unsorted = [0]


def fail(scen, msg):
    failures.append((scen, msg))
    if len(failures) <= 25:
        print("FAIL [%s] %s" % (scen, msg))


# ---------------------------------------------------------------------------------------------
# strict decoders
# ---------------------------------------------------------------------------------------------
class Malformed(Exception):
    pass


def sections(data, magic, version, wanted):
    """ generic container: magic, version, nsections, (id, size, payload)*; nothing may be left over """
    if data[:4] != magic: raise Malformed("magic %r" % data[:4])
    if len(data) < 12: raise Malformed("truncated header")
    ver, nsec = struct.unpack_from("<II", data, 4)
    if ver != version: raise Malformed("version %d" % ver)
    pos = 12
    ret = {}
    order = []
    for _ in range(nsec):
        if pos + 12 > len(data): raise Malformed("section table runs past end of file")
        secid, size = struct.unpack_from("<IQ", data, pos)
        pos += 12
        if pos + size > len(data): raise Malformed("section %d declares %d bytes, only %d left" % (secid, size, len(data) - pos))
        if secid in ret: raise Malformed("section %d twice" % secid)
        ret[secid] = data[pos:pos + size]
        order.append(secid)
        pos += size
    if pos != len(data): raise Malformed("%d trailing bytes after the declared sections" % (len(data) - pos))
    if order != wanted: raise Malformed("sections %s, expected %s" % (order, wanted))
    return ret


def felem(buf, pos):
    val = int.from_bytes(buf[pos:pos + 32], "little")
    if val >= P: raise Malformed("non-canonical field element %x" % val)
    return val


def read_wtns(fname):
    secs = sections(open(fname, "rb").read(), b"wtns", 2, [1, 2])
    hdr = secs[1]
    if len(hdr) != 40: raise Malformed("wtns header section has %d bytes" % len(hdr))
    if struct.unpack_from("<I", hdr, 0)[0] != 32: raise Malformed("wtns field size")
    if int.from_bytes(hdr[4:36], "little") != P: raise Malformed("wtns prime")
    n = struct.unpack_from("<I", hdr, 36)[0]
    if len(secs[2]) != 32 * n: raise Malformed("wtns declares %d values, section holds %d bytes" % (n, len(secs[2])))
    return [felem(secs[2], 32 * i) for i in range(n)]


def read_r1cs(fname):
    secs = sections(open(fname, "rb").read(), b"r1cs", 1, [1, 2, 3])
    hdr = secs[1]
    if len(hdr) != 64: raise Malformed("r1cs header section has %d bytes" % len(hdr))
    if struct.unpack_from("<I", hdr, 0)[0] != 32: raise Malformed("r1cs field size")
    if int.from_bytes(hdr[4:36], "little") != P: raise Malformed("r1cs prime")
    nwires, npubout, npubin, nprvin, nlabels, ncons = struct.unpack_from("<IIIIQI", hdr, 36)
    body = secs[2]
    pos = 0
    cons = []
    for _ in range(ncons):
        con = []
        for _ in range(3):
            if pos + 4 > len(body): raise Malformed("constraint section too short for the declared %d constraints" % ncons)
            nfac = struct.unpack_from("<I", body, pos)[0]
            pos += 4
            if pos + 36 * nfac > len(body): raise Malformed("linear combination declares %d factors, section too short" % nfac)
            facs = []
            for _ in range(nfac):
                w = struct.unpack_from("<I", body, pos)[0]
                if w >= nwires: raise Malformed("wire %d >= nwires %d" % (w, nwires))
                facs.append((w, felem(body, pos + 4)))
                pos += 36
            con.append(facs)
        cons.append(con)
    if pos != len(body): raise Malformed("constraint section: %d bytes declared, %d used by %d constraints" % (len(body), pos, ncons))
    if len(secs[3]) != 8 * nwires: raise Malformed("label section has %d bytes for %d wires" % (len(secs[3]), nwires))
    return dict(nwires=nwires, npubout=npubout, npubin=npubin, nprvin=nprvin, nlabels=nlabels), cons


# ---------------------------------------------------------------------------------------------
# the property, given a trace
# ---------------------------------------------------------------------------------------------
def check_files(scen, pubs, privs, trace, satisfiable=True, dirname="."):
    """
    pubs, privs: values in creation order; trace: list of triples of dicts key->coefficient with the
    backend's keys (0 one, i>0 i-th public, -j j-th private).
    """
    nfail = len(failures)
    try:
        wit = read_wtns(os.path.join(dirname, "witness.wtns"))
        hdr, cons = read_r1cs(os.path.join(dirname, "circuit.r1cs"))
    except Malformed as e:
        fail(scen, "malformed file: %s" % e)
        return False
    except Exception as e:
        fail(scen, "cannot decode: %r" % e)
        return False

    npub, npriv = len(pubs), len(privs)
    nw = 1 + npub + npriv
    if hdr["nwires"] != nw: fail(scen, "nwires %d, traced %d" % (hdr["nwires"], nw))
    if hdr["npubout"] + hdr["npubin"] != npub: fail(scen, "declared publics %d+%d, traced %d" % (hdr["npubout"], hdr["npubin"], npub))

    # witness: one, publics in creation order, privates in creation order
    expwit = [1] + [v % P for v in pubs] + [v % P for v in privs]
    if wit != expwit:
        fail(scen, "witness differs from assignment: got %s expected %s" % (wit[:8], expwit[:8]))

    def wire(k): return k if k >= 0 else npub - k

    if len(cons) != len(trace):
        fail(scen, "%d constraints decoded, %d traced" % (len(cons), len(trace)))
    for (ci, (dec, tr)) in enumerate(zip(cons, trace)):
        for (li, (dfacs, tlc)) in enumerate(zip(dec, tr)):
            exp = {wire(k): v % P for (k, v) in tlc.items()}
            ws = [w for (w, _) in dfacs]
            if len(set(ws)) != len(ws):
                fail(scen, "constraint %d lc %d: wire listed twice: %s" % (ci, li, ws))
            if ws != sorted(ws):
                unsorted[0] += 1  # not part of the property; P claims ascending order, reported at the end
            if dict(dfacs) != exp or len(dfacs) != len(tlc):
                fail(scen, "constraint %d lc %d: decoded %s, traced %s" % (ci, li, dfacs, sorted(exp.items())))
        if satisfiable and len(wit) == hdr["nwires"]:
            a, b, c = [sum(v * wit[w] for (w, v) in facs) % P for facs in dec]
            if (a * b - c) % P != 0:
                fail(scen, "constraint %d not satisfied by the decoded witness" % ci)
    return len(failures) == nfail


# ---------------------------------------------------------------------------------------------
# driving the backend
# ---------------------------------------------------------------------------------------------
import pysnark.runtime as runtime  # noqa: E402  (selects the snarkjs backend via the environment)
import pysnark.snarkjsbackend as backend  # noqa: E402

if runtime.backend is not backend:
    print("snarkjs backend not in effect")
    sys.exit(2)
runtime.autoprove = False  # files are written by explicit prove() calls here; exit path tested in a child

trace = []
_orig_add = backend.add_constraint


def recording_add(v, w, y):
    trace.append([dict(v.lc), dict(w.lc), dict(y.lc)])
    _orig_add(v, w, y)


backend.add_constraint = recording_add

_orig_prove = backend.prove


def quiet_prove():
    """ prove() without its message on stderr """
    import io
    saved = sys.stderr
    sys.stderr = io.StringIO()
    try:
        _orig_prove()
    finally:
        sys.stderr = saved


backend.prove = quiet_prove


def reset():
    del backend.pubvals[:]
    del backend.privvals[:]
    del backend.constraints[:]
    del trace[:]


CLASSES = [0, 1, -1, 2, -2, P - 1, P, P + 1, -P, -P - 1, -P + 1, 2 * P, -3 * P, 3 * P - 1, 2**255, 2**256 - 1, 2**256,
           2**256 + 5, -2**256, 2**300 + 7, -2**300 - 7, (P - 1) // 2, (P + 1) // 2, -(P - 1) // 2, 2**253, 2**254, -2**254,
           255, 256, -256, 2**64 - 1, -2**64, 3 * (P - 1), -3 * (P - 1), 7 * P * P + 3, -7 * P * P - 3]


def valueof(lc, vals):
    """ integer value of a backend linear combination under assignment vals: key -> value """
    return sum(v * vals[k] for (k, v) in lc.lc.items())


def satisfied_constraint(a, b, c, vals):
    """ add constraint a*b = c' where c' is c shifted by a constant so that it holds """
    delta = valueof(a, vals) * valueof(b, vals) - valueof(c, vals)
    backend.add_constraint(a, b, c + backend.one() * delta)


def scen_exhaustive():
    n = 0
    for length in range(0, 5):
        for pattern in range(2 ** length):
            for rot in (0, 5, 11, 17, 23, 31):
                reset()
                ci = [rot]

                def nxt():
                    ci[0] += 1
                    return CLASSES[ci[0] % len(CLASSES)]
                vals = {0: 1}
                lcs = {0: backend.one()}
                for pos in range(length):
                    val = nxt()
                    if (pattern >> pos) & 1:
                        lc = backend.pubval(val)
                    else:
                        lc = backend.privval(val)
                    (key,) = lc.lc.keys()
                    vals[key] = val
                    lcs[key] = lc
                    # constraint over everything existing so far, added before later values are created
                    a = backend.zero()
                    b = backend.zero()
                    c = backend.zero()
                    for k in sorted(lcs, key=lambda k: (k * 7919) % 13):  # some non-monotone order
                        a = a + lcs[k] * nxt()
                        b = lcs[k] * nxt() + b
                        c = c - lcs[k] * nxt()
                    satisfied_constraint(a, b, c, vals)
                    backend.add_constraint(backend.zero(), lc, backend.zero())  # empty combinations
                backend.prove()
                check_files("exhaustive len=%d pattern=%s rot=%d" % (length, bin(pattern), rot),
                            list(backend.pubvals), list(backend.privvals), trace)
                n += 1
    return n


def scen_random(seed=20261004, runs=400):
    rnd = random.Random(seed)

    def rval():
        r = rnd.random()
        if r < 0.45: return rnd.choice(CLASSES)
        if r < 0.6: return rnd.randrange(-10, 10)
        if r < 0.8: return rnd.randrange(-P, 2 * P)
        return rnd.randrange(-2**520, 2**520)
    for run in range(runs):
        reset()
        vals = {0: 1}
        lcs = {0: backend.one()}

        def rlc():
            lc = backend.zero()
            if rnd.random() < 0.15: return lc
            for _ in range(rnd.randrange(0, 6)):
                k = rnd.choice(list(lcs))
                op = rnd.randrange(4)
                if op == 0: lc = lc + lcs[k] * rval()
                elif op == 1: lc = lcs[k] * rval() - lc
                elif op == 2: lc = -(lc - lcs[k])
                else: lc = (lc + lcs[k]) * rval()
            return lc
        for step in range(rnd.randrange(0, 12)):
            r = rnd.random()
            if r < 0.3:
                val = rval(); lc = backend.pubval(val)
            elif r < 0.6:
                val = rval(); lc = backend.privval(val)
            else:
                satisfied_constraint(rlc(), rlc(), rlc(), vals)
                continue
            (key,) = lc.lc.keys()
            vals[key] = val
            lcs[key] = lc
        backend.prove()
        check_files("random run %d" % run, list(backend.pubvals), list(backend.privvals), trace)
    return runs


def scen_degenerate():
    reset(); backend.prove()
    check_files("empty program", [], [], trace)
    reset(); backend.pubval(-1); backend.pubval(P); backend.prove()
    check_files("only publics", list(backend.pubvals), [], trace)
    reset(); backend.privval(-2**300); backend.privval(2**256); backend.prove()
    check_files("only privates", [], list(backend.privvals), trace)
    reset()
    backend.add_constraint(backend.one() * -3, backend.one() * (P + 2), backend.one() * -6)
    backend.add_constraint(backend.zero(), backend.zero(), backend.zero())
    backend.add_constraint(backend.one() * 0, backend.one() * P, backend.one() * (-2 * P))  # zero coefficients
    backend.prove()
    check_files("constants only", [], [], trace)
    # many factors in one combination, built back to front
    reset()
    lcs = [backend.privval(i - 20) for i in range(40)] + [backend.pubval(-i) for i in range(40)]
    acc = backend.zero()
    tot = 0
    for (i, lc) in reversed(list(enumerate(lcs))):
        acc = acc + lc * (i - 37)
        tot += (i - 37) * ((i - 20) if i < 40 else -(i - 40))
    backend.add_constraint(acc, backend.one(), backend.one() * tot)
    backend.prove()
    check_files("wide combination", list(backend.pubvals), list(backend.privvals), trace)
    return 5


PROGRAM = r'''
from pysnark.runtime import PrivVal, PubVal, LinComb
from pysnark.fixedpoint import PrivValFxp
from pysnark.branching import if_then_else
a = PrivVal(-7)
b = PrivVal(12)
c = a * b + 3              # negative product
pubin = PubVal(5)          # public value created after constraints on private wires
d = (c - pubin) * (c + pubin)
e = b / 4                  # exact division
f = b / 3                  # division by a constant: the coefficient is inverse(3), a large number
f2 = (b + 3) / pubin       # division by a wire
g = (a < b) & (b >= 12)
h = if_then_else(g, d, e)
i = b >> 2
j = (b % 5) + (a // 2)
k = PrivValFxp(-1.5) * PrivValFxp(2.25)
l = -3 * f                 # coefficient below -p
n = l * a                  # ... and it goes into a constraint
(l + 3 * f).assert_zero()  # cancelling coefficients: a zero factor
m = a ** 3
out1 = h.val()
out2 = m.val()
(d * 0).assert_zero()
'''


def scen_runtime():
    reset()
    exec(compile(PROGRAM, "<program>", "exec"), {"__name__": "program"})
    backend.prove()
    ok = check_files("runtime program", list(backend.pubvals), list(backend.privvals), trace)
    if len(trace) < 20: fail("runtime program", "suspiciously few constraints traced: %d" % len(trace))
    if not any(v < -P for con in trace for lc in con for v in lc.values()):
        fail("runtime program", "program was meant to produce a coefficient below -p")
    if not any(v < 0 for v in backend.privvals):
        fail("runtime program", "program was meant to produce negative witness values")
    return 1


CHILD = r'''
import os, json, sys
os.environ["PYSNARK_BACKEND"] = "snarkjs"
import pysnark.runtime
import pysnark.snarkjsbackend as backend
trace = []
orig = backend.add_constraint
def rec(v, w, y):
    trace.append([dict(v.lc), dict(w.lc), dict(y.lc)])
    orig(v, w, y)
backend.add_constraint = rec
''' + PROGRAM + r'''
json.dump({"pubs": [str(v) for v in backend.pubvals], "privs": [str(v) for v in backend.privvals],
           "trace": [[[[str(k), str(v)] for (k, v) in lc.items()] for lc in con] for con in trace]}, open("trace.json", "w"))
# files are written at interpreter exit
'''


def scen_atexit():
    d = tempfile.mkdtemp(prefix="c10check")
    open(os.path.join(d, "child.py"), "w").write(CHILD)
    res = subprocess.run([sys.executable, "child.py"], cwd=d, stdout=subprocess.PIPE, stderr=subprocess.PIPE)
    if res.returncode != 0:
        fail("atexit", "child failed: %s" % res.stderr.decode()[-500:])
        return 1
    if os.path.exists(os.path.join(d, "trace.json")) is False:
        fail("atexit", "no trace")
        return 1
    tr = json.load(open(os.path.join(d, "trace.json")))
    ctrace = [[{int(k): int(v) for (k, v) in lc} for lc in con] for con in tr["trace"]]
    if len(ctrace) < 20: fail("atexit", "suspiciously few constraints traced: %d" % len(ctrace))
    check_files("atexit", [int(v) for v in tr["pubs"]], [int(v) for v in tr["privs"]], ctrace, dirname=d)
    return 1


def main():
    work = tempfile.mkdtemp(prefix="c10files")
    os.chdir(work)
    n = 0
    n += scen_degenerate()
    n += scen_exhaustive()
    n += scen_random()
    n += scen_runtime()
    n += scen_atexit()
    if failures:
        print("%d failures in %d scenarios" % (len(failures), n))
        return 1
    print("property C10 observed to hold in %d scenarios" % n)
    print("note: %d decoded combinations had their factors not in ascending wire order%s"
          % (unsorted[0], "" if unsorted[0] else " (as P promises)"))
    return 0


if __name__ == "__main__":
    sys.exit(main())
