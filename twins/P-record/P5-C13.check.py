# P.check.py - exercises the lazily merged snarkjs LinearCombination (and, for completeness, the
# moduli / inverses of the other pure-Python backends).  Exits 0 iff the property C13 was observed to hold everywhere.
import itertools, os, random, struct, sys, types

os.environ["PYSNARK_BACKEND"] = "snarkjs"
import pysnark.runtime as runtime
runtime.autoprove = False
import pysnark.snarkjsbackend as be
from pysnark.runtime import PrivVal, PubVal, LinComb

assert runtime.backend is be, runtime.backend_name
P = 21888242871839275222246405745257275088548364400416034343698204186575808495617   # BN254 scalar field order
BLS = 52435875175126190479447740508185965837690552500527637822603658699938581184513  # BLS12-381 scalar field order
ED = 2**252 + 27742317777372353535851937790883648493                                  # ristretto/curve25519 group order

fails = []
def check(cond, *msg):
    if not cond:
        fails.append(msg)
        if len(fails) <= 20: print("FAIL:", *msg)

def is_prime(n):   # deterministic enough: 40 fixed Miller-Rabin bases
    if n < 2: return False
    for q in (2, 3, 5, 7, 11, 13, 17, 19, 23, 29, 31, 37):
        if n % q == 0: return n == q
    d, r = n-1, 0
    while d % 2 == 0: d //= 2; r += 1
    for a in list(range(2, 42)):
        x = pow(a, d, n)
        if x in (1, n-1): continue
        for _ in range(r-1):
            x = x*x % n
            if x == n-1: break
        else: return False
    return True

# ---------------------------------------------------------------- reference model
def canon(d): return {k: v % P for (k, v) in d.items() if v % P}
def m_add(a, b): return canon({k: a.get(k, 0)+b.get(k, 0) for k in set(a) | set(b)})
def m_sub(a, b): return canon({k: a.get(k, 0)-b.get(k, 0) for k in set(a) | set(b)})
def m_mul(a, s): return canon({k: v*s for (k, v) in a.items()})
def m_neg(a): return canon({k: -v for (k, v) in a.items()})
def ev(d, asg): return sum(v*asg[k] for (k, v) in d.items()) % P

# wires: 0 = constant one, 1 = public, -1/-2 = private
pub = be.pubval(5); pr1 = be.privval(-7); pr2 = be.privval(P+3)
WIRES = [0, 1, -1, -2]
leaves = [(be.one(), {0: 1}), (be.zero(), {}), (pub, {1: 1}), (pr1, {-1: 1}), (pr2, {-2: 1}),
          (be.LinearCombination({0: -2, -1: P+5, 1: 0}), canon({0: -2, -1: P+5}))]   # an unreduced hand-made leaf
SCAL = [0, 1, -1, 2, -3, P, P-1, P+1, -P, -P-4, 2**300+17, (P+1)//2]

def wellformed(lc):
    return isinstance(lc, dict) and all(isinstance(v, int) and 0 < v < P for v in lc.values()) and all(k in WIRES for k in lc)

def expand(pool):
    """ all one-step expressions over pool; every result is checked against the model and operands are re-checked """
    out = []
    def emit(obj, mod, ops):
        out.append((obj, mod, ops))
    for (a, ma) in pool:
        emit(-a, m_neg(ma), [(a, ma)])
        for s in SCAL: emit(a*s, m_mul(ma, s), [(a, ma)])
        for (b, mb) in pool:
            emit(a+b, m_add(ma, mb), [(a, ma), (b, mb)])
            emit(a-b, m_sub(ma, mb), [(a, ma), (b, mb)])
    return out

ASG_SMALL = [dict(zip(WIRES, (1,)+t)) for t in itertools.product([0, 1, 2, P-1], repeat=3)]   # wire 0 is always one
def verify(objs, how):
    rnd = random.Random(how)
    order = list(range(len(objs))); rnd.shuffle(order)        # read .lc in an arbitrary order
    for i in order:
        (obj, mod, ops) = objs[i]
        got = obj.lc
        check(wellformed(got), how, "result not reduced / has cancelled terms", got)
        check(canon(got) == mod, how, "wrong linear form", got, mod)
        for asg in (ASG_SMALL if i % 7 == 0 else ASG_SMALL[::13]):
            check(ev(got, asg) == ev(mod, asg), how, "wrong evaluation", got, asg)
        for (o, mo) in ops: check(canon(o.lc) == mo, how, "operand altered", o.lc, mo)
        check(obj.lc is got, how, ".lc not stable")

lvl1 = expand(leaves)
verify(lvl1, "level1")
for (o, mo) in leaves: check(canon(o.lc) == mo, "leaf altered", o.lc, mo)
rnd = random.Random(13)
pool2 = leaves + [(o, m) for (o, m, _) in rnd.sample(lvl1, 40)]
# a second copy of the same expressions that has NOT been read before being used as operand (pending parts)
fresh = expand(leaves)
pool2 += [(o, m) for (o, m, _) in rnd.sample(fresh, 40)]
lvl2 = expand(pool2)
verify(lvl2, "level2")
for (o, mo) in pool2: check(canon(o.lc) == mo, "level1 operand altered", o.lc, mo)
print("expression trees checked:", len(lvl1)+len(lvl2))

# ---------------------------------------------------------------- random DAGs with sharing, lazily / eagerly read
for seed in range(60):
    rnd = random.Random(seed)
    nodes = list(leaves)
    for step in range(rnd.choice([30, 300, 1200])):
        (a, ma) = rnd.choice(nodes[-8:] if rnd.random() < .7 else nodes); (b, mb) = rnd.choice(nodes)
        op = rnd.randrange(5)
        if op == 0: n = (a+b, m_add(ma, mb))
        elif op == 1: n = (a-b, m_sub(ma, mb))
        elif op == 2: n = (-a, m_neg(ma))
        elif op == 3:
            s = rnd.choice(SCAL); n = (a*s, m_mul(ma, s))
        else: n = (a+a, m_add(ma, ma))
        nodes.append(n)
        if rnd.random() < .05: check(canon(n[0].lc) == n[1], "dag", seed, step)
    for (o, mo) in rnd.sample(nodes, min(len(nodes), 80)) + nodes[-3:]:
        check(canon(o.lc) == mo, "dag final", seed)
        check(any(o is l for (l, _) in leaves) or all(0 < v < P for v in o.lc.values()), "dag unreduced", seed)

# long chains, repeated doubling, long scalar chains (no recursion limit, no blow-up)
xs = [be.privval(i) for i in range(6000)]
tot = sum(xs[1:], xs[0])
check(tot.lc == {-(i+3): 1 for i in range(6000)}, "chain sum")
d = pr1
for i in range(1000): d = d+d
check(d.lc == {-1: pow(2, 1000, P)}, "doubling", d.lc)
m = pub
for i in range(5000): m = m*3
check(m.lc == {1: pow(3, 5000, P)}, "mul chain")
z = pub
for i in range(700): z = z - z*1
check(z.lc == {}, "cancellation", z.lc)
check(pr1.lc == {-1: 1} and pub.lc == {1: 1}, "wires altered")
check((be.one()*0).lc == {} and (pub*P).lc == {} and (pub-pub).lc == {}, "zero terms are dropped")

# ---------------------------------------------------------------- end to end through the runtime
base = len(be.constraints)
one_before = dict(LinComb.ONE.lc.lc); zero_before = dict(LinComb.ZERO.lc.lc)
a = PubVal(11); b = PrivVal(-5); c = PrivVal(3)
vals = [a*b+c, (a+b)*(c-7), a/1, (a*6)/-3, (b*c) % 4, a//c, a & 9, a >> 1, a < b, (a == 11), abs(b), a**3 - 2*b + 1,
        sum([a, b, c]*40), (a-b)*0 + 5, -(-a), a*(P+2) - a*P, (a < c) | (c < a), b.check_zero(), (b+5).check_zero()]
wit = {0: 1}
for (i, v) in enumerate(be.pubvals): wit[i+1] = v % P
for (i, v) in enumerate(be.privvals): wit[-(i+1)] = v % P
def evw(lcobj): return sum(co*wit[k] for (k, co) in lcobj.lc.items()) % P
for v in vals:
    lcv = v if isinstance(v, LinComb) else getattr(v, "lc", None)
    if isinstance(lcv, LinComb):
        check(evw(lcv.lc) == lcv.value % P, "runtime value differs from its linear combination", lcv.value)
ncons = 0
for (v, w, y) in be.constraints[base:]:
    ncons += 1
    check(evw(v)*evw(w) % P == evw(y), "recorded constraint not satisfied by the witness", v.lc, w.lc, y.lc)
check(ncons > 50, "too few constraints recorded", ncons)
check(LinComb.ONE.lc.lc == one_before == {0: 1} and LinComb.ZERO.lc.lc == zero_before == {}, "shared constants altered")

# write the files and read the constraint system back from circuit.r1cs / witness.wtns
be.prove()
r = open("circuit.r1cs", "rb").read(); w = open("witness.wtns", "rb").read()
def u(buf, off, n): return int.from_bytes(buf[off:off+n], "little")
check(u(r, 28, 32) == P and u(w, 28, 32) == P, "modulus in files")
nw = u(w, 60, 4); wv = [u(w, 76+32*i, 32) for i in range(nw)]
check(nw == len(be.pubvals)+len(be.privvals)+1 and wv[0] == 1, "witness header")
nvars = u(r, 60, 4); ncs = u(r, 84, 4); off = 88+12
check(ncs == len(be.constraints), "constraint count")
seclen = u(r, 92, 8); start = off
for ci in range(ncs):
    tot3 = []
    for part in range(3):
        n = u(r, off, 4); off += 4; acc = 0
        for t in range(n):
            k = u(r, off, 4); co = u(r, off+4, 32); off += 36
            check(0 < co < P and k < nvars, "coefficient in file", ci, k, co)
            acc += co*wv[k]
        tot3.append(acc % P)
    check(tot3[0]*tot3[1] % P == tot3[2], "constraint read back from circuit.r1cs is not satisfied", ci)
check(off-start == seclen, "section length", off-start, seclen)
print("constraints checked:", ncons, "in memory,", ncs, "from circuit.r1cs")

# ---------------------------------------------------------------- moduli and inverses of every pure-Python backend
import shutil
fb = types.ModuleType("flatbuffers"); fbc = types.ModuleType("flatbuffers.compat")
fbc.import_numpy = lambda: None; fb.compat = fbc
try: import flatbuffers
except ImportError: sys.modules["flatbuffers"] = fb; sys.modules["flatbuffers.compat"] = fbc
import pysnark.qaptools.options as qopt
check(qopt.vc_p == P, "qaptools modulus")
ARGS = [1, 2, 3, -1, -2, -3, P-1, P+1, -P-1, 2*P+5, -7*P+2, 2**255, -2**255, 12345678901234567890, (P+1)//2, 2**300+1]
def check_backend(mod, expect, name):
    q = mod.get_modulus()
    check(q == expect and is_prime(q), name, "modulus", q)
    for x in ARGS + [random.Random(1).randrange(-q*q, q*q) | 1 for _ in range(50)]:
        if x % q == 0: continue
        i = mod.fieldinverse(x)
        check(isinstance(i, int) and 0 < i < q and i*x % q == 1, name, "inverse", x, i)
    x = mod.privval(4); y = mod.pubval(9); o = mod.one()
    e = (x*5 - y*(q+2) + o*-3)*-2 + (x - x) + mod.zero()
    lc = {k: v % q for (k, v) in e.lc.items() if v % q}
    check(lc == {-len(mod.privvals): (-10) % q, len(mod.pubvals): 4, 0: 6}, name, "algebra", lc)
check_backend(be, P, "snarkjs")
import importlib
for (nm, expect) in [("pysnark.zkinterface.backend", P), ("pysnark.zkinterface.backendbellman", BLS),
                     ("pysnark.zkinterface.backendbulletproofs", ED)]:
    for k in [k for k in sys.modules if k.startswith("pysnark.zkinterface.backend")]: del sys.modules[k]
    check_backend(importlib.import_module(nm), expect, nm)

if fails:
    print(len(fails), "violations")
    sys.exit(1)
print("OK: property C13 observed to hold everywhere")
