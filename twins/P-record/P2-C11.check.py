"""Evidence program for change P (property C11, zkinterface files). See P.notes.md."""
# ---------------------------------------------------------------------------
# Shared part: a small FlatBuffers writer (stand-in for the `flatbuffers`
# package, which is not installed) and an INDEPENDENT reader for zkinterface
# files.  The writer follows the layout rules of the reference Python Builder
# (back-to-front construction, vtables, alignment, size prefix); the reader
# shares no code with it and bounds-checks every access.
# ---------------------------------------------------------------------------
import os, struct, sys, types

MODULI = {
    'zkinterface':      21888242871839275222246405745257275088548364400416034343698204186575808495617,
    'zkifbellman':      52435875175126190479447740508185965837690552500527637822603658699938581184513,
    'zkifbulletproofs': 7237005577332262213973186563042994240857116359379907606001950938285454250989,
}


def install_flatbuffers_stub():
    if 'flatbuffers' in sys.modules:
        return
    fb = types.ModuleType('flatbuffers')
    compat = types.ModuleType('flatbuffers.compat')
    compat.import_numpy = lambda: None
    nt = types.ModuleType('flatbuffers.number_types')

    class UOffsetTFlags:
        bytewidth = 4
        py_type = staticmethod(int)
    nt.UOffsetTFlags = UOffsetTFlags

    class Builder:
        def __init__(self, initialSize=1024):
            self.data = bytearray()      # bytes from the current head to the end of the buffer
            self.minalign = 1
            self.nested = False
            self.vtable = None
            self.objectEnd = None
            self.vtables = {}
            self.finished = False
            self.vectorNumElems = None

        def Offset(self):
            return len(self.data)

        def Pad(self, n):
            if n:
                self.data[0:0] = bytes(n)

        def Prep(self, size, additional):
            if size > self.minalign:
                self.minalign = size
            self.Pad((-(len(self.data) + additional)) % size)

        def Place(self, fmt, x):
            self.data[0:0] = struct.pack(fmt, x)

        def _prepend(self, fmt, size, x):
            self.Prep(size, 0)
            self.Place(fmt, x)

        def PrependByte(self, x): self._prepend('<B', 1, x)
        def PrependUint8(self, x): self._prepend('<B', 1, x)
        def PrependBool(self, x): self._prepend('<B', 1, 1 if x else 0)
        def PrependUint16(self, x): self._prepend('<H', 2, x)
        def PrependUint32(self, x): self._prepend('<I', 4, x)
        def PrependInt32(self, x): self._prepend('<i', 4, x)
        def PrependUint64(self, x): self._prepend('<Q', 8, x)

        def PrependUOffsetTRelative(self, off):
            self.Prep(4, 0)
            assert off <= self.Offset(), "offset out of range"
            self.Place('<I', self.Offset() - off + 4)

        def StartVector(self, elemSize, numElems, alignment):
            assert not self.nested
            self.nested = True
            self.vectorNumElems = numElems
            self.Prep(4, elemSize * numElems)
            self.Prep(alignment, elemSize * numElems)
            return self.Offset()

        def EndVector(self, numElems=None):
            assert self.nested
            self.nested = False
            self.Place('<I', self.vectorNumElems if numElems is None else numElems)
            self.vectorNumElems = None
            return self.Offset()

        def StartObject(self, numfields):
            assert not self.nested
            self.vtable = [0] * numfields
            self.objectEnd = self.Offset()
            self.nested = True

        def Slot(self, n):
            assert self.nested
            self.vtable[n] = self.Offset()

        def PrependUOffsetTRelativeSlot(self, o, x, d):
            if x != d:
                self.PrependUOffsetTRelative(x)
                self.Slot(o)

        def PrependUint8Slot(self, o, x, d):
            if x != d:
                self.PrependUint8(x); self.Slot(o)

        def PrependBoolSlot(self, o, x, d):
            if x != d:
                self.PrependBool(x); self.Slot(o)

        def PrependUint64Slot(self, o, x, d):
            if x != d:
                self.PrependUint64(x); self.Slot(o)

        def EndObject(self):
            assert self.nested
            self.PrependInt32(0)                     # placeholder for the vtable soffset
            objectOffset = self.Offset()
            vt = list(self.vtable)
            while vt and vt[-1] == 0:
                vt.pop()
            entries = [(objectOffset - f) if f else 0 for f in vt]
            image = struct.pack('<%dH' % (len(entries) + 2), (len(entries) + 2) * 2,
                                objectOffset - self.objectEnd, *entries)
            existing = self.vtables.get(image)
            if existing is None:
                self.data[0:0] = image               # already 2-aligned: we are at a 4-aligned head
                existing = self.vtables[image] = self.Offset()
            pos = len(self.data) - objectOffset
            self.data[pos:pos + 4] = struct.pack('<i', existing - objectOffset)
            self.nested = False
            self.vtable = None
            return objectOffset

        def _finish(self, root, sizePrefix):
            assert not self.nested
            self.Prep(self.minalign, 8 if sizePrefix else 4)
            self.PrependUOffsetTRelative(root)
            if sizePrefix:
                self.Place('<i', len(self.data))
            self.finished = True

        def Finish(self, root): self._finish(root, False)
        def FinishSizePrefixed(self, root): self._finish(root, True)

        def Output(self):
            assert self.finished
            return bytes(self.data)

    fb.Builder = Builder
    fb.compat = compat
    fb.number_types = nt
    sys.modules['flatbuffers'] = fb
    sys.modules['flatbuffers.compat'] = compat
    sys.modules['flatbuffers.number_types'] = nt


# ----------------------------- independent reader --------------------------
class Malformed(Exception):
    pass


class Reader:
    def __init__(self, data, lo, hi):
        self.d, self.lo, self.hi = data, lo, hi      # a message occupies d[lo:hi]
        self.base = lo - 4                           # alignment is relative to the size prefix

    def _get(self, fmt, n, pos):
        if pos < self.lo or pos + n > self.hi:
            raise Malformed("read of %d bytes at %d outside message [%d,%d)" % (n, pos, self.lo, self.hi))
        return struct.unpack_from(fmt, self.d, pos)[0]

    def u8(self, p): return self._get('<B', 1, p)
    def u16(self, p): return self._get('<H', 2, p)
    def u32(self, p): return self._get('<I', 4, p)
    def i32(self, p): return self._get('<i', 4, p)
    def u64(self, p): return self._get('<Q', 8, p)

    def indirect(self, p):
        if (p - self.base) % 4: raise Malformed("unaligned offset at %d" % (p - self.lo))
        return p + self.u32(p)

    def field(self, tab, i):
        """absolute position of field i of the table at tab, or None if absent"""
        if (tab - self.base) % 4: raise Malformed("unaligned table")
        vt = tab - self.i32(tab)
        vsize = self.u16(vt); tsize = self.u16(vt + 2)
        if vsize < 4 or vsize % 2: raise Malformed("bad vtable size %d" % vsize)
        if 4 + 2 * i >= vsize: return None
        off = self.u16(vt + 4 + 2 * i)
        if off == 0: return None
        if off < 4 or off >= tsize: raise Malformed("field offset %d outside table of size %d" % (off, tsize))
        return tab + off

    def vector(self, fpos, elem):
        v = self.indirect(fpos)
        n = self.u32(v)
        if v + 4 + n * elem > self.hi: raise Malformed("vector overruns message")
        if elem > 1 and (v + 4 - self.base) % elem: raise Malformed("unaligned vector data")
        return v + 4, n


def split_messages(data):
    out, pos = [], 0
    while pos < len(data):
        if pos + 4 > len(data): raise Malformed("truncated size prefix")
        size = struct.unpack_from('<I', data, pos)[0]
        if size < 8 or pos + 4 + size > len(data): raise Malformed("message size %d overruns file" % size)
        out.append((pos + 4, pos + 4 + size))
        pos += 4 + size
    return out


def read_variables(r, tab):
    """-> (ids, element_size, [int values] or None)"""
    ids, vals, esz = [], None, None
    f = r.field(tab, 0)
    if f is not None:
        p, n = r.vector(f, 8)
        ids = [r.u64(p + 8 * i) for i in range(n)]
    f = r.field(tab, 1)
    if f is not None:
        p, n = r.vector(f, 1)
        raw = bytes(r.d[p:p + n])
        if ids:
            if n % len(ids): raise Malformed("values length %d is no multiple of %d ids" % (n, len(ids)))
            esz = n // len(ids)
            vals = [int.from_bytes(raw[i * esz:(i + 1) * esz], 'little') for i in range(len(ids))]
        else:
            if n: raise Malformed("values without ids")
            esz, vals = 0, []
    if r.field(tab, 2) is not None: raise Malformed("unexpected Variables.info")
    return ids, esz, vals


def decode_file(data):
    """-> list of messages: ('header', {...}) / ('witness', {...}) / ('constraints', [...]); raw spans too"""
    msgs = []
    for lo, hi in split_messages(data):
        r = Reader(data, lo, hi)
        root = r.indirect(lo)
        tf = r.field(root, 0)
        mtype = r.u8(tf) if tf is not None else 0
        mf = r.field(root, 1)
        if mf is None: raise Malformed("root without message")
        tab = r.indirect(mf)
        raw = bytes(data[lo - 4:hi])
        if mtype == 1:
            iv = r.field(tab, 0)
            ids, esz, vals = read_variables(r, r.indirect(iv)) if iv is not None else ([], 0, [])
            ff = r.field(tab, 1)
            free = r.u64(ff) if ff is not None else 0
            mx = r.field(tab, 2)
            if mx is None: raise Malformed("header without field_maximum")
            p, n = r.vector(mx, 1)
            if r.field(tab, 3) is not None: raise Malformed("unexpected configuration")
            msgs.append(('header', dict(ids=ids, esz=esz, vals=vals, free=free,
                                        fmax=int.from_bytes(bytes(data[p:p + n]), 'little'), fmax_len=n), raw))
        elif mtype == 2:
            cons = []
            cf = r.field(tab, 0)
            if cf is not None:
                p, n = r.vector(cf, 4)
                for i in range(n):
                    bc = r.indirect(p + 4 * i)
                    abc = []
                    for k in range(3):
                        lf = r.field(bc, k)
                        if lf is None: raise Malformed("constraint lacks a linear combination")
                        abc.append(read_variables(r, r.indirect(lf)))
                    cons.append(abc)
            if r.field(tab, 1) is not None: raise Malformed("unexpected ConstraintSystem.info")
            msgs.append(('constraints', cons, raw))
        elif mtype == 3:
            af = r.field(tab, 0)
            ids, esz, vals = read_variables(r, r.indirect(af)) if af is not None else ([], 0, [])
            msgs.append(('witness', dict(ids=ids, esz=esz, vals=vals), raw))
        else:
            raise Malformed("unexpected message type %d" % mtype)
    return msgs


class PropertyViolation(Exception):
    pass


def need(cond, msg):
    if not cond:
        raise PropertyViolation(msg)


def check_files(comp, circ, p, pubvals, privvals, ref_constraints, must_satisfy, label):
    """The property C11 for one run.  ref_constraints: list of 3 dicts {variable id: integer coefficient}
    in zkinterface numbering (0 = one, 1..n public, n+1.. private), independently recorded."""
    n, m = len(pubvals), len(privvals)
    BL = (p.bit_length() + 7) // 8
    try:
        mc, mv = decode_file(comp), decode_file(circ)
    except (Malformed, struct.error) as e:
        raise PropertyViolation("%s: malformed file: %s" % (label, e))
    need([x[0] for x in mc] == ['header', 'witness', 'constraints'] or
         [x[0] for x in mc] == ['header', 'constraints', 'witness'],
         "%s: computation.zkif messages are %s" % (label, [x[0] for x in mc]))
    need([x[0] for x in mv] == ['header', 'constraints'],
         "%s: circuit.zkif messages are %s (must be header, constraints and NO witness)" % (label, [x[0] for x in mv]))
    byname = {x[0]: x for x in mc}
    for name, body, raw in mv:
        need(raw == byname[name][2], "%s: %s message differs between the two files" % (label, name))
    hdr = byname['header'][1]
    need(hdr['ids'] == list(range(1, n + 1)), "%s: instance ids %s, expected 1..%d" % (label, hdr['ids'], n))
    need(hdr['vals'] is not None and len(hdr['vals']) == n, "%s: instance values missing" % label)
    for i, (got, want) in enumerate(zip(hdr['vals'], pubvals)):
        need(got < p, "%s: instance variable %d has non-canonical value %d >= p (field_maximum is p-1)" % (label, i + 1, got))
        need(got == want % p, "%s: instance variable %d has value %d, expected %d" % (label, i + 1, got, want % p))
    need(hdr['free'] == n + m + 1, "%s: free_variable_id %d, expected %d" % (label, hdr['free'], n + m + 1))
    need(hdr['fmax'] == p - 1, "%s: field_maximum decodes to %d, expected p-1 = %d" % (label, hdr['fmax'], p - 1))
    need(hdr['fmax_len'] == BL, "%s: field_maximum has %d bytes, expected %d" % (label, hdr['fmax_len'], BL))
    wit = byname['witness'][1]
    need(wit['ids'] == list(range(n + 1, n + m + 1)), "%s: witness ids %s, expected %d..%d" % (label, wit['ids'], n + 1, n + m))
    for i, (got, want) in enumerate(zip(wit['vals'], privvals)):
        need(got < p, "%s: witness variable %d has non-canonical value %d >= p" % (label, n + 1 + i, got))
        need(got == want % p, "%s: witness variable %d has value %d, expected %d" % (label, n + 1 + i, got, want % p))
    assign = {0: 1}
    assign.update(zip(hdr['ids'], hdr['vals']))
    assign.update(zip(wit['ids'], wit['vals']))
    cons = byname['constraints'][1]
    need(len(cons) == len(ref_constraints), "%s: %d constraints in file, %d traced" % (label, len(cons), len(ref_constraints)))
    for ci, (abc, ref) in enumerate(zip(cons, ref_constraints)):
        ev = []
        for k in range(3):
            ids, esz, vals = abc[k]
            need(len(set(ids)) == len(ids), "%s: constraint %d %s repeats a variable id" % (label, ci, 'ABC'[k]))
            need(vals is not None, "%s: constraint %d %s has no coefficients" % (label, ci, 'ABC'[k]))
            need(esz <= BL, "%s: constraint %d %s uses %d-byte elements" % (label, ci, 'ABC'[k], esz))
            for v, c in zip(ids, vals):
                need(v in assign, "%s: constraint %d %s mentions unknown variable %d" % (label, ci, 'ABC'[k], v))
                need(c < p, "%s: constraint %d %s: coefficient of variable %d is %d, not a canonical field element (>= p)"
                     % (label, ci, 'ABC'[k], v, c))
            got = {v: c for v, c in zip(ids, vals) if c}
            want = {v: c % p for v, c in ref[k].items() if c % p}
            need(got == want, "%s: constraint %d %s decodes to %s, traced %s" % (label, ci, 'ABC'[k], got, want))
            ev.append(sum(assign[v] * c for v, c in zip(ids, vals)) % p)
        if must_satisfy:
            need(ev[0] * ev[1] % p == ev[2], "%s: decoded assignment violates decoded constraint %d: %d*%d != %d"
                 % (label, ci, ev[0], ev[1], ev[2]))
    return mv


# ------------------------- driving pysnark ---------------------------------
class Session:
    """Binds pysnark.runtime to one zkinterface configuration and records, independently of the
    backend's own lists, every variable allocation and every constraint that the runtime emits."""

    def __init__(self, cfg):
        install_flatbuffers_stub()
        os.environ['PYSNARK_BACKEND'] = cfg
        import pysnark.runtime as rt
        import pysnark.zkinterface.backend as zb
        rt.autoprove = False
        self.rt, self.zb, self.cfg, self.p = rt, zb, cfg, MODULI[cfg]
        assert rt.backend_name == cfg, rt.backend_name
        be = rt.backend
        self.be = be
        orig_pub, orig_priv, orig_add = be.pubval, be.privval, be.add_constraint
        ses = self

        def pubval(val):
            ses.log.append(('pub', val)); return orig_pub(val)

        def privval(val):
            ses.log.append(('priv', val)); return orig_priv(val)

        def add_constraint(v, w, y):
            ses.cons.append(tuple(dict(x.lc) for x in (v, w, y))); return orig_add(v, w, y)
        be.pubval, be.privval, be.add_constraint = pubval, privval, add_constraint
        self.reset()

    def reset(self):
        zb = self.zb
        zb.privvals.clear(); zb.pubvals.clear(); zb.constraints.clear()
        self.log, self.cons = [], []
        self.rt.ignore_errors(False)
        self.rt.guard = None
        self.rt.bitlength = 16

    def finish(self, label, must_satisfy=True):
        """writes the two files, checks the property, returns the bytes of circuit.zkif"""
        need(self.be.get_modulus() == self.p, "%s: get_modulus() is not the configured field" % label)
        pub = [v for k, v in self.log if k == 'pub']
        priv = [v for k, v in self.log if k == 'priv']
        n = len(pub)
        # the backend's symbolic names: k>0 public number k, k<0 private number -k, 0 the constant one
        ref = [tuple({(k if k >= 0 else n - k): c for k, c in lc.items()} for lc in con) for con in self.cons]
        for name in ('computation.zkif', 'circuit.zkif'):
            if os.path.exists(name): os.remove(name)
        devnull = open(os.devnull, 'w')
        so, se = sys.stdout, sys.stderr
        sys.stdout = sys.stderr = devnull
        try:
            self.be.prove()
        finally:
            sys.stdout, sys.stderr = so, se
            devnull.close()
        comp = open('computation.zkif', 'rb').read()
        circ = open('circuit.zkif', 'rb').read()
        check_files(comp, circ, self.p, pub, priv, ref, must_satisfy, label)
        return circ

# ---------------------------------------------------------------------------
# P.check.py proper
# ---------------------------------------------------------------------------
import itertools, random, shutil, subprocess, tempfile

CONFIGS = ['zkinterface', 'zkifbellman', 'zkifbulletproofs']


def programs(s):
    """(name, function(priv, pub), list of (priv, pub) inputs, must_satisfy)."""
    rt, p = s.rt, s.p
    from pysnark.branching import if_then_else
    from pysnark.boolean import PrivValBool, PubValBool
    from pysnark.fixedpoint import PrivValFxp, PubValFxp
    P, U = rt.PrivVal, rt.PubVal
    out = []

    def arith(priv, pub):
        x, y = map(P, priv); k = U(pub[0])
        z = x * y + k * x - 3 * y + 7
        w = z * z
        (w - w + k).val()                      # output depends on the public value only
        (y + x) * (x + y); (k + x + 1) * (1 + x + k)
    out.append(('arith', arith, [((3, 4), (5,)), ((-3, 9), (5,)), ((0, 0), (5,)), ((p - 1, p + 2), (5,)),
                                 ((2 ** 127, 2 ** 127), (5,)), ((-2 ** 300, 2 ** 256 + 1), (5,)),
                                 ((3, 4), (-1,)), ((3, 4), (p,)), ((3, 4), (2 ** 256 - 1,)), ((1, 1), (0,))], True))

    def compare(priv, pub):
        x, y = map(P, priv); k = U(pub[0])
        c = (x < y) & (x <= k) | (x == y)
        d = (y != k) ^ (x >= y) ^ (x > 2)
        (c & ~d)                               # stays private
        x.assert_lt(y + 1000); k.assert_ge(0)
    out.append(('compare', compare, [((a, b), (7,)) for a in (-5, 0, 7, 8) for b in (-5, 0, 7, 300)], True))

    def bits(priv, pub):
        x, y = map(P, priv); k = U(pub[0])
        r = (x & y) + (x | k) + (x ^ y) + (x >> 3) + (y << 2)
        b = x.to_bits(); rt.LinComb.from_bits(b[::2])
        (~x + r) * k
    out.append(('bits', bits, [((a, b), (9,)) for a in (0, 1, 255, 32767) for b in (0, 77, 32767)], True))

    def division(priv, pub):
        x, y = map(P, priv); k = U(pub[0])
        (x * y / y) * y; (x // y) + (x % y); divmod(x, k); (k * y / y); (x * 7 / 7) * 3; (x * 49 / 7)
        pow(y, 5); x ** 3
    out.append(('division', division, [((a, b), (4,)) for a in (0, 5, 12, 1000) for b in (1, 3, 4, 999)], True))

    def lazy(priv, pub):
        x, y = map(P, priv); k = U(pub[0])
        c = (y != 0)
        r = if_then_else(c, lambda: (y.assert_nonzero() or x * 6) / (y + 1 - c) + (x // (y + (y == 0))), lambda: x * x)   # failing assertion only under a false guard
        e = if_then_else(x < k, lambda: if_then_else(c, lambda: [x % (y + 1 - c), x], lambda: [y * y, y.assert_zero() or y]),
                         lambda: [x.assert_ge(k) or x, k * x])
        if_then_else(c, r, e[0]) * e[1]
    out.append(('lazy', lazy, [((a, b), (6,)) for a in (0, 5, 6, 60) for b in (0, 1, 3)], True))

    def errors(priv, pub):
        x, y = map(P, priv); k = U(pub[0])
        rt.ignore_errors(True)
        x.assert_lt(y); x.assert_eq(k); y.assert_nonzero(); (x / (y + 2)); (x / 3); x.to_bits(4); rt.LinComb.from_bits(x.to_bits(3))
        (x - y).assert_zero(); x.assert_range(0, 3)
    out.append(('errors', errors, [((a, b), (2,)) for a in (0, 2, 9, -4, 70000) for b in (0, 1, 9)], False))

    def fixed(priv, pub):
        a = PrivValFxp(priv[0] / 8.0); b = PrivValFxp(priv[1] / 8.0); k = PubValFxp(pub[0] / 4.0)
        c = a * b + k - a
        (c < k); (a * k) / (b + 100.0); abs(c)
        PrivValBool(priv[0] & 1) & PubValBool(pub[0] & 1) | PrivValBool(priv[1] & 1)
    out.append(('fixed', fixed, [((a, b), (3,)) for a in (-9, 0, 5, 40) for b in (-3, 1, 17)], True))

    def coeffs(priv, pub):
        x, y = map(P, priv); k = U(pub[0])
        t = x * (p + 3) + y * (p - 1) + k * p + x * (2 ** 256 + 7) - y * (2 ** 255) + (x << 254) + rt.ConstVal(p - 1) * k
        u = t * t
        (u * 0 + x * p + k).val()
        (x * -1 + y * -(p + 5) + -(2 ** 300)) * (y - y + 1 - 1)
    out.append(('coeffs', coeffs, [((3, 4), (5,)), ((-1, p), (5,)), ((2 ** 200, -2 ** 200), (5,)), ((3, 4), (p + 1,)),
                                   ((3, 4), (-7,))], True))

    def interleaved(priv, pub):
        x = P(priv[0]); a = U(pub[0]); t = x * a; y = P(priv[1]); b = U(pub[1]); u = (t + y) * (b - x)
        (u - u + a * 2 + b).val(); z = P(priv[0] + priv[1]); (z - x - y).assert_zero(); U(pub[0] * pub[1])
        (y * 1 + x * 1 + b * 1 + a * 1 + 1) * (a - 1 + b - y + x)
    out.append(('interleaved', interleaved, [((a, b), (2, 3)) for a in (-1, 0, 9, p) for b in (0, 4)] +
                [((1, 2), (0, 0)), ((1, 2), (-1, p - 1))], True))

    def onlypriv(priv, pub):
        x, y = map(P, priv); (x * y) * (x - y); (x == y)
    out.append(('onlypriv', onlypriv, [((a, b), ()) for a in (0, 3, -3) for b in (0, 3)], True))

    def onlypub(priv, pub):
        a = U(pub[0]); (a * 3 + 1).val(); rt.ConstVal(5).val()
    out.append(('onlypub', onlypub, [((), (a,)) for a in (0, 1, -1, p, p + 1, 2 ** 256 - 1, 2 ** 256)], True))

    def empty(priv, pub):
        pass
    out.append(('empty', empty, [((), ())], True))

    def novars(priv, pub):
        rt.add_constraint_unsafe(rt.ConstVal(3), rt.ConstVal(p + 4), rt.ConstVal(12)); rt.add_constraint(rt.ConstVal(-3), rt.ConstVal(4), rt.ConstVal(-12)); rt.LinComb.ZERO.assert_zero()
    out.append(('novars', novars, [((), ())], True))

    def brute(priv, pub):                       # exhaustive over a small witness domain
        x, y = map(P, priv); k = U(pub[0])
        t = x * y; u = (t + k) * x; c = (x <= y)
        if_then_else(c, lambda: (u * (x + 10)) / (x + 10), lambda: (u - y) * (u + y)) * (y - k)
    out.append(('brute', brute, [((a, b), (2,)) for a in range(-3, 4) for b in range(-3, 4)], True))
    return out


def fuzz_backend(s, seed):
    """Drives the backend module directly with random linear combinations; the STRUCTURE is drawn
    from `seed`, the private values from a second generator, so that the circuit file can be compared."""
    be, p = s.be, s.p
    special = [0, 1, -1, 2, p - 1, p, p + 1, -p, 2 * p - 1, 2 ** 255, 2 ** 256 - 1, 2 ** 256, 2 ** 300 + 17, -(2 ** 300)]
    circs = []
    for wseed in range(3):
        s.reset()
        sr, wr = random.Random(seed), random.Random(1000 * seed + wseed)
        pubdraw = random.Random(seed + 77)

        def coef():
            return sr.choice(special) if sr.random() < 0.5 else sr.randrange(-p, 3 * p)
        vals, lcs = {}, [be.one(), be.zero()]
        value = {id(lcs[0]): 1, id(lcs[1]): 0}
        keep = lcs[:]                                # keeps ids alive

        def lcval(lc):
            return value[id(lc)]

        def reg(lc, v):
            keep.append(lc); value[id(lc)] = v; lcs.append(lc); return lc
        for step in range(sr.randrange(5, 40)):
            op = sr.random()
            if op < 0.2:
                v = pubdraw.choice(special) if pubdraw.random() < 0.4 else pubdraw.randrange(-p, 2 * p)
                reg(be.pubval(v), v)
            elif op < 0.45:
                wr_special = wr.random() < 0.4
                v = wr.choice(special) if wr_special else wr.randrange(-p, 2 * p)
                reg(be.privval(v), v)
            elif op < 0.6:
                a, b = sr.choice(lcs), sr.choice(lcs); reg(a + b, lcval(a) + lcval(b))
            elif op < 0.7:
                a, b = sr.choice(lcs), sr.choice(lcs); reg(a - b, lcval(a) - lcval(b))
            elif op < 0.8:
                a, c = sr.choice(lcs), coef(); reg(a * c, lcval(a) * c)
            elif op < 0.85:
                a = sr.choice(lcs); reg(-a, -lcval(a))
            else:                                    # a satisfied constraint a*b = fresh witness (+ linear rest)
                a, b, r = sr.choice(lcs), sr.choice(lcs), sr.choice(lcs)
                shift = sr.choice([0, p, -p, 5 * p])
                w = lcval(a) * lcval(b) - lcval(r)
                w = w % p + shift if sr.random() < 0.5 else w
                c = reg(be.privval(w), w)
                be.add_constraint(a, b, c + r)
        circs.append(s.finish('fuzz seed %d witness %d' % (seed, wseed), True))
    need(circs[0] == circs[1] == circs[2], "fuzz seed %d: circuit.zkif depends on the private values" % seed)
    # unsatisfied / arbitrary constraints still have to be written faithfully
    s.reset()
    sr = random.Random(seed + 5000)
    lcs = [be.one(), be.zero()]
    for step in range(30):
        op = sr.random()
        if op < 0.25: lcs.append(be.pubval(sr.randrange(-p, 2 * p)))
        elif op < 0.5: lcs.append(be.privval(sr.randrange(-p, 2 * p)))
        elif op < 0.8: lcs.append(sr.choice(lcs) * sr.choice(special) + sr.choice(lcs) * sr.randrange(-p, p))
        else: be.add_constraint(sr.choice(lcs), sr.choice(lcs), sr.choice(lcs) - sr.choice(lcs))
    s.finish('fuzz (unsatisfied) seed %d' % seed, False)


def child(cfg):
    s = Session(cfg)
    runs = 0
    for name, fn, inputs, sat in programs(s):
        groups = {}
        for priv, pub in inputs:
            s.reset()
            fn(priv, pub)
            label = '%s/%s priv=%s pub=%s' % (cfg, name, priv, pub)
            circ = s.finish(label, sat)
            pubs = tuple(v for k, v in s.log if k == 'pub')
            groups.setdefault(pubs, []).append((label, circ))
            runs += 1
        for pubs, lst in groups.items():
            for label, circ in lst[1:]:
                need(circ == lst[0][1], "circuit.zkif differs between %s and %s although the public values are equal"
                     % (lst[0][0], label))
    for seed in range(40):
        fuzz_backend(s, seed)
        runs += 4
    print("%s: %d runs, property held" % (cfg, runs))


def main():
    if len(sys.argv) > 2 and sys.argv[1] == '--child':
        try:
            child(sys.argv[2])
        except PropertyViolation as e:
            print("PROPERTY C11 VIOLATED: %s" % e)
            sys.stdout.flush()
            os._exit(1)                  # skip pysnark's atexit hook
        return
    ok = True
    for cfg in CONFIGS:
        d = tempfile.mkdtemp(prefix='r6-C11-')
        try:
            r = subprocess.run([sys.executable, os.path.abspath(__file__), '--child', cfg], cwd=d)
            ok = ok and r.returncode == 0
        finally:
            shutil.rmtree(d, ignore_errors=True)
    print("C11 held in all cases" if ok else "C11 FAILED")
    sys.exit(0 if ok else 1)


if __name__ == '__main__':
    main()
