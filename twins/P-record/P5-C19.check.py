#!/usr/bin/env python
"""
P.check.py - exercises backend selection of pysnark.runtime (property C19) over a matrix of
configurations and compares every observation with an oracle written directly from the
property statement.

Dimensions
  * loadability pattern (8): the third-party pieces the optional backends need are provided as
    small stubs in the scratch directory, either working or "poisoned" (import raises):
      libsnark python module  -> libsnark, libsnarkgg
      flatbuffers             -> zkinterface, zkifbellman, zkifbulletproofs
      qapgen executable       -> qaptools                (QAPTOOLS_BIN with / without the tool)
    snarkjs and nobackend always load.
  * PYSNARK_BACKEND (14 values): unset, the 8 known names, unknown names ("bogus", "", wrong case,
    a module path, a name with a leading blank)
  * pre-imported backend modules: none, each single one, every ORDERED pair (65 sequences);
    pre-imports of an unloadable module fail (and are swallowed, as user code with try/except would)
  * interactive (get_ipython available) or not

Every configuration is a fresh import of pysnark.runtime: the exhaustive matrix is run by worker
processes (one per loadability pattern) that purge all pysnark / stub modules from sys.modules
between configurations; a sample of several hundred configurations is additionally run with one
brand-new interpreter per configuration, and must agree with the same oracle.

Exit status 0 iff every observation agrees with the oracle.
"""
import builtins
import contextlib
import importlib
import io
import itertools
import json
import os
import stat
import subprocess
import sys
from concurrent.futures import ThreadPoolExecutor

BN254 = 21888242871839275222246405745257275088548364400416034343698204186575808495617
BLS381 = 52435875175126190479447740508185965837690552500527637822603658699938581184513
CURVE25519 = 7237005577332262213973186563042994240857116359379907606001950938285454250989

# documented order, module, family the loadability depends on, documented field
ORDER = [
    ("libsnark",         "pysnark.libsnark.backend",                "L", BN254),
    ("libsnarkgg",       "pysnark.libsnark.backendgg",              "L", BN254),
    ("qaptools",         "pysnark.qaptools.backend",                "Q", BN254),
    ("snarkjs",          "pysnark.snarkjsbackend",                  "-", BN254),
    ("zkinterface",      "pysnark.zkinterface.backend",             "F", BN254),
    ("zkifbellman",      "pysnark.zkinterface.backendbellman",      "F", BLS381),
    ("zkifbulletproofs", "pysnark.zkinterface.backendbulletproofs", "F", CURVE25519),
    ("nobackend",        "pysnark.nobackend",                       "-", 10000),
]
NAMES = [o[0] for o in ORDER]
PATH = {o[0]: o[1] for o in ORDER}
FAMILY = {o[0]: o[2] for o in ORDER}
FIELD = {o[0]: o[3] for o in ORDER}
BASE_OF = {"libsnarkgg": "libsnark", "zkifbellman": "zkinterface", "zkifbulletproofs": "zkinterface"}
INTERFACE = ["privval", "pubval", "zero", "one", "fieldinverse", "get_modulus", "add_constraint", "prove"]

ENVS = [None] + NAMES + ["bogus", "", "SnarkJS", "pysnark.nobackend", " snarkjs"]
PRES = [()] + [(a,) for a in NAMES] + list(itertools.permutations(NAMES, 2))
PATTERNS = [frozenset(s) for n in range(4) for s in itertools.combinations("LFQ", n)]

def configs_for_worker():
    for env in ENVS:
        for pre in PRES:
            yield (env, pre, False)
            if len(pre) <= 1:
                yield (env, pre, True)

# ---------------------------------------------------------------------------------------------
# oracle: the property statement, nothing taken from the implementation
# ---------------------------------------------------------------------------------------------
def loadable(name, pattern):
    return FAMILY[name] == "-" or FAMILY[name] in pattern

def oracle(pattern, env, pre, interactive, blocked=()):
    """ returns dict(fail=bool, name, unknown_reported=bool, field, groth, skipped=[names reported as not loading]) """
    loaded = []            # names whose module is in sys.modules, in import order
    def do_import(nm):
        if not loadable(nm, pattern) or nm in blocked: return False
        if nm in BASE_OF and BASE_OF[nm] not in loaded: loaded.append(BASE_OF[nm])
        if nm not in loaded: loaded.append(nm)
        return True
    for nm in pre: do_import(nm)

    exp = dict(fail=False, name=None, unknown=False, skipped=[], stage=None)
    # 1. a backend module imported before the runtime is used
    for nm in NAMES:
        if nm in loaded:
            exp.update(name=nm, stage=1)
            break
    # 2. environment names a known backend: exactly that one, or a loud failure
    if exp["name"] is None and env is not None:
        if env in NAMES:
            if do_import(env): exp.update(name=env, stage=2)
            else:
                exp.update(fail=True, stage=2)
                return exp
        else:
            exp["unknown"] = True
    # 3. auto-detection only now
    if exp["name"] is None:
        if interactive and do_import("nobackend"):
            exp.update(name="nobackend", stage=3)
        else:
            for nm in NAMES:
                if do_import(nm):
                    exp.update(name=nm, stage=3)
                    break
                exp["skipped"].append(nm)
            else:
                exp.update(fail=True, stage=3)     # nothing can be loaded: there is no backend to report
                return exp
    # field in effect
    if FAMILY[exp["name"]] == "F":
        derived = [nm for nm in loaded if nm in ("zkifbellman", "zkifbulletproofs")]
        exp["field"] = FIELD[derived[-1]] if derived else BN254
    else:
        exp["field"] = FIELD[exp["name"]]
    if exp["stage"] != 1:
        assert exp["field"] == FIELD[exp["name"]]      # a named / detected backend works in its documented field
    exp["groth"] = "libsnarkgg" in loaded
    return exp

def compare(pattern, env, pre, interactive, obs, blocked=()):
    """ list of discrepancies between observation and oracle """
    exp = oracle(pattern, env, pre, interactive, blocked)
    bad = []
    out = obs["out"]
    if exp["fail"]:
        if "error" not in obs: bad.append("no backend can be selected but the runtime came up with " + str(obs.get("name")))
        return bad
    if "error" in obs:
        return ["runtime failed to import: " + obs["error"]]
    if obs["name"] != exp["name"]: bad.append("reported name %s, expected %s" % (obs["name"], exp["name"]))
    if obs["module"] != PATH[exp["name"]]: bad.append("module in effect %s, expected %s" % (obs["module"], PATH[exp["name"]]))
    if not obs["identity"]: bad.append("runtime.backend is not the module registered in sys.modules")
    if obs["modulus"] != exp["field"]: bad.append("field in effect %d, expected %d" % (obs["modulus"], exp["field"]))
    if obs["missing"]: bad.append("incomplete interface: " + str(obs["missing"]))
    if not obs["inverse_ok"]: bad.append("fieldinverse does not work in the field get_modulus reports")
    if obs["sink"] != 1: bad.append("selected backend received %d constraints for one multiplication" % obs["sink"])
    if obs["product"] != 15: bad.append("3*5 gave " + str(obs["product"]))
    if obs["groth"] is not None and obs["groth"] != exp["groth"]: bad.append("use_groth is %s" % obs["groth"])
    reported = "unknown backend" in out and (env or "") in out
    if exp["unknown"] and not reported: bad.append("unknown name was not reported")
    if not exp["unknown"] and "unknown backend" in out: bad.append("spurious 'unknown backend' report")
    for nm in NAMES:
        if interactive and nm == "nobackend" and nm in blocked: continue     # failed interactive default: a report is optional
        complained = ("Error loading backend " + PATH[nm] + ":") in out
        if complained != (nm in exp["skipped"]): bad.append("load error report for %s: %s" % (nm, complained))
    return bad

# ---------------------------------------------------------------------------------------------
# running one configuration inside the current interpreter
# ---------------------------------------------------------------------------------------------
PURGE = ("pysnark", "libsnark", "flatbuffers")

def purge():
    for m in list(sys.modules):
        if m.split(".")[0] in PURGE: del sys.modules[m]

def run_config(env, pre, interactive, blocked=()):
    _exit, _hook = sys.exit, sys.excepthook
    purge()
    for nm in blocked: sys.modules[PATH[nm]] = None      # import of such a module raises ImportError
    if env is None: os.environ.pop("PYSNARK_BACKEND", None)
    else: os.environ["PYSNARK_BACKEND"] = env
    if interactive: builtins.get_ipython = lambda: None
    elif hasattr(builtins, "get_ipython"): del builtins.get_ipython
    buf = io.StringIO()
    obs = {}
    with contextlib.redirect_stdout(buf), contextlib.redirect_stderr(buf):
        for nm in pre:
            try: importlib.import_module(PATH[nm])
            except Exception: pass
        try:
            rt = importlib.import_module("pysnark.runtime")
        except BaseException as e:
            obs["error"] = type(e).__name__ + ": " + str(e)
            rt = None
        if rt is not None:
            rt.autoprove = False
            be = rt.backend
            obs["name"] = rt.backend_name
            obs["module"] = getattr(be, "__name__", repr(be))
            obs["identity"] = sys.modules.get(obs["module"]) is be
            obs["missing"] = [f for f in INTERFACE if not callable(getattr(be, f, None))]
            if not obs["missing"]:
                p = obs["modulus"] = be.get_modulus()
                obs["inverse_ok"] = (rt.backend_name == "nobackend") or (be.fieldinverse(3) * 3 % p == 1 and be.fieldinverse(p - 2) * (p - 2) % p == 1)
                calls = []
                orig = be.add_constraint
                be.add_constraint = lambda v, w, y: (calls.append(1), orig(v, w, y))[1]
                prod = rt.PrivVal(3) * rt.PrivVal(5)
                be.add_constraint = orig
                obs["sink"] = len(calls)
                obs["product"] = prod.value
                for f in ("qape", "qapv", "qapvo"):
                    if getattr(be, f, None) is not None: getattr(be, f).close()
            else:
                obs.update(modulus=-1, inverse_ok=False, sink=-1, product=-1)
            lsb = sys.modules.get("pysnark.libsnark.backend")
            obs["groth"] = None if lsb is None else bool(lsb.use_groth)
    sys.exit, sys.excepthook = _exit, _hook
    obs["out"] = buf.getvalue()
    return obs

# ---------------------------------------------------------------------------------------------
# stubs
# ---------------------------------------------------------------------------------------------
LIBSNARK_STUB = '''
_p = %d
class ProtoboardPub:
    def __init__(self): self.vals = {}; self.cons = []; self.public = []
    def setval(self, v, val): self.vals[v.ix] = val
    def setpublic(self, v): self.public.append(v.ix)
    def add_r1cs_constraint(self, c): self.cons.append(c)
class PbVariable:
    ctr = 0
    def allocate(self, pb): PbVariable.ctr += 1; self.ix = PbVariable.ctr
class LinearCombination:
    def __init__(self, v=None):
        self.lc = {} if v is None else ({0: v} if isinstance(v, int) else {v.ix: 1})
    def _new(self, lc): r = LinearCombination(); r.lc = lc; return r
    def __add__(self, o): return self._new({k: self.lc.get(k, 0) + o.lc.get(k, 0) for k in set(self.lc) | set(o.lc)})
    def __sub__(self, o): return self + (-o)
    def __mul__(self, c): return self._new({k: v * c for (k, v) in self.lc.items()})
    def __neg__(self): return self * -1
class R1csConstraint:
    def __init__(self, a, b, c): self.abc = (a, b, c)
def fieldinverse(val): return pow(val, _p - 2, _p)
def get_modulus(): return _p
''' % BN254

FLATBUFFERS_STUB = '''
class Builder:
    def __init__(self, sz): raise NotImplementedError("flatbuffers stub cannot serialise")
'''

def write(path, text):
    os.makedirs(os.path.dirname(path), exist_ok=True)
    with open(path, "w") as f: f.write(text)

def make_stubs(root):
    write(os.path.join(root, "L_ok", "libsnark", "__init__.py"), "")
    write(os.path.join(root, "L_ok", "libsnark", "alt_bn128.py"), LIBSNARK_STUB)
    write(os.path.join(root, "L_bad", "libsnark", "__init__.py"), "raise ImportError('libsnark is not installed (poisoned stub)')\n")
    write(os.path.join(root, "F_ok", "flatbuffers", "__init__.py"), FLATBUFFERS_STUB)
    write(os.path.join(root, "F_ok", "flatbuffers", "compat.py"), "def import_numpy(): return None\n")
    write(os.path.join(root, "F_bad", "flatbuffers", "__init__.py"), "raise ImportError('flatbuffers is not installed (poisoned stub)')\n")
    exe = os.path.join(root, "Q_ok", "qapgen" + (".exe" if os.name == "nt" else ""))
    write(exe, "#!/bin/sh\nexit 0\n")
    os.chmod(exe, os.stat(exe).st_mode | stat.S_IXUSR | stat.S_IXGRP | stat.S_IXOTH)
    os.makedirs(os.path.join(root, "Q_bad"), exist_ok=True)

def child_env(root, pattern):
    env = dict(os.environ)
    paths = [os.path.join(root, "L_ok" if "L" in pattern else "L_bad"), os.path.join(root, "F_ok" if "F" in pattern else "F_bad")]
    if env.get("PYTHONPATH"): paths.append(env["PYTHONPATH"])
    env["PYTHONPATH"] = os.pathsep.join(paths)
    env["QAPTOOLS_BIN"] = os.path.join(root, "Q_ok" if "Q" in pattern else "Q_bad")
    for k in ("PYSNARK_BACKEND", "PYSNARK_KEYDIR", "PYSNARK_PROOFDIR", "QAPTOOLS_DEBUG"): env.pop(k, None)
    return env

# ---------------------------------------------------------------------------------------------
def worker():
    res = [[env, list(pre), inter, run_config(env, pre, inter)] for (env, pre, inter) in configs_for_worker()]
    sys.__stdout__.write(json.dumps(res))
    sys.__stdout__.flush()
    os._exit(0)

def single(arg):
    env, pre, inter, blocked = json.loads(arg)
    obs = run_config(env, pre, inter, blocked)
    sys.__stdout__.write(json.dumps(obs))
    sys.__stdout__.flush()
    os._exit(0)

def main():
    root = os.path.abspath("c19_stubs")
    make_stubs(root)
    me = os.path.abspath(__file__)
    work = os.path.abspath("c19_work")
    os.makedirs(work, exist_ok=True)
    failures = []
    total = 0

    def run_worker(pattern):
        r = subprocess.run([sys.executable, me, "--worker"], env=child_env(root, pattern), cwd=work, stdout=subprocess.PIPE, stderr=subprocess.PIPE, universal_newlines=True)
        if r.returncode != 0: return pattern, None, r.stderr[-2000:]
        return pattern, json.loads(r.stdout), None

    with ThreadPoolExecutor(max_workers=4) as ex:
        for (pattern, res, err) in ex.map(run_worker, PATTERNS):
            if res is None:
                failures.append("worker for pattern %s crashed: %s" % (sorted(pattern), err))
                continue
            stages = {}
            for (env, pre, inter, obs) in res:
                total += 1
                exp = oracle(pattern, env, tuple(pre), inter)
                stages[exp["stage"], exp["fail"]] = stages.get((exp["stage"], exp["fail"]), 0) + 1
                for b in compare(pattern, env, tuple(pre), inter, obs):
                    failures.append("loadable=%s PYSNARK_BACKEND=%r pre-imported=%s interactive=%s: %s" % (sorted(pattern), env, pre, inter, b))
            print("pattern %-15s %5d configurations; (stage, loud failure) counts: %s" % (sorted(pattern), len(res), sorted(stages.items())))

    # every selectable backend offers the complete interface (checked on each module directly, all stubs working)
    code = "import importlib, json; print(json.dumps({p: [f for f in %r if not callable(getattr(importlib.import_module(p), f, None))] for p in %r}))" % (INTERFACE, [o[1] for o in ORDER])
    r = subprocess.run([sys.executable, "-c", code], env=child_env(root, frozenset("LFQ")), cwd=work, stdout=subprocess.PIPE, stderr=subprocess.PIPE, universal_newlines=True)
    if r.returncode != 0: failures.append("interface scan crashed: " + r.stderr[-1000:])
    else:
        for (p, missing) in json.loads(r.stdout.strip().splitlines()[-1]).items():
            if missing: failures.append("backend module %s lacks %s" % (p, missing))

    # sample with one brand-new interpreter per configuration
    sample_pres = [(), ("snarkjs",), ("nobackend", "snarkjs"), ("zkifbellman",), ("libsnarkgg", "qaptools"), ("zkifbulletproofs", "zkifbellman")]
    sample = [(pat, env, pre, inter, ()) for pat in (frozenset(), frozenset("LFQ"), frozenset("F"), frozenset("LQ"))
              for env in ENVS for pre in sample_pres for inter in (False, True) if not (inter and len(pre) > 1)]
    # the always-loadable backends made unloadable too (sys.modules entry None), down to "nothing can be loaded at all"
    sample += [(pat, env, pre, inter, blocked) for pat in (frozenset(), frozenset("Q")) for env in ENVS for pre in ((), ("snarkjs",), ("nobackend",))
               for inter in (False, True) for blocked in (("snarkjs",), ("nobackend",), ("snarkjs", "nobackend"))]
    def run_single(cfg):
        pat, env, pre, inter, blocked = cfg
        r = subprocess.run([sys.executable, me, "--single", json.dumps([env, list(pre), inter, list(blocked)])], env=child_env(root, pat), cwd=work, stdout=subprocess.PIPE, stderr=subprocess.PIPE, universal_newlines=True)
        if r.returncode != 0: return cfg, None, r.stderr[-1000:]
        return cfg, json.loads(r.stdout), None
    with ThreadPoolExecutor(max_workers=8) as ex:
        for (cfg, obs, err) in ex.map(run_single, sample):
            total += 1
            pat, env, pre, inter, blocked = cfg
            if obs is None:
                failures.append("fresh interpreter crashed for %s: %s" % (cfg, err))
                continue
            for b in compare(pat, env, pre, inter, obs, blocked):
                failures.append("[fresh interpreter] loadable=%s blocked=%s PYSNARK_BACKEND=%r pre-imported=%s interactive=%s: %s" % (sorted(pat), blocked, env, pre, inter, b))
    print("fresh-interpreter sample: %d configurations" % len(sample))

    print("%d configurations checked, %d discrepancies" % (total, len(failures)))
    for f in failures[:40]: print("  FAIL", f)
    return 1 if failures else 0

if __name__ == "__main__":
    if len(sys.argv) > 1 and sys.argv[1] == "--worker": worker()
    elif len(sys.argv) > 2 and sys.argv[1] == "--single": single(sys.argv[2])
    else: sys.exit(main())
