import atexit, importlib, io, os, random, struct, sys, tempfile, types

# ----------------------------------------------------------------------------
# 1. A minimal stand-in for the `flatbuffers` package (not installed here).
#    It implements the real FlatBuffers wire format (back-to-front builder,
#    vtables, vectors, size-prefixed root) for the handful of Builder calls the
#    generated zkinterface modules and pysnark/zkinterface/backend.py make.
# ----------------------------------------------------------------------------

class _Builder:
    def __init__(self, initialSize=1024):
        self.Bytes = bytearray(max(int(initialSize), 8))
        self.head = len(self.Bytes)
        self.minalign = 1
        self.vtable = None
        self.objectEnd = None
        self.vecn = None
        self.nested = False
        self.finished = False

    def Offset(self): return len(self.Bytes) - self.head

    def _grow(self):
        old = self.Bytes
        self.Bytes = bytearray(len(old)) + old
        self.head += len(old)

    def Pad(self, n):
        for _ in range(n): self._place(b"\0")

    def _place(self, bs):
        self.head -= len(bs)
        self.Bytes[self.head:self.head + len(bs)] = bs

    def Prep(self, size, additional):
        if size > self.minalign: self.minalign = size
        align = (~(len(self.Bytes) - self.head + additional) + 1) & (size - 1)
        while self.head < align + size + additional: self._grow()
        self.Pad(align)

    def _prepend(self, fmt, size, x):
        self.Prep(size, 0)
        self._place(struct.pack(fmt, x))

    def PrependByte(self, x): self._prepend("<B", 1, x)
    def PrependUint8(self, x): self._prepend("<B", 1, x)
    def PrependUint16(self, x): self._prepend("<H", 2, x)
    def PrependUint32(self, x): self._prepend("<I", 4, x)
    def PrependInt32(self, x): self._prepend("<i", 4, x)
    def PrependUint64(self, x): self._prepend("<Q", 8, x)

    def PrependUOffsetTRelative(self, off):
        self.Prep(4, 0)
        assert off <= self.Offset(), "offset of an object not yet written"
        self._place(struct.pack("<I", self.Offset() - off + 4))

    def StartVector(self, elemSize, numElems, alignment):
        assert not self.nested
        self.nested = True
        self.vecn = numElems
        self.Prep(4, elemSize * numElems)
        self.Prep(alignment, elemSize * numElems)
        return self.Offset()

    def EndVector(self, numElems=None):
        assert self.nested
        self.nested = False
        self._place(struct.pack("<I", self.vecn if numElems is None else numElems))
        self.vecn = None
        return self.Offset()

    def StartObject(self, numfields):
        assert not self.nested
        self.nested = True
        self.vtable = [0] * numfields
        self.objectEnd = self.Offset()

    def Slot(self, o):
        assert self.nested
        self.vtable[o] = self.Offset()

    def PrependUOffsetTRelativeSlot(self, o, x, d):
        if x != d:
            self.PrependUOffsetTRelative(x)
            self.Slot(o)

    def PrependUint8Slot(self, o, x, d):
        if x != d:
            self.PrependUint8(x)
            self.Slot(o)

    def PrependUint64Slot(self, o, x, d):
        if x != d:
            self.PrependUint64(x)
            self.Slot(o)

    def PrependBoolSlot(self, o, x, d):
        self.PrependUint8Slot(o, int(bool(x)), int(bool(d)))

    def EndObject(self):
        assert self.nested
        self.PrependInt32(0)                       # placeholder for the vtable offset
        objectOffset = self.Offset()
        vt = list(self.vtable)
        while vt and vt[-1] == 0: vt.pop()
        for o in reversed(vt):
            self.PrependUint16(objectOffset - o if o != 0 else 0)
        self.PrependUint16(objectOffset - self.objectEnd)
        self.PrependUint16((len(vt) + 2) * 2)
        pos = len(self.Bytes) - objectOffset
        self.Bytes[pos:pos + 4] = struct.pack("<i", self.Offset() - objectOffset)
        self.vtable = None
        self.nested = False
        return objectOffset

    def Finish(self, root): self._finish(root, False)
    def FinishSizePrefixed(self, root): self._finish(root, True)

    def _finish(self, root, prefixed):
        assert not self.nested
        self.Prep(self.minalign, 8 if prefixed else 4)
        self.PrependUOffsetTRelative(root)
        if prefixed:
            self.PrependInt32(len(self.Bytes) - self.head)
        self.finished = True

    def Output(self):
        assert self.finished
        return self.Bytes[self.head:]


def install_flatbuffers_stub():
    if "flatbuffers" in sys.modules: return
    fb = types.ModuleType("flatbuffers")
    fb.Builder = _Builder
    compat = types.ModuleType("flatbuffers.compat")
    compat.import_numpy = lambda: None
    nt = types.ModuleType("flatbuffers.number_types")
    class UOffsetTFlags:
        py_type = int
    nt.UOffsetTFlags = UOffsetTFlags
    fb.compat = compat
    fb.number_types = nt
    sys.modules["flatbuffers"] = fb
    sys.modules["flatbuffers.compat"] = compat
    sys.modules["flatbuffers.number_types"] = nt

# ----------------------------------------------------------------------------
# 2. An independent, bounds-checked reader of zkinterface files (written from
#    zkinterface.fbs, does not use the generated modules).
# ----------------------------------------------------------------------------

class Malformed(Exception): pass

class _Buf:
    def __init__(self, b): self.b = bytes(b)
    def get(self, fmt, pos):
        n = struct.calcsize(fmt)
        if pos < 0 or pos + n > len(self.b): raise Malformed("read of %d bytes at %d outside a message of %d bytes" % (n, pos, len(self.b)))
        return struct.unpack_from(fmt, self.b, pos)[0]
    def u8(self, p): return self.get("<B", p)
    def u16(self, p): return self.get("<H", p)
    def u32(self, p): return self.get("<I", p)
    def i32(self, p): return self.get("<i", p)
    def u64(self, p): return self.get("<Q", p)

class _Table:
    def __init__(self, buf, pos):
        self.buf, self.pos = buf, pos
        self.vt = pos - buf.i32(pos)
        self.vtsize = buf.u16(self.vt)
        if self.vtsize < 4 or self.vtsize % 2: raise Malformed("bad vtable size %d" % self.vtsize)
        buf.u16(self.vt + self.vtsize - 2)
    def off(self, field):
        o = 4 + 2 * field
        if o >= self.vtsize: return 0
        return self.buf.u16(self.vt + o)
    def scalar(self, field, rd, default=0):
        o = self.off(field)
        return default if o == 0 else rd(self.pos + o)
    def indirect(self, field):
        o = self.off(field)
        if o == 0: return None
        p = self.pos + o
        return p + self.buf.u32(p)
    def table(self, field):
        p = self.indirect(field)
        return None if p is None else _Table(self.buf, p)
    def vector(self, field):
        """ (position of first element, number of elements) or None """
        p = self.indirect(field)
        if p is None: return None
        return (p + 4, self.buf.u32(p))

def _variables(t, what):
    """ Variables table -> (list of ids, list of values or None, element size) per zkinterface.fbs """
    if t is None: raise Malformed(what + ": Variables table missing")
    buf = t.buf
    ids = t.vector(0)
    ids = [] if ids is None else [buf.u64(ids[0] + 8 * i) for i in range(ids[1])]
    vals = t.vector(1)
    if vals is None: return ids, None, None
    raw = bytes(buf.u8(vals[0] + i) for i in range(vals[1]))
    if not ids:
        if raw: raise Malformed(what + ": values without variable ids")
        return ids, [], None
    if len(raw) % len(ids): raise Malformed(what + ": %d value bytes for %d variables" % (len(raw), len(ids)))
    w = len(raw) // len(ids)
    return ids, [int.from_bytes(raw[i * w:(i + 1) * w], "little") for i in range(len(ids))], w

def decode_file(data):
    """ bytes of a .zkif file -> list of (kind, payload, raw bytes of the message incl. size prefix) """
    out, pos = [], 0
    while pos < len(data):
        if pos + 4 > len(data): raise Malformed("trailing bytes without a size prefix")
        size = struct.unpack_from("<I", data, pos)[0]
        if size < 4 or pos + 4 + size > len(data): raise Malformed("size prefix %d exceeds the file" % size)
        raw = data[pos:pos + 4 + size]
        buf = _Buf(data[pos + 4:pos + 4 + size])
        root = _Table(buf, buf.u32(0))
        mtype = root.scalar(0, buf.u8)
        msg = root.table(1)
        if msg is None: raise Malformed("Root without message")
        if mtype == 1:
            ids, vals, w = _variables(msg.table(0), "instance_variables")
            fm = msg.vector(2)
            if fm is None: raise Malformed("header without field_maximum")
            fmraw = bytes(buf.u8(fm[0] + i) for i in range(fm[1]))
            out.append(("header", dict(ids=ids, values=vals, width=w, free=msg.scalar(1, buf.u64), field_maximum=fmraw), raw))
        elif mtype == 2:
            cv = msg.vector(0)
            cons = []
            for i in range(cv[1] if cv else 0):
                p = cv[0] + 4 * i
                c = _Table(buf, p + buf.u32(p))
                cons.append(tuple(_variables(c.table(k), "linear_combination_" + "abc"[k]) for k in range(3)))
            out.append(("constraints", cons, raw))
        elif mtype == 3:
            ids, vals, w = _variables(msg.table(0), "assigned_variables")
            out.append(("witness", dict(ids=ids, values=vals, width=w), raw))
        else:
            raise Malformed("unexpected message type %d" % mtype)
        pos += 4 + size
    return out

# ----------------------------------------------------------------------------
# 3. Tracing with a fresh copy of pysnark per run, recording what is traced
# ----------------------------------------------------------------------------

BACKENDS = {
    "zkinterface":      21888242871839275222246405745257275088548364400416034343698204186575808495617,   # bn128
    "zkifbellman":      52435875175126190479447740508185965837690552500527637822603658699938581184513,   # bls12-381
    "zkifbulletproofs": 7237005577332262213973186563042994240857116359379907606001950938285454250989,    # curve25519
}

_old_runtimes = []

class Trace:
    """ Fresh pysnark with the given zkinterface backend; records every value
        allocation and every constraint as it passes from runtime to backend """
    def __init__(self, backend_name):
        install_flatbuffers_stub()
        for m in [m for m in sys.modules if m == "pysnark" or m.startswith("pysnark.")]:
            del sys.modules[m]
        os.environ["PYSNARK_BACKEND"] = backend_name
        reg, atexit.register = atexit.register, lambda fn, *a, **k: fn    # no prove() at interpreter exit
        try:
            self.runtime = importlib.import_module("pysnark.runtime")
        finally:
            atexit.register = reg
        self.runtime.autoprove = False
        _old_runtimes.append(self.runtime)
        assert self.runtime.backend_name == backend_name, self.runtime.backend_name
        self.backend = be = self.runtime.backend
        self.core = sys.modules["pysnark.zkinterface.backend"]
        self.p = BACKENDS[backend_name]
        assert be.get_modulus() == self.p
        self.pub, self.priv, self.cons = [], [], []
        o_pub, o_priv, o_add = be.pubval, be.privval, be.add_constraint
        def pubval(v):
            self.pub.append(v); return o_pub(v)
        def privval(v):
            self.priv.append(v); return o_priv(v)
        def add_constraint(a, b, c):
            self.cons.append(tuple(dict(x.lc) for x in (a, b, c))); return o_add(a, b, c)
        be.pubval, be.privval, be.add_constraint = pubval, privval, add_constraint

    def prove(self):
        """ Runs backend.prove() in an empty directory; returns the bytes of the two files """
        d = tempfile.mkdtemp(prefix="r7-C11-")
        cwd = os.getcwd()
        out, err = sys.stdout, sys.stderr
        sys.stdout, sys.stderr = io.StringIO(), io.StringIO()
        try:
            os.chdir(d)
            self.backend.prove()
            self.messages = (sys.stdout.getvalue(), sys.stderr.getvalue())
            files = sorted(os.listdir(d))
            if files != ["circuit.zkif", "computation.zkif"]: raise AssertionError("files written: %r" % files)
            res = {}
            for fn in files:
                with open(fn, "rb") as f: res[fn] = f.read()
            return res["computation.zkif"], res["circuit.zkif"]
        finally:
            sys.stdout, sys.stderr = out, err
            os.chdir(cwd)
            for fn in os.listdir(d): os.remove(os.path.join(d, fn))
            os.rmdir(d)

def finish():
    """ no runtime created by this program may write files at interpreter exit """
    for r in _old_runtimes: r.autoprove = False

# ----------------------------------------------------------------------------
# 4. The property
# ----------------------------------------------------------------------------

class Violation(Exception): pass

def _need(cond, msg):
    if not cond: raise Violation(msg)

def _norm(lc, p):
    return {k: v % p for k, v in lc.items() if v % p}

def check_files(tr, computation, circuit, satisfied=True, full_width=True):
    """ Checks property C11 for the files written for trace tr. full_width: every
        element must be written with ceil(bitlength(p)/8) bytes; otherwise the truncated
        representation allowed by zkinterface.fbs is accepted as well. """
    p = tr.p
    BL = (p.bit_length() + 7) // 8
    n, m = len(tr.pub), len(tr.priv)
    try:
        comp, circ = decode_file(computation), decode_file(circuit)
    except Malformed as e:
        raise Violation("file is not a sequence of well-formed size-prefixed messages: %s" % e)
    _need([k for k, _, _ in comp] == ["header", "witness", "constraints"], "computation.zkif messages: %r" % [k for k, _, _ in comp])
    _need([k for k, _, _ in circ] == ["header", "constraints"], "circuit.zkif messages (must not contain a witness): %r" % [k for k, _, _ in circ])

    def width_ok(w, vals, what):
        if w is None: return
        _need(1 <= w <= BL if not full_width else w == BL, "%s: element size %r, field elements have %d bytes" % (what, w, BL))
        for v in vals: _need(0 <= v < p, "%s: non-canonical element %d" % (what, v))

    for fname, msgs in (("computation.zkif", comp), ("circuit.zkif", circ)):
        h = msgs[0][1]
        _need(h["ids"] == list(range(1, n + 1)), "%s: instance variable ids %r, expected 1..%d" % (fname, h["ids"], n))
        _need(h["values"] is not None and h["values"] == [v % p for v in tr.pub], "%s: instance values %r, expected %r" % (fname, h["values"], [v % p for v in tr.pub]))
        width_ok(h["width"], h["values"], fname + " instance values")
        _need(h["free"] == n + m + 1, "%s: free_variable_id %d, expected %d" % (fname, h["free"], n + m + 1))
        _need(h["field_maximum"] == (p - 1).to_bytes(BL, "little"), "%s: field_maximum %r" % (fname, h["field_maximum"]))
        cons = msgs[-1][1]
        _need(len(cons) == len(tr.cons), "%s: %d constraints, %d traced" % (fname, len(cons), len(tr.cons)))
        for i, (dec, rec) in enumerate(zip(cons, tr.cons)):
            for k in range(3):
                ids, vals, w = dec[k]
                what = "%s constraint %d %s" % (fname, i, "ABC"[k])
                _need(vals is not None and len(vals) == len(ids), what + ": coefficients missing")
                width_ok(w, vals, what)
                _need(len(set(ids)) == len(ids), what + ": repeated variable id")
                got = {i_: v for i_, v in zip(ids, vals) if v}
                exp = {(key if key >= 0 else n - key): v for key, v in _norm(rec[k], p).items()}
                _need(got == exp, what + ": decoded %r, traced %r" % (got, exp))
    w = comp[1][1]
    _need(w["ids"] == list(range(n + 1, n + m + 1)), "witness ids %r, expected %d..%d" % (w["ids"], n + 1, n + m))
    _need(w["values"] is not None and w["values"] == [v % p for v in tr.priv], "witness values %r, expected %r" % (w["values"], [v % p for v in tr.priv]))
    width_ok(w["width"], w["values"], "witness values")
    _need(comp[0][2] == circ[0][2], "header message differs between computation.zkif and circuit.zkif")
    _need(comp[2][2] == circ[1][2], "constraint message differs between computation.zkif and circuit.zkif")
    _need(comp[0][2] + comp[1][2] + comp[2][2] == computation and circ[0][2] + circ[1][2] == circuit, "messages do not tile the file")

    if satisfied:
        assign = {0: 1}
        assign.update(zip(comp[0][1]["ids"], comp[0][1]["values"]))
        assign.update(zip(w["ids"], w["values"]))
        _need(len(assign) == n + m + 1, "assignment does not cover variables 0..%d exactly once" % (n + m))
        def ev(dec): return sum(assign[i] * v for i, v in zip(dec[0], dec[1])) % p
        for i, dec in enumerate(comp[2][1]):
            _need(ev(dec[0]) * ev(dec[1]) % p == ev(dec[2]), "decoded assignment violates decoded constraint %d: %r" % (i, dec))
    return comp, circ

# ----------------------------------------------------------------------------
# 5. Evidence for P: traced programs, random backend-level traces, repeated proves
# ----------------------------------------------------------------------------

def programs():
    """ (name, function(trace, args), list of argument tuples, satisfied expected) """
    def arith(tr, a, x, y):
        rt = tr.runtime
        A, X, Y = rt.PubVal(a), rt.PrivVal(x), rt.PrivVal(y)
        z = X * Y + A
        w = z * z - X * 3 + 7
        (w * A).val()
        (X - Y).val()
    def compare(tr, x, y):
        rt = tr.runtime
        X, Y = rt.PrivVal(x), rt.PrivVal(y)
        lt, eq, ge = X < Y, X == Y, X >= Y
        (lt + eq * 2 + ge * 4).val()
        X.assert_range(-200, 200)
        bits = (X + 200).to_bits(12)
        rt.LinComb.from_bits(bits).val()
        (X != Y).val()
    def divmod_(tr, x, d):
        rt = tr.runtime
        X, D = rt.PrivVal(x), rt.PrivVal(d)
        (X // 3).val(); (X % 5).val()
        (X // D).val(); (X % D).val()
        q = (X * D) / D           # field division by a witness
        (q - X).assert_zero()
        (X ** 3).val()
        ((X * 6) / 2 / 3 - X).assert_zero()   # coefficients: products of field inverses
    def lazy(tr, c, x):
        rt = tr.runtime
        from pysnark.boolean import PrivValBool
        from pysnark.branching import if_then_else
        C, X = PrivValBool(c), rt.PrivVal(x)
        def yes():
            X.assert_nonzero()          # fails when x == 0, only reached (guarded) when c
            return (100 // X) + X
        def no():
            (X - 5).assert_zero()       # fails unless x == 5, guarded by ~c
            return X * X
        r = if_then_else(C, yes, no)
        r.val()
        if_then_else(~C, lambda: if_then_else(C, lambda: X * X * X, lambda: X + 1), X).val()
    def contexts(tr, c1, c2, x):
        rt = tr.runtime
        from pysnark.boolean import PrivValBool
        from pysnark.branching import if_then_else
        C1, C2, X = PrivValBool(c1), PrivValBool(c2), rt.PrivVal(x)
        def inner_yes():
            X.assert_nonzero()
            (X - 3).assert_zero()
            return X * 3
        def inner_no():
            return [X * X, X + 1][0]
        def outer_yes():
            r = if_then_else(C2, inner_yes, inner_no)      # nested guards: C1 & C2, C1 & ~C2
            return r * X
        def outer_no():
            @rt.guarded(C2.lc)                                 # guard ~C1 & C2
            def g():
                (X * X - 16).assert_zero()
                return X * X * X
            return g() + 1
        r = if_then_else(C1, outer_yes, outer_no)
        r.val()
        s = if_then_else(C1 & C2, [X, X * 2], [X * X, rt.PrivVal(5)])
        s[0].val(); s[1].val()
    def outofrange(tr, k):
        rt = tr.runtime
        p = tr.p
        A = rt.PubVal(p + k)             # public value >= p
        B = rt.PubVal(-k - 1)            # negative public value
        X = rt.PrivVal(-k)               # negative private value
        Y = rt.PrivVal(3 * p - 1 + k)    # private value far above p
        Z = rt.PrivVal(p - 1)
        (A * X + B * Y + Z * Z).val()
        (X * (p + 2) - Y * (-p - 1)).val()
        (X * Y * Z).val()
    def typed(tr, b, f):
        from pysnark.boolean import PrivValBool, PubValBool
        from pysnark.fixedpoint import PrivValFxp, PubValFxp
        B, C = PrivValBool(b), PubValBool(1 - b)
        (B & C).val(); (B | C).val(); (B ^ C).val(); (~B).val()
        F, G = PrivValFxp(f), PubValFxp(1.5)
        (F * G).val(); (F + G).val(); (F < G).val()
    def ignoring(tr, x):
        rt = tr.runtime
        rt.ignore_errors(True)
        X = rt.PrivVal(x)
        X.assert_zero()                  # wrong unless x == 0; traced all the same
        (X - 1).assert_nonzero()
        X.to_bits(3)
        rt.ignore_errors(False)
        (X * X).val()
    def pubafterpriv(tr, x):
        rt = tr.runtime
        X = rt.PrivVal(x)
        s = X
        for i in range(4):
            s = s * X + rt.PubVal(i * x)   # instance variables allocated between witness variables
        s.val()
    def empty(tr): pass
    def onlypub(tr, a):
        tr.runtime.PubVal(a); tr.runtime.PubVal(-a)
    def onlypriv(tr, a):
        tr.runtime.PrivVal(a); tr.runtime.PrivVal(-a)
    return [
        ("arith", arith, [(2, 3, 4), (0, 0, 0), (-5, 7, -9), (1 << 60, -(1 << 70), 12345)], True),
        ("compare", compare, [(3, 4), (4, 3), (7, 7), (-150, 150), (0, -1)], True),
        ("divmod", divmod_, [(17, 4), (-17, 4), (100, 7), (0, 9), (32767, 1)], True),
        ("lazy", lazy, [(1, 4), (0, 5), (1, 3), (1, 100)], True),
        ("lazy-untaken-fails", lazy, [(0, 5), (1, 5)], True),
        ("nested-guards", contexts, [(1, 1, 3), (1, 0, 2), (0, 1, 4), (0, 1, -4), (0, 0, 0), (0, 0, -7), (1, 0, 0)], True),
        ("outofrange", outofrange, [(0,), (1,), (5,), (1 << 200,)], True),
        ("typed", typed, [(0, 2.25), (1, -3.5), (1, 0.0)], True),
        ("ignore_errors", ignoring, [(0,), (1,), (5,), (-2,)], False),
        ("pubafterpriv", pubafterpriv, [(1,), (3,), (-2,)], True),
        ("empty", empty, [()], True),
        ("onlypub", onlypub, [(0,), (9,)], True),
        ("onlypriv", onlypriv, [(0,), (9,)], True),
    ]

def legacy_bytes(tr):
    """ The files as the message writers produce them one message at a time """
    core = tr.core
    out, err = sys.stdout, sys.stderr
    sys.stdout, sys.stderr = io.StringIO(), io.StringIO()
    try:
        h, w, c = io.BytesIO(), io.BytesIO(), io.BytesIO()
        core.write_circuit(h); core.write_witness(w); core.write_constraints(c)
    finally:
        sys.stdout, sys.stderr = out, err
    return h.getvalue() + w.getvalue() + c.getvalue(), h.getvalue() + c.getvalue()

def random_backend_trace(tr, rnd):
    """ Allocation and constraints straight on the backend interface, with coefficients
        and values of every sign and size, empty combinations and cancelling terms """
    be, p = tr.backend, tr.p
    def val():
        return rnd.choice([0, 1, -1, p - 1, p, p + 1, -p, 2 * p + 3, rnd.randrange(-10, 10), rnd.randrange(p), rnd.randrange(-p * p, p * p), 1 << rnd.randrange(300)])
    pool = [be.one(), be.zero()]
    def lc():
        r = rnd.choice(pool)
        for _ in range(rnd.randrange(4)):
            o = rnd.choice(pool)
            k = rnd.randrange(5)
            r = r + o if k == 0 else r - o if k == 1 else r * val() if k == 2 else -r if k == 3 else r + o * val()
        return r
    for _ in range(rnd.randrange(1, 25)):
        k = rnd.randrange(6)
        if k == 0: pool.append(be.pubval(val()))
        elif k <= 2: pool.append(be.privval(val()))
        else: be.add_constraint(lc(), lc(), lc())
    x = rnd.choice(pool)
    be.add_constraint(x - x, x * 0, x * p)          # all-zero coefficients

def main():
    rnd = random.Random(11)
    runs = 0
    for name in BACKENDS:
        # traced programs: encoding, satisfaction, and byte identity of the verifier file
        for pname, fn, argss, sat in programs():
            for args in argss:
                tr = Trace(name)
                try:
                    fn(tr, *args)
                except Exception as e:
                    raise SystemExit("program %s%r did not trace with %s: %r" % (pname, args, name, e))
                computation, circuit = tr.prove()
                try:
                    check_files(tr, computation, circuit, satisfied=sat)
                except Violation as e:
                    raise SystemExit("PROPERTY C11 VIOLATED [%s, %s%r]: %s" % (name, pname, args, e))
                if legacy_bytes(tr) != (computation, circuit):
                    raise SystemExit("[%s, %s%r] prove() output differs from the concatenation of the single message writers" % (name, pname, args))
                # prove() again: same bytes; trace more, prove again: files follow the trace
                if tr.prove() != (computation, circuit):
                    raise SystemExit("[%s, %s%r] second prove() wrote different files" % (name, pname, args))
                y = tr.runtime.PrivVal(6) * tr.runtime.PrivVal(7)
                y.val()
                c2, v2 = tr.prove()
                try:
                    check_files(tr, c2, v2, satisfied=sat)
                except Violation as e:
                    raise SystemExit("PROPERTY C11 VIOLATED after extending the trace [%s, %s%r]: %s" % (name, pname, args, e))
                runs += 2

        # equal public values, different private values: verifier file byte-identical
        def hidden(tr, n, x, y):
            rt = tr.runtime
            N, X, Y = rt.PubVal(n), rt.PrivVal(x), rt.PrivVal(y)
            (X * Y - N).assert_zero()                 # knows a factorisation of n
            (X * X + Y * Y + 1).assert_nonzero()
            X.assert_range(-(1 << 14), 1 << 14)
        def hidden2(tr, x):
            rt = tr.runtime
            X = rt.PrivVal(x)
            Y = X * X
            (Y * X + rt.PubVal(3)).assert_nonzero()
        for fn, argss in ((hidden, [(36, 6, 6), (36, 4, 9), (36, -2, -18), (36, 36, 1), (36, 1, 36)]),
                          (hidden2, [(1,), (2,), (300,), (70000,), (-5,), (1 << 100,)])):
            seen = None
            for args in argss:
                tr = Trace(name)
                fn(tr, *args)
                computation, circuit = tr.prove()
                try:
                    check_files(tr, computation, circuit)
                except Violation as e:
                    raise SystemExit("PROPERTY C11 VIOLATED [%s, %s%r]: %s" % (name, fn.__name__, args, e))
                if seen is not None and circuit != seen[1]:
                    raise SystemExit("PROPERTY C11 VIOLATED [%s]: circuit.zkif differs between private inputs %r and %r with equal public values" % (name, seen[0], args))
                seen = (args, circuit)
                runs += 1

        # random traces on the backend interface (encoding only)
        for i in range(120):
            tr = Trace(name)
            random_backend_trace(tr, rnd)
            computation, circuit = tr.prove()
            try:
                check_files(tr, computation, circuit, satisfied=False)
            except Violation as e:
                raise SystemExit("PROPERTY C11 VIOLATED [%s, random trace %d]: %s" % (name, i, e))
            if legacy_bytes(tr) != (computation, circuit):
                raise SystemExit("[%s, random trace %d] prove() output differs from the single message writers" % (name, i))
            runs += 1
    finish()
    print("C11 held in all %d runs (3 fields; traced programs, hidden-input pairs, random backend traces)" % runs)

if __name__ == "__main__":
    main()
