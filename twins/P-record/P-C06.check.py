# Evidence program for property C06 ("the constraint system does not depend on the values processed"),
# aimed at secret-index Array reads / writes (pysnark/array.py).
#
# run as:  PYTHONPATH=<tree> /venv/bin/python P.check.py      (from an empty directory; writes no files)
#
# What is checked (the property itself, not equality with an older version of the library):
#  1. STRUCTURE: every program below is run on many input vectors (valid ones; invalid ones in
#     ignore-errors mode; both outcomes of every secret condition; several bitlengths; array
#     lengths 1..6; int / LinComb / LinCombFxp / LinCombBool / nested-Array elements).  All runs of the
#     same program must give the same number, kind and order of wires, the same constraints with the
#     same coefficients in the same order, and results with the same wire expressions.
#  2. COMPLETENESS: on every valid input every recorded constraint holds on the recorded witness and the
#     results are what plain Python list indexing gives (so keys from one run fit every later run).
#  3. RANGE / SOUNDNESS: with error checks disabled and an out-of-range index under an active guard
#     some constraint is violated; and over small prime fields (p = 5, 7) ALL witnesses are enumerated:
#     the system is satisfiable iff the index is inside the array and then every satisfying witness
#     gives the selected element / the correctly updated array.
#  4. an empty array cannot be indexed with a secret index (IndexError for every index value).

import sys, types, itertools, random

# ---------------------------------------------------------------------------------------------------
# a recording backend, installed under the name of pysnark.nobackend before pysnark.runtime is imported
# ---------------------------------------------------------------------------------------------------
BN = 21888242871839275222246405745257275088548364400416034343698204186575808495617

class Rec:
    modulus = BN
    kinds = []      # kind of wire 1.. ("pub"/"priv"); wire 0 is the constant one
    values = []     # their values
    cons = []       # (A, B, C) canonical linear combinations

    @classmethod
    def reset(cls, modulus=BN):
        cls.modulus = modulus
        cls.kinds, cls.values, cls.cons = [], [], []

class LC:
    def __init__(self, d): self.d = d
    def __add__(self, o):
        d = dict(self.d)
        for k, c in o.d.items(): d[k] = d.get(k, 0) + c
        return LC(d)
    def __sub__(self, o): return self + (-o)
    def __neg__(self): return LC({k: -c for k, c in self.d.items()})
    def __mul__(self, c):
        assert isinstance(c, int)
        return LC({k: v * c for k, v in self.d.items()})
    def canon(self):
        return tuple(sorted((k, c % Rec.modulus) for k, c in self.d.items() if c % Rec.modulus))
    def ev(self, wires):
        return sum(c * wires[k] for k, c in self.d.items()) % Rec.modulus

def _newvar(kind, val):
    Rec.kinds.append(kind); Rec.values.append(val)
    return LC({len(Rec.kinds): 1})

be = types.ModuleType("pysnark.nobackend")
be.privval = lambda v: _newvar("priv", v)
be.pubval = lambda v: _newvar("pub", v)
be.zero = lambda: LC({})
be.one = lambda: LC({0: 1})
be.fieldinverse = lambda v: pow(v % Rec.modulus, -1, Rec.modulus)
be.get_modulus = lambda: Rec.modulus
be.add_constraint = lambda v, w, y: Rec.cons.append((v, w, y))
be.prove = lambda: None
sys.modules["pysnark.nobackend"] = be

import pysnark.runtime as rt
assert rt.backend is be, "recording backend was not picked up"
rt.autoprove = False
from pysnark.runtime import PrivVal, PubVal, LinComb, ignore_errors
from pysnark.boolean import PrivValBool, LinCombBool
from pysnark.fixedpoint import PrivValFxp, LinCombFxp
from pysnark.branching import if_then_else
from pysnark.array import Array

checks = 0
def ok(cond, msg):
    global checks
    checks += 1
    if not cond:
        print("FAILED:", msg)
        sys.exit(1)

def flat(res):
    """ results -> list of (wire expression, value) """
    out = []
    def go(x):
        if isinstance(x, (list, tuple)):
            for y in x: go(y)
        elif isinstance(x, Array): go(x.arr)
        elif isinstance(x, (LinCombFxp, LinCombBool)): go(x.lc)
        elif isinstance(x, LinComb): out.append((x.lc.canon(), x.value))
        elif isinstance(x, int): out.append((("const", x), x))
        else: raise TypeError(type(x))
    go(res)
    return out

def run(prog, inp, modulus=BN, ignore=False, bitlength=16):
    """ returns (structure, all constraints hold on the witness?, result values) or the exception """
    Rec.reset(modulus)
    rt.bitlength = bitlength
    rt.guard = None
    LinComb.ONE = LinComb.ONE_SAFE
    ignore_errors(ignore)
    try:
        res = flat(prog(*inp))
    except Exception as e:
        return e
    finally:
        ignore_errors(False)
    ok(rt.guard is None and LinComb.ONE is LinComb.ONE_SAFE, "guard not restored")
    wires = [1] + [v % modulus for v in Rec.values]
    sat = all(a.ev(wires) * b.ev(wires) % modulus == c.ev(wires) for (a, b, c) in Rec.cons)
    struct = (tuple(Rec.kinds),
              tuple((a.canon(), b.canon(), c.canon()) for (a, b, c) in Rec.cons),
              tuple(r[0] for r in res))
    return struct, sat, [r[1] for r in res]

def same_structure(name, prog, valid, invalid=(), expect=None, bitlengths=(16,), outofrange_violates=False):
    """ the heart of the check: all runs give one and the same constraint system """
    for bl in bitlengths:
        ref = None
        for inp in valid:
            r = run(prog, inp, bitlength=bl)
            ok(not isinstance(r, Exception), "%s%r raised %r" % (name, inp, r))
            struct, sat, vals = r
            ok(sat, "%s%r: constraint violated on a valid input" % (name, inp))
            if expect is not None:
                ok(vals == flat_expect(expect(*inp)), "%s%r: results %r differ from plain Python %r" % (name, inp, vals, expect(*inp)))
            if ref is None: ref = struct
            ok(len(struct[0]) == len(ref[0]) and len(struct[1]) == len(ref[1]), "%s%r: number of wires/constraints depends on the input" % (name, inp))
            ok(struct[0] == ref[0], "%s%r: kind/order of wires depends on the input" % (name, inp))
            ok(struct[1] == ref[1], "%s%r: constraints depend on the input" % (name, inp))
            ok(struct[2] == ref[2], "%s%r: result wire expressions depend on the input" % (name, inp))
            # the same valid input with error checks off
            r2 = run(prog, inp, ignore=True, bitlength=bl)
            ok(not isinstance(r2, Exception) and r2[0] == ref and r2[1], "%s%r: ignore-errors run differs" % (name, inp))
        for inp in invalid:
            r = run(prog, inp, bitlength=bl)
            ok(isinstance(r, Exception), "%s%r: invalid input not detected" % (name, inp))
            r = run(prog, inp, ignore=True, bitlength=bl)
            ok(not isinstance(r, Exception), "%s%r raised %r in ignore-errors mode" % (name, inp, r))
            ok(r[0] == ref, "%s%r: ignore-errors run on invalid input gives another constraint system" % (name, inp))
            if outofrange_violates:
                ok(not r[1], "%s%r: out-of-range index satisfies all constraints" % (name, inp))

def flat_expect(x):
    out = []
    def go(y):
        if isinstance(y, (list, tuple)):
            for z in y: go(z)
        else: out.append(y)
    go(x)
    return out

random.seed(6)
FX = 1 << 8   # fixed-point scale (resolution 8)

# ---------------------------------------------------------------------------------------------------
# 1. plain reads and writes, array lengths 1..6, several element types
# ---------------------------------------------------------------------------------------------------
for n in range(1, 7):
    data = [random.randrange(-50, 50) for _ in range(n)]
    bad = [(-1,), (n,), (n + 1,), (-n,), (10 ** 30,), (-10 ** 30,), (BN - 1,)]
    good = [(i,) for i in range(n)]

    same_structure("get-int[%d]" % n, lambda i: Array(data)[PrivVal(i)], good, bad,
                   expect=lambda i: data[i], outofrange_violates=True)
    same_structure("get-pub-index[%d]" % n, lambda i: Array(data)[PubVal(i)], good, bad,
                   expect=lambda i: data[i], outofrange_violates=True)
    same_structure("get-tuple1[%d]" % n, lambda i: Array(data)[(PrivVal(i),)], good, bad, expect=lambda i: data[i])

    # elements are witnesses whose values vary as well
    vecs = [[random.randrange(-9, 9) for _ in range(n)] for _ in range(3)] + [[0] * n, [1] * n]
    good2 = [(i, tuple(v)) for i in range(n) for v in vecs]
    bad2 = [(i, tuple(vecs[0])) for (i,) in bad]
    same_structure("get-lc[%d]" % n, lambda i, v: Array([PrivVal(x) for x in v])[PrivVal(i)], good2, bad2,
                   expect=lambda i, v: v[i], outofrange_violates=True)
    same_structure("get-fxp[%d]" % n, lambda i, v: Array([PrivValFxp(x) for x in v])[PrivVal(i)], good2, bad2,
                   expect=lambda i, v: v[i] * FX)
    same_structure("get-bool[%d]" % n, lambda i, v: Array([PrivValBool(x & 1) for x in v])[PrivVal(i)], good2, bad2,
                   expect=lambda i, v: v[i] & 1)

    def setprog(i, v, nv):
        a = Array(list(v)); a[PrivVal(i)] = nv; return a
    def setprog_lc(i, v, nv):
        a = Array([PrivVal(x) for x in v]); a[PrivVal(i)] = PrivVal(nv); return a
    def setget(i, v, nv, j):
        a = Array([PrivVal(x) for x in v]); a[PrivVal(i)] = PrivVal(nv); return [a[PrivVal(j)], a]
    def upd(i, v, nv): w = list(v); w[i] = nv; return w
    good3 = [(i, v, nv) for (i, v) in good2 for nv in (0, 7, -3)]
    bad3 = [(i, v, 5) for (i, v) in bad2]
    for (v0, nv0) in [(tuple(vecs[0]), 7), (tuple(vecs[1]), 0)]:   # public ints are constants of the program: only the index varies
        same_structure("set-int[%d]" % n, lambda i: setprog(i, v0, nv0), good, bad, expect=lambda i: upd(i, v0, nv0), outofrange_violates=True)
    same_structure("set-lc[%d]" % n, setprog_lc, good3, bad3, expect=upd, outofrange_violates=True)
    same_structure("set-get[%d]" % n, setget, [g + (j,) for g in good3[:12] for j in range(n)],
                   [b + (0,) for b in bad3] + [good3[0] + (n,), good3[0] + (-1,)],
                   expect=lambda i, v, nv, j: [upd(i, v, nv)[j], upd(i, v, nv)])

# an index that is computed, with comparisons, at several bitlengths
def computed(x, y, v):
    xs, ys = PrivVal(x), PrivVal(y)
    i = (xs < ys) + (xs == ys) * 2 + abs(xs - ys) % 2      # 0..3
    a = Array([PrivVal(e) for e in v])
    r = a[i]
    a[i + 1] = r * 2
    return [r, a]
def computed_py(x, y, v):
    i = (x < y) + (x == y) * 2 + abs(x - y) % 2
    w = list(v); w[i + 1] = v[i] * 2
    return [v[i], w]
same_structure("computed-index", computed,
               [(x, y, (1, 2, 3, 4, 5)) for x in (0, 1, 5, 100) for y in (0, 2, 5, 99)] + [(3, 3, (0, 0, 0, 0, 0)), (100, 1, (-1, -2, -3, -4, -5))],
               expect=computed_py, bitlengths=(8, 16, 32))

# ---------------------------------------------------------------------------------------------------
# 2. matrices (nested arrays) and tuple indices
# ---------------------------------------------------------------------------------------------------
M = [[1, 2, 3], [4, 5, 6], [7, 8, 9], [10, 11, 12]]
def mat(): return Array([Array([PrivVal(x) for x in row]) for row in M])
rc = [(r, c) for r in range(4) for c in range(3)]
badrc = [(4, 0), (0, 3), (-1, 1), (1, -1), (9, 9)]
same_structure("mat-get-ss", lambda r, c: mat()[PrivVal(r), PrivVal(c)], rc, badrc, expect=lambda r, c: M[r][c], outofrange_violates=True)
same_structure("mat-get-row", lambda r, c: mat()[PrivVal(r)], rc, [(4, 0), (-1, 0)], expect=lambda r, c: M[r], outofrange_violates=True)
same_structure("mat-get-chain", lambda r, c: mat()[PrivVal(r)][PrivVal(c)], rc, badrc, expect=lambda r, c: M[r][c], outofrange_violates=True)
for pr in range(4):
    same_structure("mat-get-ps", lambda c: mat()[pr, PrivVal(c)], [(c,) for c in range(3)], [(3,), (-1,)], expect=lambda c: M[pr][c])
for pc in range(3):
    same_structure("mat-get-sp", lambda r: mat()[PrivVal(r), pc], [(r,) for r in range(4)], [(4,), (-2,)], expect=lambda r: M[r][pc])
def matset(r, c, nv):
    m = mat(); m[PrivVal(r), PrivVal(c)] = PrivVal(nv); return m
def matset_py(r, c, nv):
    m = [list(row) for row in M]; m[r][c] = nv; return m
same_structure("mat-set-ss", matset, [(r, c, nv) for (r, c) in rc for nv in (0, 99)], [(r, c, 1) for (r, c) in badrc],
               expect=matset_py, outofrange_violates=True)
def matsetrow(r, a, b, c):
    m = mat(); m[PrivVal(r)] = Array([PrivVal(a), PrivVal(b), PrivVal(c)]); return m
def matsetrow_py(r, a, b, c):
    m = [list(row) for row in M]; m[r] = [a, b, c]; return m
same_structure("mat-set-row", matsetrow, [(r, r + 1, -r, 0) for r in range(4)] + [(2, 0, 0, 0)], [(4, 1, 1, 1), (-1, 1, 1, 1)],
               expect=matsetrow_py, outofrange_violates=True)

# ---------------------------------------------------------------------------------------------------
# 3. secret conditions: lazy if_then_else branches, nesting, BranchingValues; both truth values.
#    In the branch that is not taken the index may lie outside of that branch's array.
# ---------------------------------------------------------------------------------------------------
A3, B5, C2 = [10, 11, 12], [20, 21, 22, 23, 24], [30, 31]
def lazy(c, i):
    cb, ix = PrivValBool(c), PrivVal(i)
    a, b = Array([PrivVal(x) for x in A3]), Array(B5)
    return if_then_else(cb, lambda: a[ix], lambda: b[ix])
same_structure("lazy", lazy, [(1, i) for i in range(3)] + [(0, i) for i in range(5)],
               [(1, 3), (1, 4), (1, -1), (0, 5), (0, -1), (1, 10 ** 20)],
               expect=lambda c, i: A3[i] if c else B5[i], outofrange_violates=True)

def nested(c1, c2, i):
    b1, b2, ix = PrivValBool(c1), PrivValBool(c2), PrivVal(i)
    a, b, c = Array([PrivVal(x) for x in A3]), Array(B5), Array([PrivVal(x) for x in C2])
    return if_then_else(b1, lambda: if_then_else(b2, lambda: a[ix], lambda: b[ix]), lambda: c[ix] + a[ix - ix])
def nested_py(c1, c2, i):
    return (A3[i] if c2 else B5[i]) if c1 else C2[i] + A3[0]
same_structure("nested", nested,
               [(1, 1, i) for i in range(3)] + [(1, 0, i) for i in range(5)] + [(0, 0, i) for i in range(2)] + [(0, 1, i) for i in range(2)],
               [(1, 1, 3), (1, 0, 5), (0, 0, 2), (0, 1, 4), (1, 1, -1), (0, 0, -7)],
               expect=nested_py, outofrange_violates=True)

def lazyset(c, i, nv):
    cb, ix = PrivValBool(c), PrivVal(i)
    a = Array([PrivVal(x) for x in A3])
    def t():
        w = Array(a.arr); w[ix] = PrivVal(nv); return w.arr
    def f():
        w = Array(a.arr); w[ix - 2] = PrivVal(nv + 1); return w.arr
    return if_then_else(cb, t, f)
def lazyset_py(c, i, nv):
    w = list(A3)
    if c: w[i] = nv
    else: w[i - 2] = nv + 1
    return w
same_structure("lazy-set", lazyset, [(1, i, nv) for i in range(3) for nv in (0, 5)] + [(0, i, nv) for i in range(2, 5) for nv in (0, 5)],
               [(1, 3, 1), (0, 1, 1), (0, 5, 1), (1, -1, 1)], expect=lazyset_py, outofrange_violates=True)

# the guarded() decorator used directly (the _if/_else statement API of this version cannot be used:
# it passes its LinComb condition to if_then_else, which only takes LinCombBool)
def viaguard(c, i, nv):
    cb, ix = PrivValBool(c), PrivVal(i)
    a = Array([PrivVal(x) for x in B5])
    @rt.guarded(cb.lc)
    def body():
        w = Array(a.arr)
        w[ix] = PrivVal(nv)
        return [w[ix + 1], w[ix - 1]]
    r = body()
    return [cb * r[0], cb * r[1]]
def viaguard_py(c, i, nv):
    w = list(B5)
    if not c: return [0, 0]
    w[i] = nv
    return [w[i + 1], w[i - 1]]
same_structure("guarded", viaguard, [(1, i, nv) for i in range(1, 4) for nv in (-1, 8)] + [(0, i, 3) for i in (-5, 0, 1, 4, 5, 77)],
               [(1, 4, 0), (1, 0, 0), (1, -1, 0), (1, 9, 0)], expect=viaguard_py, outofrange_violates=True, bitlengths=(8, 16))

# ---------------------------------------------------------------------------------------------------
# 4. an empty array has no position a secret index could select
# ---------------------------------------------------------------------------------------------------
for i in (0, 1, -1):
    ok(isinstance(run(lambda i: Array([])[PrivVal(i)], (i,)), IndexError), "secret read from empty array did not raise IndexError")
    def seti(i):
        a = Array([]); a[PrivVal(i)] = 1; return a
    ok(isinstance(run(seti, (i,)), IndexError), "secret write to empty array did not raise IndexError")

# ---------------------------------------------------------------------------------------------------
# 5. exhaustive soundness over small fields: enumerate ALL witnesses
# ---------------------------------------------------------------------------------------------------
def brute(name, prog, n, p, expect):
    Rec.reset(p); rt.bitlength = 16
    res = []
    def collect(x):
        if isinstance(x, Array): [collect(y) for y in x.arr]
        elif isinstance(x, (list, tuple)): [collect(y) for y in x]
        elif isinstance(x, (LinCombBool, LinCombFxp)): res.append(x.lc.lc)
        elif isinstance(x, LinComb): res.append(x.lc)
        else: res.append(LC({0: x}))
    collect(prog(0))
    cons, nw = list(Rec.cons), len(Rec.kinds)
    for item in range(p):
        found = set()
        for aux in itertools.product(range(p), repeat=nw - 1):
            wires = (1, item) + aux
            if all(a.ev(wires) * b.ev(wires) % p == c.ev(wires) for (a, b, c) in cons):
                found.add(tuple(x.ev(wires) for x in res))
        if item < n:
            ok(found == {tuple(v % p for v in flat_expect(expect(item)))}, "%s p=%d index %d: satisfying witnesses give %r" % (name, p, item, found))
        else:
            ok(not found, "%s p=%d: out-of-range index %d has a satisfying witness" % (name, p, item))

for (n, p) in [(1, 7), (2, 7), (3, 7), (1, 5), (2, 5), (3, 5), (4, 5)]:
    data = [(3 * k + 1) % p for k in range(n)]
    brute("brute-get[%d]" % n, lambda i: Array(data)[PrivVal(i)], n, p, lambda i: data[i])   # wire 1 is the index
    def bset(i):
        a = Array(list(data)); a[PrivVal(i)] = 2; return a
    def bset_py(i): w = list(data); w[i] = 2; return w
    brute("brute-set[%d]" % n, bset, n, p, bset_py)

print("C06 evidence: all %d checks passed" % checks)
