# Evidence program for property C08 (guard state is restored on every exit path and nests as a conjunction),
# written for the change "ignore_errors() is derived from the user's flag and the active guard".
#
#   PYTHONPATH=<tree> /venv/bin/python P.check.py        (from an empty directory; nothing is written)
#
# It re-runs itself once per backend (nobackend, snarkjs).  Each run executes a few deterministic corner cases
# and a few thousand random "programs": nested guarded regions entered through guarded(), through the lazy
# branches of if_then_else, and by hand with add_guard / restore_guard, with LinComb conditions of value 0 / 1
# (and, while errors are suppressed, 2, 3, 5, -1, 70000), public conditions (1; 0, 2, "x" must be refused
# without touching anything), bodies that emit correct gadgets, gadgets on wrong values, ignore_errors(True/False)
# switches, raise exceptions at arbitrary statements, and hand-made regions that are aborted without ever being
# restored.  Exceptions are caught at a random level of the nesting.
#
# Checked, against a model that is kept independently of the library:
#   * after every region ended (return or exception) the guard object, the user's _ignore_errors flag, the
#     answer of ignore_errors() and the object LinComb.ONE are exactly those from before the region;
#   * inside a region the guard's value is the conjunction of the enclosing conditions (for non-Boolean values,
#     reachable only with errors suppressed: the 16-bit bitwise and the library computes), LinComb.ONE is the
#     guard, ignore_errors() is what the model says, and on snarkjs the guard's linear combination evaluates to
#     that value on the recorded witness;
#   * gadgets on wrong values raise exactly when the model says errors are not suppressed (so a false assertion
#     raises iff all enclosing conditions are 1 and the user did not ask to ignore errors);
#   * on snarkjs, every constraint emitted by a program holds on the recorded witness (mod p) unless the program
#     executed a wrong-valued gadget under a guard of value 1 / no guard with errors ignored by the user, or used
#     a non-Boolean guard (in those cases the witness is rightly unsatisfying).
# Exit status 0 iff everything held on every backend.

import os, sys, subprocess, random

BACKENDS = ["nobackend", "snarkjs"]

if "--child" not in sys.argv:
    bad = 0
    for be in BACKENDS:
        env = dict(os.environ); env["PYSNARK_BACKEND"] = be
        r = subprocess.run([sys.executable, os.path.abspath(__file__), "--child"], env=env)
        if r.returncode != 0:
            print("FAILED on backend", be, "(exit", r.returncode, ")"); bad = 1
    print("P.check:", "PROPERTY VIOLATED" if bad else "property held in all cases")
    sys.exit(bad)

# ------------------------------------------------------------------ child
import pysnark.runtime as rt
rt.autoprove = False
from pysnark.runtime import PrivVal, PubVal, LinComb, guarded, add_guard, restore_guard
from pysnark.boolean import PrivValBool
from pysnark.branching import if_then_else

BE = rt.backend_name
assert BE == os.environ["PYSNARK_BACKEND"], BE
SJ = BE == "snarkjs"
if SJ:
    import pysnark.snarkjsbackend as sj
    P = sj.snarkjsp

failures = []
def fail(msg):
    failures.append(msg)
    if len(failures) <= 15: print("  VIOLATION:", msg)
def check(c, msg):
    if not c: fail(msg)

def evallc(lc):
    tot = 0
    for k, c in lc.lc.items():
        v = 1 if k == 0 else (sj.pubvals[k-1] if k > 0 else sj.privvals[-k-1])
        tot += c*v
    return tot % P

_keep = []   # keeps the objects alive so that their ids stay theirs
def snap():
    _keep.append((rt.guard, LinComb.ONE))
    return (id(rt.guard), rt._ignore_errors, bool(rt.ignore_errors()), id(LinComb.ONE))
def snapstr(s): return "(guard,flag,ignore_errors(),ONE)=" + str(s)

class Boom(Exception): pass
EXPECTED = (Boom, AssertionError, ValueError)

# ---- which tree is this?  (unchanged: suppression is a saved flag; P: derived from flag and guard)
def probe():
    out = []
    def f():
        rt.ignore_errors(False)
        out.append(bool(rt.ignore_errors()))
    guarded(PrivVal(0))(f)()
    return out[0]
STRICT = probe()
check(snap() == (id(None), False, False, id(LinComb.ONE_SAFE)), "probe left state behind: " + snapstr(snap()))
print("[%s] tree: %s" % (BE, "ignore_errors() derived from guard (P)" if STRICT else "ignore_errors is a saved flag (unchanged)"))

# ---- model
class M:
    flag = False     # the user's flag as the model sees it
    gv = []          # values of the guards of the enclosing LinComb regions (outermost first)
    unsat = False    # the program did something after which the witness need not satisfy the constraints
    rnd = None

def conj(outer, cv):
    if outer is None: return cv
    return (outer & cv) & 0xFFFF          # what LinComb.__and__ computes on 16 bits

def cur_gv(): return M.gv[-1] if M.gv else None
def supp():
    g = cur_gv()
    return bool(M.flag or (STRICT and g is not None and g != 1))

def check_inside(where):
    g = cur_gv()
    if g is None:
        check(rt.guard is None, where + ": guard should be None")
        check(LinComb.ONE is LinComb.ONE_SAFE, where + ": ONE should be the real one")
    else:
        check(rt.guard is not None and rt.guard.value == g, where + ": guard value %s, conjunction of enclosing conditions is %s" % (getattr(rt.guard, "value", None), g))
        check(LinComb.ONE is rt.guard, where + ": LinComb.ONE is not the guard")
        if SJ and rt.guard is not None:
            check(evallc(rt.guard.lc) == g % P, where + ": guard wire evaluates to %d, expected %d" % (evallc(rt.guard.lc), g))
    check(bool(rt.ignore_errors()) == supp(), where + ": ignore_errors()=%s, model says %s (flag %s, guards %s)" % (rt.ignore_errors(), supp(), M.flag, M.gv))
    check(bool(rt._ignore_errors) == M.flag, where + ": user's flag %s, model %s" % (rt._ignore_errors, M.flag))

# ---- statements
def good_op(r):
    a, b = r.randrange(0, 100), r.randrange(1, 100)
    x, y = PrivVal(a), PrivVal(b)
    k = r.randrange(7)
    if k == 0: (x*y - a*b).assert_zero()
    elif k == 1: (x + 5).assert_positive()
    elif k == 2:
        c = x < y
        (c.lc - (1 if a < b else 0) * LinComb.ONE).assert_zero() if cur_gv() in (None, 1) else None
    elif k == 3: (PrivVal(a*b) / y)
    elif k == 4: y.assert_nonzero()
    elif k == 5: x.assert_lt(a + 1)
    else: x.assert_eq(PubVal(a))

def bad_op(r):
    k = r.randrange(6)
    if k == 0: PrivVal(1).assert_zero()
    elif k == 1: PrivVal(7) / PrivVal(2)
    elif k == 2: PrivVal(0).assert_nonzero()
    elif k == 3: PrivVal(5).assert_lt(PrivVal(3))
    elif k == 4: PrivVal(1 << 20).check_positive()
    else: PrivVal(-3).to_bits()

def stmt_bad(r, where):
    s = supp(); g = cur_gv()
    raised = None
    try:
        bad_op(r)
    except (AssertionError, ValueError) as e:
        raised = e
    if s:
        check(raised is None, where + ": wrong value raised %r although errors are suppressed (flag %s, guards %s)" % (raised, M.flag, M.gv))
        if g is None or g != 0: M.unsat = True
    else:
        check(raised is not None, where + ": wrong value did not raise although all enclosing conditions are 1 and errors are not ignored (guards %s)" % (M.gv,))
    if raised is not None: raise raised

def stmt_toggle(r, where):
    v = r.random() < 0.5
    if not v and not STRICT and cur_gv() not in (None, 1):
        return    # on the unchanged tree this re-enables errors in a branch not taken (what P changes): not modelled
    rt.ignore_errors(v); M.flag = v

# ---- regions
def invoke(region, catch, where):
    """ run region(); whatever way it ends, the state must be the one from before """
    before = snap(); fb = M.flag; depth = len(M.gv)
    try:
        region()
    except EXPECTED:
        check(snap() == before, where + ": after exception: " + snapstr(snap()) + " before: " + snapstr(before))
        M.flag = fb; del M.gv[depth:]
        if not catch: raise
    else:
        check(snap() == before, where + ": after return: " + snapstr(snap()) + " before: " + snapstr(before))
        M.flag = fb
        check(len(M.gv) == depth, "model stack")

def body(cv, depth, where, entryflag=None):
    """ body of a region whose condition has value cv (None: public 1) """
    def run():
        if entryflag is not None:
            # second lazy branch of if_then_else: the first region has ended
            M.flag = entryflag[0]
            check(rt._ignore_errors == entryflag[0] or not STRICT, where + ": flag not restored between the branches")
        if cv is not None:
            M.gv.append(conj(cur_gv(), cv))
            if not STRICT: M.flag = bool(M.flag or cv == 0)
            if cv not in (0, 1): M.unsat = True
        try:
            check_inside(where + " entry")
            block(depth, where)
            check_inside(where + " end")
        finally:
            if cv is not None: M.gv.pop()
        return PrivVal(3)
    return run

def pick_cond(r):
    """ (condition object, value or None for public) """
    k = r.random()
    if k < 0.12: return (1, None)
    if supp() and k < 0.35:
        v = r.choice([2, 3, 5, -1, 70000])
        return (PrivVal(v), v)
    v = 1 if r.random() < 0.55 else 0
    return (PrivVal(v), v)

def stmt_region(r, depth, where):
    kind = r.choice(["guarded", "guarded", "ite", "ite", "manual", "abort", "bad"])
    catch = r.random() < 0.5
    w = where + "/" + kind + str(depth)
    if kind == "bad":
        before = snap(); ran = []
        cands = [(0, RuntimeError), (2, RuntimeError), ("x", TypeError), (None, TypeError)]
        if not supp(): cands.append((PrivVal(2), RuntimeError)); cands.append((PrivVal(-1), RuntimeError))
        c, exc = r.choice(cands)
        try:
            if r.random() < 0.5: guarded(c)(lambda: ran.append(1))()
            else: add_guard(c); ran.append(2)
        except exc: pass
        check(not ran, w + ": condition %r was accepted" % (c,))
        check(snap() == before, w + ": refused condition changed the state: " + snapstr(snap()))
        return
    cobj, cv = pick_cond(r)
    if kind == "guarded":
        invoke(lambda: guarded(cobj)(body(cv, depth+1, w))(), catch, w)
    elif kind == "ite":
        b = r.randrange(2); cb = PrivValBool(b)
        ef = [M.flag]
        mode = r.randrange(3)
        def region():
            t = body(b, depth+1, w + "T") if mode != 1 else PrivVal(1)
            f = body(1-b, depth+1, w + "F", ef) if mode != 0 else PrivVal(2)
            res = if_then_else(cb, t, f)
            if cur_gv() in (None, 1):
                exp = (3 if mode != 1 else 1) if b else (3 if mode != 0 else 2)
                check(res.value == exp, w + ": if_then_else value %s expected %s" % (res.value, exp))
        invoke(region, catch, w)
    elif kind == "manual":
        def region():
            bak = add_guard(cobj)
            try: body(cv, depth+1, w)()
            finally: restore_guard(bak)
        invoke(region, catch, w)
    else:  # abort: a hand-made region that is left by an exception and never restored; the enclosing region cleans up
        add_guard(cobj)
        body(cv, depth+1, w)()
        raise Boom()

def block(depth, where):
    r = M.rnd
    n = r.randrange(1, 5)
    for i in range(n):
        k = r.random()
        w = where + "[" + str(i) + "]"
        if k < 0.30: good_op(r)
        elif k < 0.42: stmt_bad(r, w)
        elif k < 0.54: stmt_toggle(r, w)
        elif k < 0.60: raise Boom()
        elif depth < 4: stmt_region(r, depth, w)
        else: good_op(r)
        check_inside(w + " after stmt")

def run_program(seed):
    M.rnd = random.Random(seed); M.flag = False; M.gv = []; M.unsat = False
    rt.ignore_errors(False)
    c0 = len(sj.constraints) if SJ else 0
    n0 = rt.num_constraints
    top = snap()
    if top != (id(None), False, False, id(LinComb.ONE_SAFE)):
        fail("program %d does not start clean: %s" % (seed, snapstr(top)))
        rt.guard = None; LinComb.ONE = LinComb.ONE_SAFE; top = snap()     # do not let one leak be reported 1000 times
    # every program is one guarded region with public condition 1 (so that aborted hand-made regions are cleaned up)
    try:
        invoke(lambda: guarded(1)(body(None, 0, "p%d" % seed))(), True, "p%d" % seed)
    finally:
        rt.ignore_errors(False)
    check(snap() == top, "program %d: state after the program: %s" % (seed, snapstr(snap())))
    if SJ:
        check(len(sj.constraints) - c0 == rt.num_constraints - n0, "constraint count")
        if not M.unsat:
            for i, (v, w, y) in enumerate(sj.constraints[c0:]):
                if (evallc(v) * evallc(w) - evallc(y)) % P != 0:
                    fail("program %d: constraint %d does not hold on the witness (guards all satisfied by dummies?)" % (seed, i)); break
    return M.unsat

# ---- deterministic corner cases
def corner_cases():
    clean = (id(None), False, False, id(LinComb.ONE_SAFE))
    # 1. region not taken; body switches error checking off and on again; wrong values afterwards
    seen = []
    def helper():
        old = rt.ignore_errors(); rt.ignore_errors(True); PrivVal(1).assert_zero(); rt.ignore_errors(old)
        seen.append(bool(rt.ignore_errors()))
        if STRICT:
            rt.ignore_errors(False)
            seen.append(bool(rt.ignore_errors()))
            PrivVal(1).assert_zero(); PrivVal(7) / PrivVal(2); PrivVal(3) < PrivVal(4)
    guarded(PrivVal(0))(helper)()
    check(all(seen), "not-taken branch: errors were switched back on: " + str(seen))
    check(snap() == clean, "corner 1: " + snapstr(snap()))
    # 2. the same in a taken branch: the flag set by the body does not leak
    def setter(): rt.ignore_errors(True)
    for c in (PrivVal(1), PrivVal(0), 1):
        guarded(c)(setter)()
        check(snap() == clean, "corner 2 (%r): " % (c,) + snapstr(snap()))
    # 3. flag on outside, body switches it off, region aborted by the resulting error
    rt.ignore_errors(True)
    before = snap()
    def offender():
        rt.ignore_errors(False)
        PrivVal(1).assert_zero()
    try:
        guarded(PrivVal(1))(offender)(); check(False, "corner 3: no error")
    except AssertionError: pass
    check(snap() == before, "corner 3: " + snapstr(snap()) + " before " + snapstr(before))
    rt.ignore_errors(False)
    # 4. deep nesting 1,1,0,1: conjunction and suppression at each level, restored level by level
    vals = [1, 1, 0, 1, 1]
    def nest(i, acc):
        def f():
            a = acc & vals[i]
            check(rt.guard.value == a, "corner 4: level %d guard %s expected %s" % (i, rt.guard.value, a))
            check(bool(rt.ignore_errors()) == (a == 0), "corner 4: level %d suppression" % i)
            check(LinComb.ONE is rt.guard, "corner 4: ONE")
            if i + 1 < len(vals):
                b = snap(); nest(i+1, a)(); check(snap() == b, "corner 4: level %d not restored" % i)
            if a == 0: PrivVal(1).assert_zero()
        return guarded(PrivVal(vals[i]))(f)
    nest(0, 1)()
    check(snap() == clean, "corner 4: " + snapstr(snap()))
    # 5. lazy branches: exception in the first one, second never entered; state restored
    def boom(): raise Boom()
    for b in (0, 1):
        try: if_then_else(PrivValBool(b), boom, lambda: PrivVal(1)); check(False, "corner 5")
        except Boom: pass
        check(snap() == clean, "corner 5: " + snapstr(snap()))
        try: if_then_else(PrivValBool(b), lambda: PrivVal(1), boom); check(False, "corner 5")
        except Boom: pass
        check(snap() == clean, "corner 5b: " + snapstr(snap()))
    # 6. everything emitted so far (wrong values only in branches not taken) holds on the witness
    if SJ:
        for i, (v, w, y) in enumerate(sj.constraints):
            if (evallc(v) * evallc(w) - evallc(y)) % P != 0:
                fail("corner cases: constraint %d does not hold on the witness" % i); break

corner_cases()
N = 2500 if SJ else 4000
nsat = 0
for seed in range(N):
    if not run_program(seed): nsat += 1
print("[%s] %d random programs (%d with all constraints %s), %d constraints emitted, %d violations"
      % (BE, N, nsat, "evaluated on the witness" if SJ else "expected satisfiable", rt.num_constraints, len(failures)))
sys.exit(1 if failures else 0)
