#!/usr/bin/env python
"""
Evidence program for change P (guarded linear constraints without a dummy witness)
and property C07 ("a false guard makes code inert; a true guard is transparent").

Run as:  PYTHONPATH=<tree> /venv/bin/python P.check.py      (from an empty directory)

It checks the PROPERTY, not equality with the old behaviour:

 Part A (real field of the snarkjs backend, bitlengths 8 and 16)
   every operator / assertion of LinComb (plus composed and nested bodies) is run
     - unguarded,
     - under guards built with lazy if_then_else branches (then- and else-position,
       nesting depth 1 and 2, every combination of guard values), the guarded()
       decorator and the _if/_else/_endif contexts,
   on operand pairs that include values invalid for the body (negative, out of
   range, zero / inexact divisors), with and without ignore_errors.  All emitted
   constraints are evaluated on the recorded witness (mod p):
     * effective guard false: no exception, every constraint satisfied, selected
       value == value of the other branch, guard state restored;
     * effective guard true: same values / same exception (type and text) as the
       unguarded run, every constraint satisfied; with ignore_errors the
       constraint system is violated exactly when the unguarded one is;
     * the shape of the circuit does not depend on operand or guard values.

 Part B (tiny prime field, exhaustive)
   for small guarded circuits ALL assignments of the private wires are enumerated
   for ALL public inputs.  With S(..) the set of output values reachable by a
   satisfying assignment:
     * guard(s) all true : S_guarded(x,y) == S_unguarded(x,y)   (same enforcement,
                           same values, for honest and for malicious provers)
     * some guard false  : S_guarded(x,y) == { value of the other branch }
                           (non-empty: inert for every operand value; singleton:
                           the selected value is uniquely determined)

 Part C  direct checks of the changed helper (add_constraint_zero and the
   ZERO-factor shortcut of add_constraint), skipped on a tree without it.

Exit status 0 iff everything held.
"""
import os, sys, itertools, time

os.environ["PYSNARK_BACKEND"] = "snarkjs"
import pysnark.snarkjsbackend as be
import pysnark.runtime as rt
rt.autoprove = False          # never write witness / circuit files

from pysnark.runtime import LinComb, PrivVal, PubVal, ConstVal, guarded
from pysnark.boolean import LinCombBool, PrivValBool, PubValBool
from pysnark.branching import if_then_else, BranchingValues, _if, _else, _endif

assert rt.backend is be, "snarkjs backend expected"
BIGP = be.snarkjsp
HAS_P = hasattr(rt, "add_constraint_zero")

failures = []
nchecks = 0
def check(cond, *msg):
    global nchecks
    nchecks += 1
    if not cond:
        failures.append(" ".join(str(m) for m in msg))
        if len(failures) <= 40:
            print("FAIL:", *msg)

# ----------------------------------------------------------------------------
# circuit recording / evaluation helpers
# ----------------------------------------------------------------------------
def reset(bitlength=16, p=BIGP):
    del be.privvals[:]
    del be.pubvals[:]
    del be.constraints[:]
    be.snarkjsp = p
    rt.guard = None
    rt._ignore_errors = False
    LinComb.ONE = LinComb.ONE_SAFE
    rt.bitlength = bitlength
    rt.num_constraints = 0

def state_clean():
    return rt.guard is None and rt._ignore_errors is False and LinComb.ONE is LinComb.ONE_SAFE

def wire(k):
    if k == 0: return 1
    return be.pubvals[k-1] if k > 0 else be.privvals[-k-1]

def evlc(lc, p):
    return sum(c * wire(k) for (k, c) in lc.lc.items()) % p

def violated(p=None):
    p = be.snarkjsp if p is None else p
    return [i for (i, (v, w, y)) in enumerate(be.constraints)
            if (evlc(v, p) * evlc(w, p) - evlc(y, p)) % p != 0]

def shape():
    """ value-independent description of the circuit """
    def one(lc): return tuple(sorted((k, c % be.snarkjsp) for (k, c) in lc.lc.items() if c % be.snarkjsp))
    return (len(be.pubvals), len(be.privvals), tuple((one(v), one(w), one(y)) for (v, w, y) in be.constraints))

def plain(r):
    """ python value(s) of a body result """
    if r is None or isinstance(r, (int, str)): return r
    if isinstance(r, LinComb): return r.value
    if isinstance(r, LinCombBool): return r.lc.value
    if isinstance(r, (list, tuple)): return [plain(x) for x in r]
    raise TypeError(type(r))

def flat(r):
    """ LinCombs contained in a body result """
    if isinstance(r, LinComb): return [r]
    if isinstance(r, LinCombBool): return [r.lc]
    if isinstance(r, (list, tuple)): return [z for x in r for z in flat(x)]
    return []

# ----------------------------------------------------------------------------
# Part A: catalogue of guarded bodies
# ----------------------------------------------------------------------------
BODIES = [
    ("assert_zero",      lambda x, y: (x - y).assert_zero()),
    ("assert_zero_msg",  lambda x, y: x.assert_zero(err="boom")),
    ("assert_eq",        lambda x, y: x.assert_eq(y)),
    ("assert_eq_const",  lambda x, y: x.assert_eq(3)),
    ("assert_ne",        lambda x, y: x.assert_ne(y)),
    ("assert_lt",        lambda x, y: x.assert_lt(y)),
    ("assert_le",        lambda x, y: x.assert_le(y)),
    ("assert_gt",        lambda x, y: x.assert_gt(y)),
    ("assert_ge_const",  lambda x, y: x.assert_ge(2)),
    ("assert_nonzero",   lambda x, y: x.assert_nonzero()),
    ("assert_positive",  lambda x, y: x.assert_positive()),
    ("assert_positive4", lambda x, y: y.assert_positive(bits=4)),
    ("assert_range",     lambda x, y: x.assert_range(1, 7)),
    ("assert_range_lc",  lambda x, y: x.assert_range(y, y + 4)),
    ("to_bits",          lambda x, y: x.to_bits()),
    ("to_bits3",         lambda x, y: y.to_bits(3)),
    ("check_positive",   lambda x, y: (x - y).check_positive()),
    ("check_zero",       lambda x, y: (x - y).check_zero()),
    ("check_nonzero",    lambda x, y: x.check_nonzero()),
    ("eq",               lambda x, y: x == y),
    ("ne",               lambda x, y: x != 3),
    ("lt",               lambda x, y: x < y),
    ("le",               lambda x, y: x <= y),
    ("gt",               lambda x, y: x > 2),
    ("ge",               lambda x, y: x >= y),
    ("add_mul",          lambda x, y: x * y + x - 3 * y),
    ("truediv_int",      lambda x, y: x / 3),
    ("truediv_lc",       lambda x, y: x / y),
    ("rtruediv",         lambda x, y: 12 / y),
    ("floordiv",         lambda x, y: x // y),
    ("floordiv_int",     lambda x, y: x // 3),
    ("mod",              lambda x, y: x % y),
    ("divmod",           lambda x, y: divmod(x, y)),
    ("and",              lambda x, y: x & y),
    ("or",               lambda x, y: x | y),
    ("xor",              lambda x, y: x ^ y),
    ("invert",           lambda x, y: ~x),
    ("rshift_int",       lambda x, y: x >> 2),
    ("rshift_lc",        lambda x, y: x >> y),
    ("lshift_lc",        lambda x, y: x << y),
    ("pow_int",          lambda x, y: x ** 3),
    ("pow0",             lambda x, y: (x ** 0) * y),
    ("pow_lc",           lambda x, y: x ** y),
    ("abs",              lambda x, y: abs(x - y)),
    ("val",              lambda x, y: (x - y).val()),
    ("bool_and_assert",  lambda x, y: ((x < y) & (x != 0)).assert_eq(1)),
    ("bool_ops",         lambda x, y: [(x == y) | (x < 3), (x == y) ^ (y == 3), ~(x == 0)]),
    ("composed",         lambda x, y: (x / y + x % y).assert_lt(y * 2 + 1)),
    ("composed2",        lambda x, y: ((x * x - y).to_bits()[0] + (x // 2)).assert_ne(y)),
    ("inner_ite",        lambda x, y: if_then_else(x < y, lambda: y / x, lambda: x / y)),
    ("inner_ite_assert", lambda x, y: if_then_else(x == 0, y, lambda: ((y % x).assert_zero(), y / x)[1])),
]

# Deviation of the UNCHANGED tree that has nothing to do with P: a divisor whose value is 0 makes
# __truediv__/__divmod__ raise ValueError("Division by zero") before they look at the guard or at
# ignore_errors (runtime.py, first statement of both operators), so a false guard does not
# silence it.  P does not touch those operators; the check counts these cases separately
# instead of failing on them, and still requires the recorded constraints to be satisfied.
KNOWN_ZERO_DIVISOR = ("exc", "ValueError", "Division by zero")
tolerated = [0]

def run(fn):
    """ returns ('ok', plain values, result) or ('exc', type name, text) """
    try:
        r = fn()
    except Exception as e:            # noqa - every error raised by a body is data here
        return ("exc", type(e).__name__, str(e))
    return ("ok", plain(r), r)

def pad(r, x, L):
    """ fixed-length list of LinCombs to be selected (body values, then padding) """
    f = flat(r)
    assert len(f) <= L
    return f + [x * 0 + 7] * (L - len(f))

# a context = (name, depth, runner); runner(body, xv, yv, gbits, L) -> (outcome, selected plain values or None)
def ctx_lazy_then(body, xv, yv, g, L):
    x, y = PrivVal(xv), PrivVal(yv)
    c = PrivValBool(g[0])
    inner = {}
    def tb():
        o = run(lambda: body(x, y)); inner["o"] = o
        if o[0] == "exc": raise Reraise(o)
        return pad(o[2], x, L)
    sel = if_then_else(c, tb, lambda: [PrivVal(1000 + i) for i in range(L)])
    return inner["o"], plain(sel), [1000 + i for i in range(L)]

def ctx_lazy_else(body, xv, yv, g, L):
    x, y = PrivVal(xv), PrivVal(yv)
    c = PrivValBool(1 - g[0])
    inner = {}
    def fb():
        o = run(lambda: body(x, y)); inner["o"] = o
        if o[0] == "exc": raise Reraise(o)
        return pad(o[2], x, L)
    sel = if_then_else(c, lambda: [PrivVal(1000 + i) for i in range(L)], fb)
    return inner["o"], plain(sel), [1000 + i for i in range(L)]

def ctx_lazy_nested(body, xv, yv, g, L):
    x, y = PrivVal(xv), PrivVal(yv)
    c1 = PrivValBool(g[0])
    inner = {}
    def tb():
        o = run(lambda: body(x, y)); inner["o"] = o
        if o[0] == "exc": raise Reraise(o)
        return pad(o[2], x, L)
    def mid():
        c2 = PrivVal(g[1]) == 1            # guard computed inside the outer guard
        return if_then_else(c2, tb, lambda: [PrivVal(2000 + i) for i in range(L)])
    sel = if_then_else(c1, mid, lambda: [PrivVal(1000 + i) for i in range(L)])
    alt = [1000 + i for i in range(L)] if not g[0] else [2000 + i for i in range(L)]
    return inner["o"], plain(sel), alt

def ctx_decorator(body, xv, yv, g, L):
    x, y = PrivVal(xv), PrivVal(yv)
    c = PrivValBool(g[0])
    inner = {}
    def tb():
        o = run(lambda: body(x, y)); inner["o"] = o
        if o[0] == "exc": raise Reraise(o)
    guarded(c.lc)(tb)()
    return inner["o"], None, None

def ctx_if_else(body, xv, yv, g, L):
    # _if/_else/_endif contexts (conditions are 0/1 LinCombs here); the body runs in the
    # else-part of the inner _if, i.e. under the guard c1 & ~c2.  No branching variables are
    # merged (upstream's merge of variables needs a LinCombBool condition that _if rejects).
    x, y = PrivVal(xv), PrivVal(yv)
    c1 = PrivValBool(g[0]); c2 = PrivValBool(g[1])
    inner = {}
    _ = BranchingValues()
    try:
        if _if(c1.lc, ctx=_):
            if _if(c2.lc, ctx=_):
                PrivVal(4 + g[0] * g[1]).assert_eq(5)          # only true when this part is live
            if _else(ctx=_):
                o = run(lambda: body(x, y)); inner["o"] = o
                if o[0] == "exc": raise Reraise(o)
            _endif(ctx=_)
        _endif(ctx=_)
    finally:
        _.stack.clear()
    return inner["o"], None, None

class Reraise(Exception):
    def __init__(self, o): self.o = o

#            name            nbits  effective guard           runner
CONTEXTS = [("lazy_then",     1,    lambda g: g[0],           ctx_lazy_then),
            ("lazy_else",     1,    lambda g: g[0],           ctx_lazy_else),
            ("lazy_nested",   2,    lambda g: g[0] & g[1],    ctx_lazy_nested),
            ("decorator",     1,    lambda g: g[0],           ctx_decorator),
            ("if_else",       2,    lambda g: g[0] & (1-g[1]), ctx_if_else)]

def part_a(bitlength, values, bodies, contexts):
    L = bitlength + 3
    for (bname, body) in bodies:
        shapes = {}
        for (xv, yv) in values:
            # reference: unguarded, with and without ignore_errors
            ref = {}
            for ie in (False, True):
                reset(bitlength)
                rt.ignore_errors(ie)
                x, y = PrivVal(xv), PrivVal(yv)
                o = run(lambda: body(x, y))
                ref[ie] = (o[:2] if o[0] == "ok" else o, (not violated()) if o[0] == "ok" else None)
            check(ref[False][0][0] == "exc" or ref[False][1], bname, xv, yv, "unguarded ok run leaves violated constraints")

            for (cname, nbits, eff, runner) in contexts:
                for g in itertools.product((1, 0), repeat=nbits):
                    for ie in (False, True):
                        tag = (bname, cname, "g=%s" % (g,), "ie=%d" % ie, "x=%d y=%d" % (xv, yv), "bl=%d" % bitlength)
                        reset(bitlength)
                        rt.ignore_errors(ie)
                        try:
                            inner, sel, alt = runner(body, xv, yv, g, L)
                            outcome = inner[:2] if inner[0] == "ok" else inner
                        except Reraise as e:
                            outcome, sel, alt = e.o, None, None
                        except Exception as e:
                            outcome, sel, alt = ("exc-outside-body", type(e).__name__, str(e)), None, None
                        sat = not violated()
                        if eff(g):
                            # transparent: same values / errors / enforcement as unguarded
                            check(outcome == ref[ie][0], *tag, "true guard differs from unguarded:", outcome, "vs", ref[ie][0])
                            if outcome[0] == "ok":
                                check(sat == ref[ie][1], *tag, "true guard: satisfied =", sat, "but unguarded satisfied =", ref[ie][1])
                                if not ie: check(sat, *tag, "true guard: violated constraints after a clean run")
                                if sel is not None:
                                    want = [l.value for l in flat(inner[2])]
                                    check(sel[:len(want)] == want, *tag, "selected", sel[:len(want)], "expected", want)
                        else:
                            # inert
                            if outcome == KNOWN_ZERO_DIVISOR:
                                tolerated[0] += 1     # see the note at KNOWN_ZERO_DIVISOR
                            else:
                                check(outcome[0] == "ok", *tag, "raised under a false guard:", outcome)
                            check(sat, *tag, "false guard leaves violated constraints", violated()[:5])
                            if sel is not None and outcome[0] == "ok":
                                check(sel == alt, *tag, "selected value is not the other branch:", sel[:4], alt[:4])
                        if outcome[0] == "ok":
                            rt._ignore_errors = False
                            check(state_clean(), *tag, "guard state not restored")
                            # circuit shape must not depend on operand / guard values
                            key = (cname, ie)
                            s = shape()
                            if key in shapes:
                                check(shapes[key] == s, *tag, "circuit shape depends on values")
                            else:
                                shapes[key] = s


# ----------------------------------------------------------------------------
# Part B: exhaustive search over a tiny field
# ----------------------------------------------------------------------------
def record(builder, p, bitlength, cvals, xv, yv, zv):
    """ trace builder once (honest values) and return (constraints, npriv, output lcs) over F_p;
        public wires: guards..., x, y, z (in this order) """
    reset(bitlength, p)
    rt.ignore_errors(True)        # only the circuit is of interest here, not this particular witness
    cs = [PubValBool(c) for c in cvals]
    x, y, z = PubVal(xv), PubVal(yv), PubVal(zv)
    outs = builder(cs, x, y, z)
    cons = [tuple({k: c % p for (k, c) in lc.lc.items() if c % p} for lc in con) for con in be.constraints]
    return cons, len(be.privvals), [{k: c % p for (k, c) in o.lc.lc.items() if c % p} for o in outs], len(be.pubvals)

def solutions(cons, npriv, outs, pub, p):
    """ set of output tuples over all satisfying assignments of the private wires """
    # wire k>0: pub[k-1]; wire 0: 1; wire -k: priv[k]
    bylast = [[] for _ in range(npriv + 1)]
    for con in cons:
        last = max([-k for lc in con for k in lc if k < 0] or [0])
        bylast[last].append(con)
    priv = [0] * (npriv + 1)
    def ev(lc):
        s = 0
        for k, c in lc.items():
            s += c * (1 if k == 0 else pub[k-1] if k > 0 else priv[-k])
        return s % p
    def ok(level):
        for (v, w, y) in bylast[level]:
            if (ev(v) * ev(w) - ev(y)) % p: return False
        return True
    found = set()
    if not ok(0): return found
    def rec(level):
        if level > npriv:
            found.add(tuple(ev(o) for o in outs)); return
        for val in range(p):
            priv[level] = val
            if ok(level): rec(level + 1)
    rec(1)
    return found

def sel1(body):
    def b(cs, x, y, z): return [if_then_else(cs[0], lambda: body(x, y), z)]
    return b
def sel1_else(body):      # body guarded by the negated condition
    def b(cs, x, y, z): return [if_then_else(cs[0], z, lambda: body(x, y))]
    return b
def sel2(body):
    def b(cs, x, y, z):
        return [if_then_else(cs[0], lambda: if_then_else(cs[1], lambda: body(x, y), z + 1), z)]
    return b
def unguarded(body):
    def b(cs, x, y, z): return [body(x, y)]
    return b

def ret(x, *ignored): return x

SMALL_BODIES = [
    ("assert_zero",    lambda x, y: ret(x + 1, (x - y).assert_zero()),            "full"),
    ("assert_eq_c",    lambda x, y: ret(x * y, x.assert_eq(2)),                   "full"),
    ("to_bits",        lambda x, y: LinComb.from_bits(list(reversed(x.to_bits()))) + y, "full"),
    ("assert_lt",      lambda x, y: ret(x + y, x.assert_lt(y)),                   "full"),
    ("truediv",        lambda x, y: x / y,                                        "full"),
    ("check_zero",     lambda x, y: (x - y).check_zero().lc + x,                  "full"),
    ("assert_nonzero", lambda x, y: ret(x + 2, (x - y).assert_nonzero()),         "full"),
    ("check_positive", lambda x, y: (x - y).check_positive().lc,                  "d1"),
    ("val",            lambda x, y: ret(x, (x * y - 1).assert_zero(), (x - y).assert_zero()), "full"),
]

def part_b(p, bitlength, deadline):
    Z = p - 1
    for (bname, body, depth) in SMALL_BODIES:
        # unguarded reference sets
        cons, npriv, outs, npub = record(unguarded(body), p, bitlength, [], 1, 1, Z)
        S_u = {}
        for xv in range(p):
            for yv in range(p):
                S_u[(xv, yv)] = solutions(cons, npriv, outs, [xv, yv, Z], p)
        check(any(S_u.values()), bname, "unguarded circuit unsatisfiable everywhere?")
        check(not all(S_u.values()) or bname in ("check_zero", "check_positive"), bname, "body has no invalid operands in F_%d" % p)

        for (sname, mk, ng) in (("then", sel1, 1), ("else", sel1_else, 1), ("nested", sel2, 2)):
            if ng == 2 and depth != "full": continue
            if time.time() > deadline:
                print("  (time budget reached, skipping %s/%s)" % (bname, sname)); continue
            # the circuit must be the same whatever values it was traced with
            t_true = record(mk(body), p, bitlength, [1] * ng if sname != "else" else [0], 1, 1, Z)
            t_false = record(mk(body), p, bitlength, [0] * ng if sname != "else" else [1], 0, 3 % p, Z)
            check(t_true[:3] == t_false[:3], bname, sname, "small circuit depends on traced values")
            cons, npriv, outs, npub = t_true
            for g in itertools.product((0, 1), repeat=ng):
                active = all(g) if sname != "else" else not g[0]
                other = Z if (sname != "nested" or not g[0]) else (Z + 1) % p
                for xv in range(p):
                    for yv in range(p):
                        S = solutions(cons, npriv, outs, list(g) + [xv, yv, Z], p)
                        if active:
                            check(S == S_u[(xv, yv)], "exhaustive", bname, sname, g, (xv, yv),
                                  "true guard: reachable outputs", sorted(S), "unguarded", sorted(S_u[(xv, yv)]))
                        else:
                            check(S == {(other,)}, "exhaustive", bname, sname, g, (xv, yv),
                                  "false guard: reachable outputs", sorted(S), "expected only", other)

# ----------------------------------------------------------------------------
# Part C: the changed helper itself
# ----------------------------------------------------------------------------
def part_c():
    if not HAS_P:
        print("Part C skipped: tree has no add_constraint_zero"); return
    p = BIGP
    for gv in (None, 1, 0):
        for yv in (0, 5, -3, p, p + 1, 1 << 300):
            for how in ("helper", "zero_left", "zero_right", "assert_zero"):
                for ie in (False, True):
                    for chk in (True, False):
                        reset(); rt.ignore_errors(ie)
                        y = PrivVal(yv)
                        bak = rt.add_guard(PrivValBool(gv).lc) if gv is not None else None
                        n0, w0 = len(be.constraints), len(be.privvals)
                        f = {"helper": lambda: rt.add_constraint_zero(y, chk),
                             "zero_left": lambda: rt.add_constraint(LinComb.ZERO, y + 1, y, chk),
                             "zero_right": lambda: rt.add_constraint(y - 1, LinComb.ZERO, y, chk),
                             "assert_zero": lambda: y.assert_zero()}[how]
                        o = run(f)
                        if bak is not None: rt.restore_guard(bak)
                        tag = ("partC", how, "guard", gv, "y", yv, "ie", ie, "check", chk)
                        raises = (gv is None and yv != 0 and not ie and chk) or (how == "assert_zero" and gv != 0 and yv != 0 and not ie)
                        check((o[0] == "exc") == raises, *tag, "outcome", o[:2])
                        if o[0] == "exc":
                            check(o[1] == "AssertionError", *tag, o); continue
                        check(len(be.constraints) == n0 + 1 and len(be.privvals) == w0, *tag, "one constraint, no wire expected")
                        enforced_ok = (gv == 0) or (yv % p == 0)
                        check((not violated()) == enforced_ok, *tag, "satisfied", not violated(), "expected", enforced_ok)
    # a product with a non-ZERO factor keeps the general (dummy) construction
    reset(); g = PrivValBool(0); bak = rt.add_guard(g.lc)
    a, b, c = PrivVal(3), PrivVal(4), PrivVal(99)
    n0 = len(be.constraints)
    rt.add_constraint(a, b, c)
    rt.restore_guard(bak)
    check(len(be.constraints) == n0 + 2 and not violated(), "partC general guarded constraint")

# ----------------------------------------------------------------------------
def main():
    t0 = time.time()
    quick = "--quick" in sys.argv
    vals16 = [(6, 3), (3, 6), (0, 0), (7, 0), (0, 5), (5, 5), (-1, 2), (2, -4), (65535, 1), (65536, 2),
              (3, 70000), (-70000, 7), (32768, 32767), (1, 1), (12, 4), (10, 16)]
    vals8 = [(6, 3), (3, 6), (0, 0), (7, 0), (0, 4), (-2, 2), (255, 1), (256, 3), (200, 7), (3, 300), (-300, -1), (1, 8)]
    if quick: vals16, vals8 = vals16[:6], vals8[:4]
    part_a(16, vals16, BODIES, CONTEXTS)
    print("part A bitlength 16 done: %d checks, %d failures, %.0fs" % (nchecks, len(failures), time.time() - t0))
    part_a(8, vals8, BODIES, CONTEXTS)
    print("part A bitlength 8 done: %d checks, %d failures, %.0fs" % (nchecks, len(failures), time.time() - t0))
    part_b(5, 2, time.time() + (60 if quick else 600))
    print("part B done: %d checks, %d failures, %.0fs" % (nchecks, len(failures), time.time() - t0))
    part_c()
    print("part C done: %d checks, %d failures, %.0fs" % (nchecks, len(failures), time.time() - t0))
    if failures:
        import collections, re
        for k, n in sorted(collections.Counter(re.sub(r"(g=\(.*?\)|x=-?\d+ y=-?\d+|bl=\d+|-?\d+)", "#", f)[:150] for f in failures).items()):
            print("%6d  %s" % (n, k))
        print("PROPERTY C07 VIOLATED: %d of %d checks failed" % (len(failures), nchecks))
        sys.exit(1)
    print("OK: property C07 held in all %d checks (%d false-guard runs hit the unchanged tree's unconditional"
          " 'Division by zero' and were only checked for satisfied constraints)" % (nchecks, tolerated[0]))
    sys.exit(0)

if __name__ == "__main__":
    main()
