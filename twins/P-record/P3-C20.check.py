#!/usr/bin/env python
"""
Evidence program for property C20 (hash gadgets equal a plain reference and use the
active backend's parameters), written for change P (public capacity / padding elements
of the first sponge block stay plain integers).

Run as:   PYTHONPATH=<tree> /venv/bin/python P.check.py      (from an empty directory)

The driver starts one worker process per (backend, way of selecting it), because pysnark
fixes its backend when pysnark.runtime is imported.  Every worker

  * checks that pysnark.poseidon_hash uses exactly the parameter set registered for
    runtime.backend_name (and refuses to load, instead of falling back to the toy set,
    when nothing is registered),
  * compares the traced permutation / sponge with an independent plain-integer Poseidon
    written below (column-vector mix  out[i] = sum_k M[i][k] * s[k],  pad 1,0,..,0 up to
    the next block boundary STRICTLY after the message),
  * replays the published permutation test vectors (zkinterface, zkifbellman),
  * evaluates every constraint emitted during each call on the recorded witness, and
    evaluates the linear combination of every output wire on that witness,
  * checks that the number of constraints, and the normalised constraint structure,
    depend on the length of the message only, never on the values,
  * checks padding: digests of messages that collide under a sloppy padding are
    pairwise different, and the digest equals a hand-made chain of traced permute()
    calls over the explicitly padded blocks,
  * repeats all of this inside lazy if_then_else branches (taken and not taken, nested),
    with ignore_errors switched on, with negative / >= p / huge values and with
    LinCombBool / LinCombFxp / PubVal / ConstVal / composite inputs.

Exit status 0 iff the property held everywhere.
"""
import os
import subprocess
import sys

BACKEND_MODULES = {
    "libsnark": "pysnark.libsnark.backend",
    "libsnarkgg": "pysnark.libsnark.backendgg",
    "qaptools": "pysnark.qaptools.backend",
    "snarkjs": "pysnark.snarkjsbackend",
    "zkinterface": "pysnark.zkinterface.backend",
    "zkifbellman": "pysnark.zkinterface.backendbellman",
    "zkifbulletproofs": "pysnark.zkinterface.backendbulletproofs",
    "nobackend": "pysnark.nobackend",
}
ORDER = ["libsnark", "libsnarkgg", "qaptools", "snarkjs", "zkinterface", "zkifbellman",
         "zkifbulletproofs", "nobackend"]

# (expected backend, way, level)
RUNS = [
    ("zkinterface", "env", "full"),
    ("zkifbellman", "env", "medium"),
    ("zkifbulletproofs", "env", "medium"),
    ("nobackend", "env", "full"),
    ("zkinterface", "preimport", "light"),
    ("nobackend", "preimport", "light"),
    ("zkinterface", "auto", "light"),      # everything listed before zkinterface is not importable
    ("nobackend", "auto", "light"),        # nothing but nobackend is importable
    ("snarkjs", "env", "unsupported"),     # no parameter set registered: must refuse
    ("snarkjs", "auto", "unsupported"),
]

PUBLISHED = {
    "zkinterface": [0x299c867db6c1fdd79dcefa40e4510b9837e60ebb1ce0663dbaa525df65250465,
                    0x1148aaef609aa338b27dafd89bb98862d8bb2b429aceac47d86206154ffe053d,
                    0x24febb87fed7462e23f6665ff9a0111f4044c38ee1672c1ac6b0637d34f24907,
                    0x0eb08f6d809668a981c186beaf6110060707059576406b248e5d9cf6e78b3d3e,
                    0x07748bc6877c9b82c8b98666ee9d0626ec7f5be4205f79ee8528ef1c4a376fc7],
    "zkifbellman": [0x2a918b9c9f9bd7bb509331c81e297b5707f6fc7393dcee1b13901a0b22202e18,
                    0x65ebf8671739eeb11fb217f2d5c5bf4a0c3f210e3f3cd3b08b5db75675d797f7,
                    0x2cc176fc26bc70737a696a9dfd1b636ce360ee76926d182390cdb7459cf585ce,
                    0x4dc4e29d283afd2a491fe6aef122b9a968e74eff05341f3cc23fda1781dcb566,
                    0x03ff622da276830b9451b88b85e6184fd6ae15c8ab3ee25a5667be8592cce3b1],
}


# ----------------------------------------------------------------------------- driver
def driver():
    env = dict(os.environ)
    env.pop("PYSNARK_BACKEND", None)
    bad = 0
    for (name, way, level) in RUNS:
        r = subprocess.run([sys.executable, os.path.abspath(__file__), "--worker", name, way, level],
                           env=env, stdout=subprocess.PIPE, stderr=subprocess.STDOUT, text=True)
        tail = [l for l in r.stdout.splitlines() if l.startswith(("OK", "FAIL", "  "))]
        print("== %-17s selected by %-9s (%s): %s" % (name, way, level, "ok" if r.returncode == 0 else "FAILED"))
        for l in tail:
            print("   " + l)
        if r.returncode != 0:
            bad += 1
            if not any(l.startswith("FAIL") for l in tail):
                print(r.stdout[-3000:])
    if bad:
        print("PROPERTY C20 VIOLATED in %d of %d configurations" % (bad, len(RUNS)))
        return 1
    print("property C20 held in all %d configurations" % len(RUNS))
    return 0


# ----------------------------------------------------------------------------- worker
class Failure(Exception):
    pass


def check(cond, msg):
    if not cond:
        raise Failure(msg)


def install_flatbuffers_stub():
    import types
    try:
        import flatbuffers  # noqa: F401
        return
    except ImportError:
        pass
    fb = types.ModuleType("flatbuffers")
    compat = types.ModuleType("flatbuffers.compat")
    compat.import_numpy = lambda: None
    fb.compat = compat
    sys.modules["flatbuffers"] = fb
    sys.modules["flatbuffers.compat"] = compat


class Blocker:
    """ meta path finder that makes the given modules unimportable (for auto-detection) """
    def __init__(self, names):
        self.names = set(names)

    def find_spec(self, fullname, path=None, target=None):
        if fullname in self.names:
            raise ImportError("blocked for the test: " + fullname)
        return None


def select_backend(name, way):
    import importlib
    os.environ.pop("PYSNARK_BACKEND", None)
    install_flatbuffers_stub()
    if way == "env":
        os.environ["PYSNARK_BACKEND"] = name
    elif way == "preimport":
        importlib.import_module(BACKEND_MODULES[name])
    elif way == "auto":
        earlier = ORDER[:ORDER.index(name)]
        sys.meta_path.insert(0, Blocker([BACKEND_MODULES[n] for n in earlier]))
    else:
        raise ValueError(way)
    from pysnark import runtime
    runtime.autoprove = False
    return runtime


def ref_permute(state, C, p):
    t, a, R_F, R_P = C["t"], C["a"], C["R_F"], C["R_P"]
    rc, M = C["round_constants"], C["matrix"]
    s = [x % p for x in state]
    assert len(s) == t

    def mix(v):
        return [sum(M[i][k] * v[k] for k in range(t)) % p for i in range(t)]
    r = 0
    for _ in range(R_F // 2):
        s = [(x + c) % p for (x, c) in zip(s, rc[r])]
        s = [pow(x, a, p) for x in s]
        s = mix(s)
        r += 1
    for _ in range(R_P):
        s = [(x + c) % p for (x, c) in zip(s, rc[r])]
        s[0] = pow(s[0], a, p)
        s = mix(s)
        r += 1
    for _ in range(R_F // 2):
        s = [(x + c) % p for (x, c) in zip(s, rc[r])]
        s = [pow(x, a, p) for x in s]
        s = mix(s)
        r += 1
    return s


def ref_pad(vals, C, p):
    rate = C["t"] - 1
    msg = [v % p for v in vals] + [1]
    while len(msg) % rate:
        msg.append(0)
    return msg


def ref_hash(vals, C, p):
    t = C["t"]
    rate = t - 1
    msg = ref_pad(vals, C, p)
    state = [0] * t
    for i in range(0, len(msg), rate):
        state = [state[0]] + [(x + y) % p for (x, y) in zip(state[1:], msg[i:i + rate])]
        state = ref_permute(state, C, p)
    return state[1:]


def worker(name, way, level):
    import random
    rnd = random.Random(20 + len(name))
    runtime = select_backend(name, way)
    from pysnark.poseidon_constants import poseidon_constants

    # ---- selection -----------------------------------------------------------------
    check(runtime.backend_name == name, "runtime selected %r, the test expected %r" % (runtime.backend_name, name))
    check(runtime.backend is sys.modules[BACKEND_MODULES[name]], "runtime.backend is not the module of " + name)
    if level == "unsupported":
        check(name not in poseidon_constants, "test assumption: no parameters registered for " + name)
        try:
            import pysnark.poseidon_hash as ph
        except NotImplementedError:
            print("OK   no parameter set registered for %s: poseidon_hash refuses to load" % name)
            return
        raise Failure("backend %s has no registered parameter set, but poseidon_hash loaded with R_F=%d R_P=%d"
                      % (name, ph.R_F, ph.R_P))

    import pysnark.poseidon_hash as ph
    from pysnark.poseidon_hash import permute, poseidon_hash
    from pysnark.runtime import PrivVal, PubVal, ConstVal, LinComb
    from pysnark.boolean import PrivValBool, LinCombBool
    from pysnark.fixedpoint import PrivValFxp, LinCombFxp
    from pysnark.branching import if_then_else

    C = poseidon_constants[runtime.backend_name]
    for k in ("R_F", "R_P", "t", "a", "round_constants", "matrix"):
        check(getattr(ph, k) == C[k], "poseidon_hash.%s is not the value registered for %s" % (k, name))
    if name != "nobackend":
        toy = poseidon_constants["nobackend"]
        check((ph.R_F, ph.R_P, ph.a) != (toy["R_F"], toy["R_P"], toy["a"]) and ph.matrix != toy["matrix"],
              "toy parameter set in use for backend " + name)
    p = runtime.backend.get_modulus()
    t, rate = C["t"], C["t"] - 1
    be = runtime.backend
    recorded = hasattr(be, "constraints")
    stats = {"hashes": 0, "permutes": 0, "constraints": 0}

    # ---- witness evaluation ----------------------------------------------------------
    def wire(k):
        if k == 0:
            return 1
        return be.pubvals[k - 1] if k > 0 else be.privvals[-k - 1]

    def ev(lc):
        return sum(c * wire(k) for (k, c) in lc.lc.items()) % p

    class Span:
        """ records what one traced call emits, then checks it """
        def __enter__(self):
            self.n0 = runtime.num_constraints
            if recorded:
                self.c0, self.priv0, self.pub0 = len(be.constraints), len(be.privvals), len(be.pubvals)
            return self

        def __exit__(self, *exc):
            self.count = runtime.num_constraints - self.n0
            if recorded and exc[0] is None:
                new = be.constraints[self.c0:]
                check(len(new) == self.count, "backend recorded %d constraints, runtime counted %d" % (len(new), self.count))
                for (i, (v, w, y)) in enumerate(new):
                    check((ev(v) * ev(w) - ev(y)) % p == 0, "constraint #%d of this call does not hold on the witness" % i)
                stats["constraints"] += len(new)
            return False

        def structure(self):
            """ constraint system of this call with wire numbers relative to the start of the call """
            def norm(lc):
                out = []
                for (k, c) in lc.lc.items():
                    if c % p == 0:
                        continue
                    kk = ("one", 0) if k == 0 else (("pub", k - self.pub0) if k > 0 else ("priv", -k - self.priv0))
                    out.append((kk, c % p))
                return tuple(sorted(out))
            return [tuple(norm(x) for x in c) for c in be.constraints[self.c0:]]

    def lcof(x):
        return x.lc if isinstance(x, (LinCombBool, LinCombFxp)) else x

    def outputs_match(out, expect, what):
        check(isinstance(out, list) and len(out) == len(expect), what + ": wrong number of outputs")
        for (i, (o, e)) in enumerate(zip(out, expect)):
            check(isinstance(o, LinComb), what + ": output %d is not a LinComb" % i)
            check(o.value % p == e, what + ": output %d is %d, the plain reference gives %d" % (i, o.value % p, e))
            if recorded:
                check(ev(o.lc) == e, what + ": wire of output %d evaluates to %d on the witness, reference %d" % (i, ev(o.lc), e))

    corner = [0, 1, 2, p - 1, p, p + 1, -1, -p, 2 * p + 3, 2 ** 256 + 5, -(2 ** 300) - 7, p // 2, 3]

    def mk(kind, v):
        if kind == "priv":
            return PrivVal(v)
        if kind == "pub":
            return PubVal(v)
        if kind == "const":
            return ConstVal(v)
        if kind == "lin":
            a0 = rnd.randrange(p)
            return PrivVal(a0) * 3 + PubVal(v + 5 - 3 * a0) - 5
        if kind == "bool":
            return PrivValBool(v & 1)
        if kind == "fxp":
            return PrivValFxp(float((v % 1000) - 500) / 8)
        raise ValueError(kind)

    def plain(xs):
        return [lcof(x).value for x in xs]

    def hash_case(xs, what):
        vals = plain(xs)
        with Span() as sp:
            out = poseidon_hash(xs)
        outputs_match(out, ref_hash(vals, C, p), what)
        stats["hashes"] += 1
        return sp, out

    # ---- permutation -----------------------------------------------------------------
    counts = set()
    states = [[0, 1, 2, 3, 4], [rnd.randrange(p) for _ in range(t)], [p - 1, -1, p, 2 ** 256, 0]]
    if level != "full":
        states = states[:2]
    for st in states:
        with Span() as sp:
            out = permute([PrivVal(v) for v in st])
        outputs_match(out, ref_permute(st, C, p), "permute(%s..)" % str(st)[:30])
        if st == [0, 1, 2, 3, 4] and name in PUBLISHED:
            check([o.value for o in out] == PUBLISHED[name], "published test vector of %s not reproduced" % name)
            check(ref_permute(st, C, p) == PUBLISHED[name], "the reference itself misses the published vector")
        counts.add(sp.count)
        stats["permutes"] += 1
    check(len(counts) == 1, "permute: number of constraints depends on the values: %s" % sorted(counts))
    print("OK   permutation equals the reference%s; %d constraints for every state"
          % (" and the published vector" if name in PUBLISHED else "", counts.pop()))

    # ---- sponge: values, witness, counts ------------------------------------------------
    maxlen = {"full": 12, "medium": 8, "light": 5}[level]
    per_len = {}
    kinds_all = ["priv", "pub", "const", "lin", "bool", "fxp"]
    for n in range(maxlen + 1):
        vectors = [("corner", [corner[(n + i) % len(corner)] for i in range(n)], ["priv"] * n),
                   ("random", [rnd.randrange(p) for _ in range(n)], ["priv"] * n)]
        if level in ("full", "medium"):
            vectors.append(("zeros", [0] * n, ["priv"] * n))
            vectors.append(("mixed", [corner[(3 * i + n) % len(corner)] if i % 2 else rnd.randrange(p) for i in range(n)],
                            [kinds_all[(i + n) % len(kinds_all)] for i in range(n)]))
        if level == "full":
            vectors.append(("pad-like", ([1, 0, 0, 0] * 4)[:n], ["const"] * n))
            vectors.append(("big", [rnd.randrange(-2 ** 600, 2 ** 600) for _ in range(n)], ["pub"] * n))
        for (label, vals, kinds) in vectors:
            xs = [mk(k, v) for (k, v) in zip(kinds, vals)]
            sp, _ = hash_case(xs, "poseidon_hash(len %d, %s)" % (n, label))
            per_len.setdefault(n, set()).add(sp.count)
    for n in per_len:
        check(len(per_len[n]) == 1, "poseidon_hash: %d-element messages cost %s constraints depending on the values"
              % (n, sorted(per_len[n])))
    print("OK   sponge equals the reference for lengths 0..%d; constraints per length: %s"
          % (maxlen, " ".join("%d:%d" % (n, min(per_len[n])) for n in sorted(per_len))))

    # ---- the circuit itself does not depend on the values ---------------------------------
    if recorded:
        for n in ([0, 1, 3, 4, 5, 8] if level == "full" else [1, 4]):
            shapes = []
            for vals in ([0] * n, [rnd.randrange(p) for _ in range(n)], [corner[(i + 3) % len(corner)] for i in range(n)]):
                xs = [PrivVal(v) for v in vals]
                sp, _ = hash_case(xs, "poseidon_hash(structure run, len %d)" % n)
                shapes.append(sp.structure())
            check(shapes[0] == shapes[1] == shapes[2], "constraint system for %d-element messages depends on the values" % n)
        print("OK   identical constraint systems (up to wire offset) for different values of the same length")

    # ---- padding -------------------------------------------------------------------------
    x, a4 = rnd.randrange(p), [rnd.randrange(p) for _ in range(4)]
    families = [[[x], [x, 1], [x, 1, 0], [x, 1, 0, 0], [x, 1, 0, 0, 0], [x, 0], [x, 0, 0, 0]],
                [[], [1], [1, 0], [1, 0, 0, 0], [0], [0, 0, 0, 0], [0, 1]],
                [a4, a4 + [1], a4 + [1, 0, 0, 0], a4 + [0], a4[:3], a4[:3] + [1]]]
    if level == "light":
        families = families[1:2]
    for fam in families:
        seen = {}
        for msg in fam:
            _, out = hash_case([PrivVal(v) for v in msg], "poseidon_hash(%s)" % str(msg)[:40])
            dig = tuple(o.value % p for o in out)
            # (the toy set of nobackend - all-ones matrix over Z/10000 - is no permutation at all,
            #  so distinct padded forms may well collide there; its padded forms are checked below)
            check(name == "nobackend" or dig not in seen, "messages %s and %s have the same digest" % (seen.get(dig), msg))
            seen[dig] = msg
            forms = ref_pad(msg, C, p)
            check(len(forms) % rate == 0 and len(forms) > len(msg), "reference padding broken")
        padded = [tuple(ref_pad(m, C, p)) for m in fam]
        check(len(set(padded)) == len(padded), "reference padding not injective on the family")
    # digest == hand-made chain of traced permutations over the explicitly padded blocks
    for msg in ([], [x], a4[:3], a4, a4 + [x]) if level != "light" else ([], a4):
        blocks = ref_pad(msg, C, p)
        state = [PrivVal(0) for _ in range(t)]
        for i in range(0, len(blocks), rate):
            state = [state[0]] + [s + PrivVal(b) for (s, b) in zip(state[1:], blocks[i:i + rate])]
            with Span():
                state = permute(state)
            stats["permutes"] += 1
        _, out = hash_case([PrivVal(v) for v in msg], "poseidon_hash(%d elements) for the chain test" % len(msg))
        check([o.value % p for o in out] == [s.value % p for s in state[1:]],
              "digest of a %d-element message differs from permute() chained over its padded blocks" % len(msg))
    print("OK   padding: no two messages of the collision families share a digest; digest = permute chain over 1,0,..,0-padded blocks")

    # ---- rejected inputs stay rejected -------------------------------------------------------
    for bad in ((PrivVal(1),), [PrivVal(1), 4], [True], [PrivVal(1), 2.5], "ab", None):
        try:
            poseidon_hash(bad)
        except RuntimeError:
            continue
        raise Failure("poseidon_hash(%r) did not raise RuntimeError" % (bad,))

    # ---- guards, lazy branches, ignore_errors ----------------------------------------------
    lens = [(0, 1), (1, 0), (3, 4), (4, 3), (5, 2), (2, 8)] if level == "full" else [(1, 4), (4, 0)]
    for (n1, n2) in lens:
        for cbit in (0, 1):
            xs = [mk(kinds_all[i % 6], corner[(i + n1) % len(corner)]) for i in range(n1)]
            ys = [PrivVal(rnd.randrange(-p, 2 * p)) for _ in range(n2)]
            c = PrivValBool(cbit)
            with Span():
                out = if_then_else(c, lambda: poseidon_hash(xs), lambda: poseidon_hash(ys))
            outputs_match(out, ref_hash(plain(xs) if cbit else plain(ys), C, p),
                          "if_then_else(%d, hash of %d, hash of %d elements)" % (cbit, n1, n2))
            check(runtime.guard is None and LinComb.ONE is LinComb.ONE_SAFE, "guard not restored")
            stats["hashes"] += 2
    # nested lazy branches
    for (c1, c2) in ((0, 0), (0, 1), (1, 0), (1, 1)) if level != "light" else ((1, 0),):
        xs, ys, zs = [PrivVal(rnd.randrange(p))], [PrivVal(-1), PrivVal(p)], [PrivVal(7)] * 5
        b1, b2 = PrivValBool(c1), PrivValBool(c2)
        with Span():
            out = if_then_else(b1, lambda: if_then_else(b2, lambda: poseidon_hash(xs), lambda: poseidon_hash(ys)),
                               lambda: poseidon_hash(zs))
        outputs_match(out, ref_hash(plain(xs if c2 else ys) if c1 else plain(zs), C, p), "nested branches %d,%d" % (c1, c2))
        stats["hashes"] += 3
    # ignore_errors
    runtime.ignore_errors(True)
    try:
        for n in (0, 2, 4) if level != "light" else (2,):
            hash_case([PrivVal(corner[(i + 5) % len(corner)]) for i in range(n)], "poseidon_hash(len %d) with ignore_errors" % n)
    finally:
        runtime.ignore_errors(False)
    print("OK   lazy if_then_else branches (taken / not taken / nested) and ignore_errors give the reference digest")

    # ---- subset-sum hash (untouched by the change, part of the property) -----------------------
    if level == "full":
        import pysnark.ggh_hash as ggh
        check(ggh.PRIME == p, "ggh_hash works modulo %d, backend field is %d" % (ggh.PRIME, p))
        for n in (1, 7, 64):
            bits = [rnd.randrange(2) for _ in range(n)]
            expect = sum(b * ggh.SHA512_prng(i) for (i, b) in enumerate(bits)) % p
            check(ggh.ggh_hash(bits) == expect, "ggh_hash on plain bits differs from the subset sum")
            with Span() as sp:
                h = ggh.ggh_hash([PrivVal(b) for b in bits])
            check(h.value % p == expect and (not recorded or ev(h.lc) == expect), "traced ggh_hash differs from the subset sum")
            check(sp.count == 0, "traced ggh_hash emitted constraints")
        print("OK   subset-sum hash: traced = plain = sum of selected SHA512 coefficients")

    print("OK   %(hashes)d sponge calls, %(permutes)d direct permutations, %(constraints)d constraints evaluated on the witness" % stats)


if __name__ == "__main__":
    if len(sys.argv) > 1 and sys.argv[1] == "--worker":
        try:
            worker(*sys.argv[2:5])
        except Failure as e:
            print("FAIL " + str(e))
            sys.exit(1)
        sys.exit(0)
    sys.exit(driver())
