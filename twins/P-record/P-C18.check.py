#!/usr/bin/env python
"""
Evidence program for property C18 ("proof artefacts are emitted at exit only for
successful runs, and completely") on a tree carrying change P.

Run as:   PYTHONPATH=<tree> /venv/bin/python P.check.py      (from an empty directory)

It does NOT compare with the old behaviour.  It checks the property itself:

 part A (in-process)  the exit hook produced by pysnark.atexitmaybe.maybe runs the wrapped function
                      exactly once iff the recorded way of terminating is one for which the interpreter's
                      exit status is 0, runs it not at all otherwise, and never raises itself - for a wide
                      range of (also hostile) objects handed to sys.exit / raised by the script;
 part B (subprocess)  real scripts, for every statement position x every way of terminating x each
                      file-writing backend (snarkjs, and a file-writing stub registered under the
                      zkinterface module name) plus nobackend:
                        exit status 0   => backend.prove() ran exactly once, after the last statement,
                                           and the files decode completely (strict parsers, no trailing or
                                           missing bytes), contain exactly the trace recorded up to the
                                           point of termination, and every constraint holds on the witness
                        exit status !=0 => backend.prove() never ran, no artefact exists, the hook says so
                        in both cases   => the exit hook did not fail (no "Exception ignored", no traceback
                                           coming out of atexit)
 part C (subprocess)  the same matrix with runtime.autoprove = False: nothing is produced, the hook does
                      not fail, the exit status is what the way of terminating dictates.

Ways of terminating for which the *unchanged* library is already known to deviate from the statement and
which change P does not touch (raise SystemExit(non-zero), builtin exit(non-zero), sys.exit(256),
sys.exit(0.0), a caught sys.exit(non-zero) followed by a normal end) are run too and listed, but only
informationally: P neither fixes nor worsens them (see P.notes.md).
"""
import json
import os
import shutil
import subprocess
import sys
import tempfile
import textwrap
from concurrent.futures import ThreadPoolExecutor

P_SNARKJS = 21888242871839275222246405745257275088548364400416034343698204186575808495617

failures = []
def fail(msg):
    failures.append(msg)
    print("FAIL:", msg)

# ---------------------------------------------------------------------------------------------------
# part A: the hook in-process
# ---------------------------------------------------------------------------------------------------

def part_a():
    import io
    import fractions, decimal
    import pysnark.atexitmaybe as am

    class BadRepr(object):
        def __repr__(self): raise RuntimeError("no repr")
        def __str__(self): raise RuntimeError("no str")
    class BadStrError(Exception):
        def __str__(self): raise RuntimeError("no str")
        def __repr__(self): raise RuntimeError("no repr")
    class WeirdNameMeta(type):
        @property
        def __name__(cls): raise RuntimeError("no name")
    class WeirdName(Exception, metaclass=WeirdNameMeta): pass
    class WeirdCode(object, metaclass=WeirdNameMeta): pass
    class MyInt(int): pass
    class Interrupt(KeyboardInterrupt): pass

    # (object given to sys.exit, exit status the interpreter derives from it) -- None: sys.exit not called
    codes_ok  = [None, 0, False, MyInt(0), -0]
    codes_bad = [1, 2, -1, 255, True, MyInt(7), 2**31, -2**31-1, 2**64, 10**5000, -10**5000,
                 "", "x", "0", b"", (), (0,), [], {}, 1.5, float("nan"), float("inf"), BadRepr(), WeirdCode(),
                 fractions.Fraction(1, 2), decimal.Decimal(3), 1j, object(), int, ValueError("x")]
    # zero-like non-integers: the interpreter prints them and exits with 1, the library (before and after P)
    # treats them as zero.  Known deviation, not touched by P: only check that the hook does not raise.
    codes_known = [0.0, -0.0, fractions.Fraction(0), decimal.Decimal(0), 0j]
    excs_bad = [ValueError("x"), ZeroDivisionError(), KeyboardInterrupt(), Interrupt(), BadStrError(), WeirdName(),
                AssertionError(), MemoryError(), GeneratorExit(), BaseException(), RecursionError("deep"),
                OSError(2, "nope"), UnicodeDecodeError("utf8", b"\xff", 0, 1, "bad")]

    def tn(o):
        try: return type(o).__name__
        except Exception: return "<unnameable type>"

    saved = (am.override.exitcode, am.override.exception)
    real_stderr = sys.stderr
    n = 0
    try:
        for code in codes_ok + codes_bad + codes_known:
            for exc in [None] + excs_bad:
                calls = []
                hook = am.maybe(lambda: calls.append(1))
                am.override.exitcode, am.override.exception = code, exc
                sys.stderr = buf = io.StringIO()
                try:
                    ret = hook()
                    raised = None
                except BaseException as e:          # the hook itself must never fail
                    raised = e
                finally:
                    sys.stderr = real_stderr
                n += 1
                what = "exitcode=%s exception=%s" % (tn(code), tn(exc))
                if raised is not None:
                    fail("A: hook raised %r for %s" % (raised, what)); continue
                if ret is not None:
                    fail("A: hook returned a value for " + what)
                if any(code is c for c in codes_known) and exc is None:
                    continue                                   # known deviation, outcome not judged
                success = exc is None and any(code is c for c in codes_ok)
                if success:
                    if calls != [1]: fail("A: prove step ran %d times on success: %s" % (len(calls), what))
                    if buf.getvalue() != "": fail("A: hook wrote %r on success" % buf.getvalue())
                else:
                    if calls: fail("A: prove step ran although the script failed: " + what)
                    out = buf.getvalue()
                    if "skipping proof generation" not in out or not out.startswith("*** ") or out.count("\n") != 1:
                        fail("A: missing/odd skip message %r for %s" % (out[:200], what))
                    if len(out) > 300:
                        fail("A: skip message is unreasonably long (%d chars) for %s" % (len(out), what))
        # the two recording hooks still record and still delegate
        seen = []
        o = am.override
        old_exit, old_hook = o._exit, o._excepthook
        try:
            o._exit = lambda *a: seen.append(("exit", a))
            o._excepthook = lambda *a: seen.append(("hook", a))
            for code in [0, None, 3, "m"]:
                o.exitcode = "unset"; del seen[:]
                sys.exit(code) if sys.exit == o.exit else o.exit(code)
                if o.exitcode is not code or seen != [("exit", (code,))]:
                    fail("A: exit(%r) not recorded/delegated: %r %r" % (code, o.exitcode, seen))
            o.exitcode = "unset"; del seen[:]; o.exit()
            if o.exitcode != 0 or o.exitcode is False or seen != [("exit", (0,))]:
                fail("A: exit() not recorded as 0 / delegated")
            e = ValueError("v"); del seen[:]; o.exception = None
            o.excepthook(ValueError, e, None)
            if o.exception is not e or seen != [("hook", (ValueError, e, None))]:
                fail("A: excepthook not recorded/delegated")
        finally:
            o._exit, o._excepthook = old_exit, old_hook
    finally:
        sys.stderr = real_stderr
        am.override.exitcode, am.override.exception = saved
    print("part A: %d hook invocations checked" % n)

# ---------------------------------------------------------------------------------------------------
# parts B/C: real scripts
# ---------------------------------------------------------------------------------------------------

STUB = '''
# file-writing stub backend (stands in for pysnark.zkinterface.backend, whose flatbuffers dependency is absent)
import json
modulus = %d
class LC:
    def __init__(self, lc): self.lc = lc
    def __add__(self, o):
        lc = dict(self.lc)
        for k, v in o.lc.items(): lc[k] = lc.get(k, 0) + v
        return LC(lc)
    def __sub__(self, o): return self + (-o)
    def __mul__(self, c): return LC({k: v*c for k, v in self.lc.items()})
    def __neg__(self): return self*-1
privvals = []; pubvals = []; constraints = []
def privval(v): privvals.append(v); return LC({-len(privvals): 1})
def pubval(v): pubvals.append(v); return LC({len(pubvals): 1})
def zero(): return LC({})
def one(): return LC({0: 1})
def fieldinverse(v): return pow(v, -1, modulus)
def get_modulus(): return modulus
def add_constraint(v, w, y): constraints.append([v, w, y])
def prove():
    var = lambda k: k if k >= 0 else len(pubvals) - k
    with open("stub.circuit.json", "w") as f:
        json.dump({"nvars": 1+len(pubvals)+len(privvals), "npub": len(pubvals),
                   "constraints": [[sorted([var(k), v %% modulus] for k, v in t.lc.items()) for t in c] for c in constraints]}, f)
    with open("stub.witness.json", "w") as f:
        json.dump([1] + [v %% modulus for v in pubvals] + [v %% modulus for v in privvals], f)
''' % P_SNARKJS

PRE = {
"snarkjs": '''
import pysnark.snarkjsbackend as B
''',
"stub": '''
import stubbackend as B
sys.modules["pysnark.zkinterface.backend"] = B
''',
"nobackend": '''
import pysnark.nobackend as B
''',
}

PRE_COMMON = '''
import sys, os, json
%(pre)s
_orig_prove = B.prove
def _logged_prove():
    with open("prove.log", "a") as f: f.write("prove %%d\\n" %% _state["stmts"])
    _orig_prove()
B.prove = _logged_prove
_state = {"stmts": 0}
import pysnark.runtime
from pysnark.runtime import PrivVal, PubVal
assert pysnark.runtime.backend is B, pysnark.runtime.backend
pysnark.runtime.autoprove = %(autoprove)s
pysnark.runtime.bitlength = 8
def _done(n):
    # called after every statement: records the trace as it stands (what a complete proof has to cover)
    _state["stmts"] = n
    snap = {"stmts": n, "ncons": pysnark.runtime.num_constraints}
    if hasattr(B, "constraints"):
        var = lambda k: k if k >= 0 else len(B.pubvals) - k
        snap["wit"] = [1] + [v %% B.get_modulus() for v in B.pubvals] + [v %% B.get_modulus() for v in B.privvals]
        snap["npub"] = len(B.pubvals)
        snap["cons"] = [[sorted([var(k), v %% B.get_modulus()] for k, v in t.lc.items()) for t in c] for c in B.constraints]
    with open("expected.json", "w") as f: json.dump(snap, f)
_done(0)
'''

# the traced computation, statement by statement
STMTS = [
    "x = PrivVal(3)",
    "y = x*x",
    "z = PubVal(5)",
    "w = y*z + x",
    "b = (w < 100)",
    "c = b.if_else(w, -w)",
    "assert w.val() == 48",
    "q = (w // 7) + (w % 7)",
]

# ways of terminating: (name, code, expected exit status)
WAYS = [
    ("falloff",            None, 0),
    ("sys.exit()",         "sys.exit()", 0),
    ("sys.exit(0)",        "sys.exit(0)", 0),
    ("sys.exit(None)",     "sys.exit(None)", 0),
    ("sys.exit(False)",    "sys.exit(False)", 0),
    ("raise SystemExit",   "raise SystemExit", 0),
    ("raise SystemExit(0)", "raise SystemExit(0)", 0),
    ("raise SystemExit(None)", "raise SystemExit(None)", 0),
    ("exit()",             "exit()", 0),
    ("exit(0)",            "exit(0)", 0),
    ("exit(None)",         "exit(None)", 0),
    ("quit()",             "quit()", 0),
    ("nested sys.exit(0)", "def f():\n    def g(): sys.exit(0)\n    g()\nf()", 0),
    ("caught exception, exit(0)", "try:\n    1/0\nexcept ZeroDivisionError:\n    pass\nsys.exit(0)", 0),
    ("caught exception, falloff", "try:\n    1/0\nexcept ZeroDivisionError:\n    pass\n#FALLOFF", 0),
    ("caught sys.exit(0), falloff", "try:\n    sys.exit(0)\nexcept SystemExit:\n    pass\n#FALLOFF", 0),
    ("caught raise SystemExit(1), falloff", "try:\n    raise SystemExit(1)\nexcept SystemExit:\n    pass\n#FALLOFF", 0),
    ("caught exit(1) then exit(0)", "try:\n    sys.exit(1)\nexcept SystemExit:\n    pass\nsys.exit(0)", 0),
    ("sys.exit(1)",        "sys.exit(1)", 1),
    ("sys.exit(2)",        "sys.exit(2)", 2),
    ("sys.exit(-1)",       "sys.exit(-1)", 255),
    ("sys.exit(255)",      "sys.exit(255)", 255),
    ("sys.exit(True)",     "sys.exit(True)", 1),
    ("sys.exit(str)",      "sys.exit('giving up')", 1),
    ("sys.exit('')",       "sys.exit('')", 1),
    ("sys.exit([])",       "sys.exit([])", 1),
    ("sys.exit(huge)",     "sys.exit(10**5000)", 255),
    ("sys.exit(huge repr)", "class R:\n    def __repr__(self): return 'r' * 100000\nsys.exit(R())", 1),
    ("sys.exit(bad repr)", "class R:\n    def __repr__(self): raise RuntimeError('no repr')\nsys.exit(R())", 1),
    ("nested sys.exit(3)", "def f():\n    def g(): sys.exit(3)\n    g()\nf()", 3),
    ("exit in finally",    "try:\n    pass\nfinally:\n    sys.exit(4)", 4),
    ("exit(1) after caught exit(0)", "try:\n    sys.exit(0)\nexcept SystemExit:\n    pass\nsys.exit(1)", 1),
    ("ZeroDivisionError",  "1/0", 1),
    ("ValueError",         "raise ValueError('bad input')", 1),
    ("AssertionError",     "assert False, 'no'", 1),
    ("library error",      "PrivVal(1).assert_zero()", 1),
    ("nested exception",   "def f():\n    raise KeyError('k')\nf()", 1),
    ("exception in finally", "try:\n    pass\nfinally:\n    raise RuntimeError('late')", 1),
    ("bad __str__ exception", "class E(Exception):\n    def __str__(self): raise RuntimeError('no str')\nraise E()", 1),
    ("BaseException",      "raise BaseException('base')", 1),
    ("GeneratorExit",      "raise GeneratorExit", 1),
    ("KeyboardInterrupt",  "raise KeyboardInterrupt", None),          # status -2 / 130, platform dependent
    ("SIGINT",             "import signal, time\nos.kill(os.getpid(), signal.SIGINT)\ntime.sleep(5)", None),
    ("exception through finally", "try:\n    1/0\nfinally:\n    x = None", 1),
]

# known deviations of the unchanged library from the statement, untouched by P (informational only)
KNOWN = [
    ("raise SystemExit(1)", "raise SystemExit(1)", 1),
    ("raise SystemExit(str)", "raise SystemExit('msg')", 1),
    ("exit(1)",            "exit(1)", 1),
    ("quit(2)",            "quit(2)", 2),
    ("sys.exit(256)",      "sys.exit(256)", 0),
    ("sys.exit(0.0)",      "sys.exit(0.0)", 1),
    ("caught sys.exit(1), falloff", "try:\n    sys.exit(1)\nexcept SystemExit:\n    pass\n#FALLOFF", 0),
]


def make_script(backend, autoprove, pos, way_code):
    lines = [PRE_COMMON % {"pre": PRE[backend], "autoprove": autoprove}]
    for i, s in enumerate(STMTS[:pos]):
        lines.append(s)
        lines.append("_done(%d)" % (i+1))
    if way_code is not None and way_code.endswith("#FALLOFF"):
        lines.append(way_code)
    elif way_code is not None:
        lines.append(way_code)
        # the rest of the script is never reached; if it is, the run is invalid
        for i, s in enumerate(STMTS[pos:]):
            lines.append(s)
            lines.append("_done(%d)" % (pos+i+1))
        lines.append("os._exit(99)")
    return "\n".join(lines) + "\n"


class Rd:
    """strict little-endian reader"""
    def __init__(self, data): self.d = data; self.p = 0
    def u(self, n):
        if self.p + n > len(self.d): raise ValueError("truncated file at offset %d" % self.p)
        v = int.from_bytes(self.d[self.p:self.p+n], "little"); self.p += n; return v
    def raw(self, n):
        if self.p + n > len(self.d): raise ValueError("truncated file at offset %d" % self.p)
        v = self.d[self.p:self.p+n]; self.p += n; return v
    def end(self):
        if self.p != len(self.d): raise ValueError("%d trailing bytes" % (len(self.d) - self.p))


def decode_wtns(data):
    r = Rd(data)
    if r.raw(4) != b"wtns": raise ValueError("bad magic")
    if r.u(4) != 2: raise ValueError("bad version")
    if r.u(4) != 2: raise ValueError("bad number of sections")
    if r.u(4) != 1: raise ValueError("section 1 expected")
    if r.u(8) != 40: raise ValueError("bad header length")
    if r.u(4) != 32: raise ValueError("bad field size")
    if r.u(32) != P_SNARKJS: raise ValueError("bad modulus")
    n = r.u(4)
    if r.u(4) != 2: raise ValueError("section 2 expected")
    if r.u(8) != 32*n: raise ValueError("bad section 2 length")
    wit = [r.u(32) for _ in range(n)]
    r.end()
    return wit


def decode_r1cs(data):
    r = Rd(data)
    if r.raw(4) != b"r1cs": raise ValueError("bad magic")
    if r.u(4) != 1: raise ValueError("bad version")
    if r.u(4) != 3: raise ValueError("bad number of sections")
    if r.u(4) != 1: raise ValueError("section 1 expected")
    if r.u(8) != 64: raise ValueError("bad header length")
    if r.u(4) != 32: raise ValueError("bad field size")
    if r.u(32) != P_SNARKJS: raise ValueError("bad modulus")
    nvars = r.u(4); npub = r.u(4); r.u(4); r.u(4); r.u(8)
    ncons = r.u(4)
    if r.u(4) != 2: raise ValueError("section 2 expected")
    seclen = r.u(8); start = r.p
    cons = []
    for _ in range(ncons):
        c = []
        for _ in range(3):
            k = r.u(4)
            c.append(sorted([r.u(4), r.u(32)] for _ in range(k)))
        cons.append(c)
    if r.p - start != seclen: raise ValueError("bad section 2 length")
    if r.u(4) != 3: raise ValueError("section 3 expected")
    if r.u(8) != 8*nvars: raise ValueError("bad section 3 length")
    for _ in range(nvars): r.u(8)
    r.end()
    return nvars, npub, cons


def check_trace(tag, wit, nvars, npub, cons, exp):
    """the artefact covers exactly the complete trace, and the witness satisfies every constraint"""
    if wit != exp["wit"]: fail("%s: witness in artefact differs from the trace (%d vs %d values)" % (tag, len(wit), len(exp["wit"])))
    if nvars != len(exp["wit"]) or npub != exp["npub"]: fail("%s: variable counts in artefact differ from the trace" % tag)
    if len(cons) != exp["ncons"] or len(cons) != len(exp["cons"]):
        fail("%s: %d constraints in artefact, %d in trace" % (tag, len(cons), exp["ncons"]))
    elif cons != exp["cons"]:
        fail("%s: constraints in artefact differ from the trace" % tag)
    for i, (a, b, c) in enumerate(cons):
        ev = lambda t: sum(wit[k]*v for k, v in t) % P_SNARKJS
        if any(k >= len(wit) for t in (a, b, c) for k, _ in t):
            fail("%s: constraint %d refers to a variable outside the witness" % (tag, i)); break
        if (ev(a)*ev(b) - ev(c)) % P_SNARKJS != 0:
            fail("%s: constraint %d does not hold on the written witness" % (tag, i)); break


ARTEFACTS = {"snarkjs": ["witness.wtns", "circuit.r1cs"], "stub": ["stub.circuit.json", "stub.witness.json"], "nobackend": []}
ALL_ARTEFACTS = sorted(set(sum(ARTEFACTS.values(), [])))


def run_case(root, idx, backend, autoprove, pos, way):
    name, code, expstatus = way
    d = os.path.join(root, "c%05d" % idx)
    os.mkdir(d)
    with open(os.path.join(d, "script.py"), "w") as f: f.write(make_script(backend, autoprove, pos, code))
    if backend == "stub":
        with open(os.path.join(d, "stubbackend.py"), "w") as f: f.write(STUB)
    env = dict(os.environ)
    env.pop("PYSNARK_BACKEND", None)
    env["PYTHONDONTWRITEBYTECODE"] = "1"
    p = subprocess.run([sys.executable, "script.py"], cwd=d, env=env, stdin=subprocess.DEVNULL,
                       stdout=subprocess.PIPE, stderr=subprocess.PIPE, timeout=120)
    res = {"backend": backend, "autoprove": autoprove, "pos": pos, "way": name, "expstatus": expstatus,
           "status": p.returncode, "stderr": p.stderr.decode("utf8", "replace"), "files": {}, "log": None, "exp": None}
    for fn in ALL_ARTEFACTS:
        fp = os.path.join(d, fn)
        if os.path.exists(fp):
            with open(fp, "rb") as f: res["files"][fn] = f.read()
    if os.path.exists(os.path.join(d, "prove.log")):
        with open(os.path.join(d, "prove.log")) as f: res["log"] = f.read().splitlines()
    if os.path.exists(os.path.join(d, "expected.json")):
        with open(os.path.join(d, "expected.json")) as f: res["exp"] = json.load(f)
    shutil.rmtree(d)
    return res


def judge(res, informational=False):
    tag = "%s autoprove=%s pos=%d [%s]" % (res["backend"], res["autoprove"], res["pos"], res["way"])
    st, err, log, files, exp = res["status"], res["stderr"], res["log"] or [], res["files"], res["exp"]
    problems = []
    def bad(m): problems.append(tag + ": " + m)

    if st == 99: bad("script continued after the terminating statement")
    if res["expstatus"] is not None and st != res["expstatus"]: bad("exit status %r, expected %r" % (st, res["expstatus"]))
    if res["expstatus"] is None and st == 0: bad("interrupt ended with exit status 0")
    if exp is None or exp["stmts"] != res["pos"]: bad("trace snapshot missing or of wrong position")
    # the exit hook itself never fails
    if "Exception ignored" in err or "Error in atexit" in err or "Error in sys.excepthook" in err:
        bad("exit hook failed: " + err[-300:])
    success = (st == 0)
    if not success and "Traceback" not in err and "exit" not in res["way"].lower() and "quit" not in res["way"]:
        bad("no traceback shown for the uncaught exception")

    if not res["autoprove"]:
        if log: bad("prove step ran although autoprove is off")
        if files: bad("artefacts produced although autoprove is off: %s" % sorted(files))
        if "skipping proof generation" in err and success: bad("skip message on a successful run")
    elif success:
        if len(log) != 1: bad("prove step ran %d times on a successful run" % len(log))
        elif log[0] != "prove %d" % res["pos"]: bad("prove step did not run after the last executed statement: " + log[0])
        if "skipping proof generation" in err: bad("skip message on a successful run")
        if sorted(files) != sorted(ARTEFACTS[res["backend"]]): bad("artefacts %s, expected %s" % (sorted(files), ARTEFACTS[res["backend"]]))
        elif exp is not None:
            before = len(failures)
            try:
                if res["backend"] == "snarkjs":
                    wit = decode_wtns(files["witness.wtns"])
                    nvars, npub, cons = decode_r1cs(files["circuit.r1cs"])
                    check_trace(tag, wit, nvars, npub, cons, exp)
                elif res["backend"] == "stub":
                    circ = json.loads(files["stub.circuit.json"].decode())
                    wit = json.loads(files["stub.witness.json"].decode())
                    check_trace(tag, wit, circ["nvars"], circ["npub"], circ["constraints"], exp)
            except Exception as e:
                bad("artefact does not decode completely: %r" % (e,))
            if informational and len(failures) > before: del failures[before:]
    else:
        if log: bad("prove step ran %d times although the script failed (status %d)" % (len(log), st))
        if files: bad("artefacts %s produced although the script failed (status %d)" % (sorted(files), st))
        if err.count("skipping proof generation") != 1: bad("skip message printed %d times" % err.count("skipping proof generation"))
        for line in err.splitlines():
            if "skipping proof generation" in line and (len(line) > 300 or not line.startswith("*** ")):
                bad("odd skip message: %r" % line[:100])
    return problems


def part_bc():
    root = tempfile.mkdtemp(prefix="c18check")
    try:
        jobs = []
        npos = len(STMTS)
        for backend in ["snarkjs", "stub", "nobackend"]:
            for autoprove in [True, False]:
                positions = range(npos+1) if autoprove else [0, 1, 5, npos]
                if backend == "nobackend" and autoprove: positions = [0, 2, 5, npos]
                for pos in positions:
                    for way in WAYS: jobs.append((backend, autoprove, pos, way, False))
                    if pos in (0, npos):
                        for way in KNOWN: jobs.append((backend, autoprove, pos, way, True))
        with ThreadPoolExecutor(max_workers=min(16, (os.cpu_count() or 2))) as ex:
            futs = [(j, ex.submit(run_case, root, i, j[0], j[1], j[2], j[3])) for i, j in enumerate(jobs)]
            results = [(j, f.result()) for j, f in futs]
        nchecked = nknown = nsucc = nfailrun = 0
        known_dev = []
        sizes = {}
        for j, res in results:
            if j[4]:
                nknown += 1
                pr = judge(res, informational=True)
                if pr: known_dev.append(pr[0])
                continue
            nchecked += 1
            if res["status"] == 0: nsucc += 1
            else: nfailrun += 1
            for m in judge(res): fail(m)
            if res["exp"] and "wit" in res["exp"] and res["status"] == 0 and res["autoprove"]:
                sizes.setdefault(res["backend"], {})[res["pos"]] = (len(res["exp"]["wit"]), res["exp"]["ncons"])
        # the harness is not vacuous: the trace grows along the positions, so "complete" is distinguishable
        for backend, m in sizes.items():
            seq = [m[k] for k in sorted(m)]
            if len(seq) != npos+1 or seq[0] != (1, 0) or seq[-1][1] < 10 or any(a > b for a, b in zip(seq, seq[1:])) or len(set(seq)) < npos-1:
                fail("harness: trace sizes along positions not as expected for %s: %r" % (backend, seq))
        print("parts B/C: %d script runs checked (%d ending with status 0, %d with non-zero status)" % (nchecked, nsucc, nfailrun))
        print("informational: %d runs of ways of terminating with known deviations of the unchanged library; %d deviate here too"
              % (nknown, len(known_dev)))
        for m in sorted(set(x.split("[", 1)[1].split("]")[0] + ": " + x.rsplit(": ", 1)[1][:70] for x in known_dev)):
            print("   known:", m)
    finally:
        shutil.rmtree(root, ignore_errors=True)


if __name__ == "__main__":
    part_a()
    part_bc()
    if failures:
        print("%d FAILURES" % len(failures))
        sys.exit(1)
    print("OK: property C18 held in all checked cases")
    sys.exit(0)
