# Evidence program for property C03 (assertions and declared types are enforced inside the circuit).
#
#   PYTHONPATH=<tree> /venv/bin/python P.check.py        (from an empty directory; exit 0 = property held everywhere)
#
# It installs a *recording* backend (registered under the name pysnark.nobackend, over a small prime field that can
# be switched between cases), traces every assertion kind of LinComb / LinCombBool / LinCombFxp / PackIntMod.unpack
#   - outside any branch, inside one guard (value 0 / 1), inside two nested guards, inside lazy if_then_else
#     branches and inside a BranchingValues _if/_else block,
#   - with error checking on and with ignore_errors(True),
#   - for all operand values of a grid that straddles every boundary of the asserted relation,
# and checks the PROPERTY on the recorded R1CS:
#   (1) relation (as enforced: same bound, same width as the run-time check) true, or branch inactive
#         -> the call is accepted and every recorded constraint holds on the recorded witness;
#   (2) relation false in an active branch / outside branches
#         -> with checking on the call raises; with ignore_errors the recorded witness violates a constraint AND an
#            exhaustive search over ALL field values of ALL auxiliary wires allocated by the call finds no satisfying
#            assignment (so no auxiliary witness choice helps a cheating prover);
#   (3) a circuit traced with the branch inactive (guard wire 0) is re-used with the guard wire set to 1: it must be
#       satisfiable (over all auxiliary choices) exactly when the relation is true - the constraints emitted in an
#       inactive branch are the real ones, only disabled by the guard;
#   (4) the run-time relation never accepts something the plain-Python relation rejects.
import os, sys, types, itertools

# ----------------------------------------------------------------------------------------------- recording backend
rec = types.ModuleType("pysnark.nobackend")
rec.P = 31
rec.vals = [1]            # wire 0 is the constant one
rec.cons = []


class LC:
    __slots__ = ("d",)

    def __init__(self, d): self.d = d

    def __add__(self, o):
        d = dict(self.d)
        for k, v in o.d.items():
            d[k] = d.get(k, 0) + v
        return LC(d)

    def __sub__(self, o): return self + (-o)
    def __mul__(self, c): return LC({k: v * c for k, v in self.d.items()})
    def __neg__(self): return self * -1


def _privval(v):
    rec.vals.append(v)
    return LC({len(rec.vals) - 1: 1})


rec.privval = _privval
rec.pubval = _privval
rec.zero = lambda: LC({})
rec.one = lambda: LC({0: 1})
rec.fieldinverse = lambda v: pow(v % rec.P, -1, rec.P) if v % rec.P else 0
rec.get_modulus = lambda: rec.P
rec.add_constraint = lambda v, w, y: rec.cons.append((v, w, y))
rec.prove = lambda: None
sys.modules["pysnark.nobackend"] = rec
os.environ.pop("PYSNARK_BACKEND", None)

import pysnark.runtime as rt
assert rt.backend is rec, "recording backend was not picked up"
rt.autoprove = False
from pysnark.runtime import LinComb, PrivVal, PubVal, add_guard, restore_guard
from pysnark.boolean import LinCombBool, PrivValBool
from pysnark.branching import if_then_else, BranchingValues, _if, _else, _endif
import pysnark.fixedpoint as fxp
from pysnark.fixedpoint import PrivValFxp
from pysnark.pack import PackIntMod


def reset(P, bl):
    rec.P = P
    del rec.vals[1:]
    del rec.cons[:]
    rt.bitlength = bl
    rt.ignore_errors(False)
    assert rt.guard is None and LinComb.ONE is LinComb.ONE_SAFE


def ev(lc, vals, P):
    return sum(c * vals[k] for k, c in lc.d.items()) % P


def holds(con, vals, P):
    return (ev(con[0], vals, P) * ev(con[1], vals, P) - ev(con[2], vals, P)) % P == 0


def all_hold(vals, P, cons=None):
    return all(holds(c, vals, P) for c in (rec.cons if cons is None else cons))


def satisfiable(vals, first_aux, P, cons):
    """Exhaustive search: is there an assignment of ALL wires >= first_aux (every field value tried for each of
    them) that satisfies all constraints, the wires < first_aux being fixed?  Constraints are checked as soon as
    their last wire is assigned, which prunes the search without losing completeness."""
    n = len(vals)
    buckets = [[] for _ in range(n)]
    for c in cons:
        m = max([k for lc in c for k in lc.d] + [0])
        if m < first_aux:
            if not holds(c, vals, P): return False
        else:
            buckets[m].append(c)
    vals = list(vals)

    def go(k):
        if k == n: return True
        for v in range(P):
            vals[k] = v
            if all(holds(c, vals, P) for c in buckets[k]) and go(k + 1): return True
        return False
    return go(first_aux)


# ----------------------------------------------------------------------------------------------- assertion kinds
# kind -> (call(x, y, z), plain relation, relation exactly as enforced for width b)   x is a wire, y/z wire or int
W = 2  # explicit width used for the explicit-width kinds (different from the default bitlength on purpose)
KINDS = {
    "assert_zero":      (lambda x, y, z: x.assert_zero(),          lambda x, y, z, b: x == 0,          None),
    "assert_nonzero":   (lambda x, y, z: x.assert_nonzero(),       lambda x, y, z, b: x != 0,          None),
    "assert_eq":        (lambda x, y, z: x.assert_eq(y),           lambda x, y, z, b: x == y,          None),
    "assert_ne":        (lambda x, y, z: x.assert_ne(y),           lambda x, y, z, b: x != y,          None),
    "assert_lt":        (lambda x, y, z: x.assert_lt(y),           lambda x, y, z, b: x < y,           lambda x, y, z, b: 0 <= y - x - 1 < 2 ** b),
    "assert_le":        (lambda x, y, z: x.assert_le(y),           lambda x, y, z, b: x <= y,          lambda x, y, z, b: 0 <= y - x < 2 ** b),
    "assert_gt":        (lambda x, y, z: x.assert_gt(y),           lambda x, y, z, b: x > y,           lambda x, y, z, b: 0 <= x - y - 1 < 2 ** b),
    "assert_ge":        (lambda x, y, z: x.assert_ge(y),           lambda x, y, z, b: x >= y,          lambda x, y, z, b: 0 <= x - y < 2 ** b),
    "assert_positive":  (lambda x, y, z: x.assert_positive(),      lambda x, y, z, b: 0 <= x < 2 ** b, None),
    "assert_positiveW": (lambda x, y, z: x.assert_positive(W),     lambda x, y, z, b: 0 <= x < 2 ** W, None),
    "to_bitsW":         (lambda x, y, z: x.to_bits(W),             lambda x, y, z, b: 0 <= x < 2 ** W, None),
    "assert_range":     (lambda x, y, z: x.assert_range(y, z),     lambda x, y, z, b: y <= x < z,      lambda x, y, z, b: 0 <= x - y < 2 ** b and 0 <= z - x - 1 < 2 ** b),
    "val":              (lambda x, y, z: x.val(),                  lambda x, y, z, b: True,            None),
    "bool_decl":        (lambda x, y, z: LinCombBool(x),           lambda x, y, z, b: x in (0, 1),     None),
    "bool_assert_eq":   (lambda x, y, z: LinCombBool(x, False).assert_eq(y), lambda x, y, z, b: x == y and y in (0, 1), None),
    "bool_assert_ne":   (lambda x, y, z: LinCombBool(x, False).assert_ne(y), lambda x, y, z, b: x != y and y in (0, 1), None),
}
ARITY = {"assert_zero": 1, "assert_nonzero": 1, "assert_positive": 1, "assert_positiveW": 1, "to_bitsW": 1, "val": 1,
         "bool_decl": 1, "assert_range": 3}
ACCEPT_ERRORS = (AssertionError, ValueError)

# guard configurations: list of guard values (outermost first), entered with add_guard / restore_guard
GUARDS = [(), (1,), (0,), (1, 1), (1, 0), (0, 1), (0, 0)]

stats = {"cases": 0, "searched_unsat": 0, "flipped": 0, "sat_true": 0}
failures = []


def fail(msg):
    failures.append(msg)
    if len(failures) <= 25: print("PROPERTY VIOLATED:", msg)


def trace(kind, xs, const, gvals, ignore, P, bl, how="guard"):
    """Trace one assertion; returns (raised, first_aux, first_con, guard_wire_index)"""
    reset(P, bl)
    call = KINDS[kind][0]
    ops = []
    for i, v in enumerate(xs):
        ops.append(v if (const and i > 0) else PrivVal(v))
    while len(ops) < 3: ops.append(None)
    conds = [PrivValBool(g) for g in gvals]
    gw = [max(c.lc.lc.d) for c in conds]
    rt.ignore_errors(ignore)
    raised = None
    mark = [None, None]

    def body():
        mark[0], mark[1] = len(rec.vals), len(rec.cons)
        call(*ops)
        return 0

    try:
        if how == "guard":
            baks = []
            try:
                for c in conds: baks.append(add_guard(c.lc))
                body()
            finally:
                for b in reversed(baks): restore_guard(b)
        elif how == "ite_true":       # lazy branch guarded by cond
            if_then_else(conds[0], body, 0)
        elif how == "ite_false":      # lazy branch guarded by ~cond: active when cond is 0
            if_then_else(conds[0], 0, body)
        elif how == "ifctx":          # BranchingValues block
            _ = BranchingValues()
            _.r = 0
            _if(conds[0].lc, _)
            try:
                body()
            except ACCEPT_ERRORS:
                restore_guard(_.stack.pop().origguard)   # leave the block the way an exception handler would
                raise
            _else(_)
            _endif(_)
    except ACCEPT_ERRORS as e:
        raised = e
        if mark[0] is None: raise
    rt.ignore_errors(False)
    assert rt.guard is None and LinComb.ONE is LinComb.ONE_SAFE, "guard state not restored"
    return raised, mark[0], mark[1], gw


def check_case(kind, xs, const, gvals, P, bl, how="guard", search=True):
    stats["cases"] += 1
    _, rel, enf = KINDS[kind]
    args = list(xs) + [None] * (3 - len(xs))
    r_plain = rel(*args, bl)
    r_enf = (enf or rel)(*args, bl)
    if how == "ite_false": active = (gvals[0] == 0)
    else: active = all(g == 1 for g in gvals)
    tag = "%s%s xs=%s guards=%s/%s P=%d bl=%d" % (kind, "(const)" if const else "", xs, gvals, how, P, bl)
    if r_enf and not r_plain: fail(tag + ": enforced relation accepts what the asserted relation rejects")

    # ---- error checking on
    raised, fa, fc, gw = trace(kind, xs, const, gvals, False, P, bl, how)
    if kind == "bool_decl" and not r_plain:
        # declaring a non-boolean value as boolean is refused at trace time in every mode (no circuit is produced)
        if not isinstance(raised, ValueError): fail(tag + ": non-boolean value declared boolean was not refused")
        return
    if not active:
        if raised: fail(tag + ": raised in an inactive branch: %r" % raised)
    else:
        if r_enf and raised: fail(tag + ": relation true but call not accepted: %r" % raised)
        if not r_plain and not raised: fail(tag + ": relation false but call accepted (run-time check)")
        if not r_enf and not raised: fail(tag + ": outside the enforced width but call accepted")
    if not raised and not all_hold(rec.vals, P):
        fail(tag + ": accepted call, but a recorded constraint does not hold on the recorded witness")
    if not raised and active: stats["sat_true"] += 1

    # ---- ignore_errors: same constraints, unsatisfiable iff relation false and branch active
    raised, fa, fc, gw = trace(kind, xs, const, gvals, True, P, bl, how)
    if raised:
        # only the boolean declaration refuses non-boolean values even under ignore_errors (no circuit is produced)
        if not (kind.startswith("bool") and not r_plain): fail(tag + ": raised under ignore_errors: %r" % raised)
        return
    vals, cons = list(rec.vals), list(rec.cons)
    ok_w = all_hold(vals, P, cons)
    if r_enf or not active:
        if not ok_w: fail(tag + ": relation true / branch inactive, but recorded witness violates a constraint")
    else:
        if ok_w: fail(tag + ": relation FALSE in an active branch, yet all constraints hold on the recorded witness")
        elif search:
            stats["searched_unsat"] += 1
            if satisfiable(vals, fa, P, cons):
                fail(tag + ": relation FALSE, yet some choice of auxiliary witnesses satisfies all constraints")

    # ---- (3) circuit traced with the single guard wire at its inactive value, guard wire then set to active
    if search and len(gvals) == 1 and not active:
        stats["flipped"] += 1
        v2 = list(vals)
        v2[gw[0]] = 1 - gvals[0]
        got = satisfiable(v2, fa, P, cons)
        if got != bool(r_enf):
            fail(tag + ": circuit traced in the inactive branch, guard wire switched on: satisfiable=%s but relation=%s" % (got, r_enf))


def grid(kind, lo, hi):
    n = ARITY.get(kind, 2)
    return itertools.product(range(lo, hi + 1), repeat=n)


# ----------------------------------------------------------------------------------------------- run
# A. exhaustive-search runs: small prime, default width 2 (explicit width W=2 too), operand grid around all bounds
for kind in KINDS:
    P, bl = 31, 2
    lo, hi = (-2, 5) if ARITY.get(kind, 2) == 1 else ((-1, 3) if kind == "assert_range" else (-2, 4))
    for xs in grid(kind, lo, hi):
        for const in ((False, True) if ARITY.get(kind, 2) > 1 else (False,)):
            if kind.startswith("bool_assert") and xs[1] not in (0, 1): continue   # _ensurebool refuses at trace time
            if kind.startswith("bool") and xs[0] not in (0, 1) and kind != "bool_decl": continue  # receiver must be a boolean
            for gvals in GUARDS:
                if kind == "assert_range" and len(gvals) == 2 and const: continue  # keep the run time reasonable
                check_case(kind, xs, const, gvals, P, bl)
            for how, gv in (("ite_true", (1,)), ("ite_true", (0,)), ("ite_false", (1,)), ("ite_false", (0,)),
                            ("ifctx", (1,)), ("ifctx", (0,))):
                check_case(kind, xs, const, gv, P, bl, how)

# B. a second prime and width 3 for the two primitives the comparisons are built from, plus eq/ne/lt
for kind in ("assert_zero", "assert_nonzero", "assert_eq", "assert_ne", "assert_lt", "assert_positive"):
    for xs in grid(kind, -3, 8 if ARITY.get(kind, 2) == 1 else 3):
        for gvals in GUARDS[:4]:
            check_case(kind, xs, False, gvals, 101, 3)

# C. realistic field (BN254 scalar field), default 16-bit width, boundary values; witness evaluation only
BN = 21888242871839275222246405745257275088548364400416034343698204186575808495617
edge = [-65537, -65536, -1, 0, 1, 2, 32767, 32768, 65534, 65535, 65536, 65537]
for kind in KINDS:
    if kind.startswith("bool_assert"): continue
    n = ARITY.get(kind, 2)
    pts = [(x,) for x in edge] if n == 1 else \
          [(x, y) for x in edge for y in edge] if n == 2 else \
          [(x, y, z) for x in edge[::2] for y in (-1, 0, 5) for z in (0, 6, 65536, 65541)]
    for xs in pts:
        for gvals in ((), (1,), (0,), (1, 1), (0, 1)):
            check_case(kind, xs, False, gvals, BN, 16, search=False)


# D. fixed point and PackIntMod.unpack go through the same primitives; witness evaluation + search on small cases
def simple(tag, build, relation, gvals, P, bl, search):
    """build() performs the assertion; relation: enforced relation (bool)"""
    stats["cases"] += 1
    active = all(g == 1 for g in gvals)
    for ignore in (False, True):
        reset(P, bl)
        pre = build(None)
        conds = [PrivValBool(g) for g in gvals]
        rt.ignore_errors(ignore)
        baks, raised = [], None
        try:
            try:
                for c in conds: baks.append(add_guard(c.lc))
                fa = len(rec.vals)
                build(pre)
            finally:
                for b in reversed(baks): restore_guard(b)
        except ACCEPT_ERRORS as e:
            raised = e
        rt.ignore_errors(False)
        ok_w = all_hold(rec.vals, P)
        if not ignore:
            if (active and (bool(raised) == bool(relation))) or (not active and raised):
                fail("%s guards=%s: acceptance does not match the relation (%r)" % (tag, gvals, raised))
            if not raised and not ok_w: fail("%s guards=%s: accepted but witness violates a constraint" % (tag, gvals))
        else:
            if raised: fail("%s guards=%s: raised under ignore_errors: %r" % (tag, gvals, raised)); continue
            if ok_w != bool(relation or not active):
                fail("%s guards=%s: relation=%s active=%s but recorded witness satisfied=%s" % (tag, gvals, relation, active, ok_w))
            if search and active and not relation:
                stats["searched_unsat"] += 1
                if satisfiable(list(rec.vals), fa, P, list(rec.cons)):
                    fail("%s guards=%s: relation false but satisfiable for some auxiliary witnesses" % (tag, gvals))


fxp.resolution = 1
for a2 in range(-3, 5):          # fixed-point values a2/2, b2/2
    for b2 in range(-3, 5):
        a, b = a2 / 2, b2 / 2
        for gvals in ((), (1,), (0,)):
            for nm, rel in (("assert_lt", 0 <= b2 - a2 - 1 < 4), ("assert_le", 0 <= b2 - a2 < 4), ("assert_eq", a2 == b2),
                            ("assert_ne", a2 != b2), ("assert_gt", 0 <= a2 - b2 - 1 < 4), ("assert_ge", 0 <= a2 - b2 < 4)):
                for const in (False, True):
                    def build(pre, nm=nm, const=const):
                        if pre is None: return (PrivValFxp(a), b if const else PrivValFxp(b))
                        getattr(pre[0], nm)(pre[1])
                    simple("fxp.%s(%s,%s)%s" % (nm, a, b, "c" if const else ""), build, rel, gvals, 31, 2, True)
        for nm, rel in (("assert_zero", a2 == 0), ("assert_nonzero", a2 != 0), ("assert_positive", 0 <= a2 < 4)):
            for gvals in ((), (1,), (0,)):
                def build(pre, nm=nm):
                    if pre is None: return (PrivValFxp(a),)
                    getattr(pre[0], nm)()
                simple("fxp.%s(%s)" % (nm, a), build, rel, gvals, 31, 2, True)

for mod in (1, 2, 3, 4, 5, 7, 8):
    pim = PackIntMod(mod)
    n = pim.bitlen()
    for bitvals in itertools.product((0, 1), repeat=n):
        v = sum(b << i for i, b in enumerate(bitvals))
        for gvals in ((), (1,), (0,)):
            def build(pre):
                if pre is None: return [PrivVal(b) for b in bitvals]
                if pre: pim.unpack(pre, 0)
            if n == 0: continue
            simple("PackIntMod(%d).unpack(%s)" % (mod, bitvals), build, 0 <= mod - 1 - v < 2 ** 3, gvals, 31, 3, True)

print("cases: %(cases)d   accepted-and-satisfied: %(sat_true)d   exhaustive UNSAT searches: %(searched_unsat)d   "
      "guard-flip searches: %(flipped)d" % stats)
if failures:
    print("%d PROPERTY VIOLATIONS" % len(failures))
    sys.exit(1)
print("C03 held in all cases")
