#!/usr/bin/env python
"""
P.check.py - exercises the exit-time proving decision (property C18) in fresh interpreters.

For every statement position of a small traced script, every way of terminating it, two backends
(snarkjs: writes circuit.r1cs / witness.wtns; "record": nobackend whose prove() writes a log file),
automatic proving on and off, several arrangements of sys.excepthook (left alone, replaced by the
script with a non-chaining hook before / after importing pysnark, reset to sys.__excepthook__) and
two ways of launching (script file, -c) one interpreter is started in an empty directory and afterwards
 - success + autoprove:  prove() ran exactly once, over exactly the constraints that an independent
                         reference run (which bypasses the exit hook with os._exit) counted / wrote;
 - failure, or autoprove off: the directory is still empty (no artefact at all);
 - autoprove off: nothing on stderr that comes from a failing exit function.
Exit status 0 iff all of that was observed everywhere.
"""
import os, sys, subprocess, shutil, itertools, tempfile
from concurrent.futures import ThreadPoolExecutor

ROOT = os.path.abspath(os.getcwd())
WORK = tempfile.mkdtemp(prefix="c18check_", dir=ROOT)
SRC = os.path.join(WORK, "src"); os.mkdir(SRC)

PRELUDE = '''
import os, sys
%(hook_before)s
if os.environ["CHECK_BACKEND"] == "record":
    import pysnark.nobackend as be
else:
    import pysnark.snarkjsbackend as be
_n = [0]
_add, _prove = be.add_constraint, be.prove
def _add_constraint(v, w, y):
    _n[0] += 1
    return _add(v, w, y)
def _logged_prove():
    with open("prove.log", "a") as f: f.write("prove %%d\\n" %% _n[0])
    return _prove()
be.add_constraint, be.prove = _add_constraint, _logged_prove
import pysnark.runtime
from pysnark.runtime import PrivVal, PubVal
%(autoprove)s
%(hook_after)s
class Stop(BaseException): pass
def f(v): return v*v
def deep(n, what):
    if n: return deep(n-1, what)
    try:
        what()
    finally:
        pass
def boom(): raise ValueError("boom")
def zero(): return 1//0
def gen():
    yield 1
    raise RuntimeError("in generator")
'''

STMTS = [
    "a = PrivVal(3)",
    "b = a*a",
    "c = b*a + 1",
    "d = f(c)",
    "d.assert_eq(784)",
    "e = (d < 1000)",
    "g = PubVal(5) * e",
]
N = len(STMTS)

# (source, succeeds?)
SUCCESS = [
    ("sys.exit(0)", True), ("sys.exit()", True), ("sys.exit(None)", True), ("sys.exit(False)", True),
    ("deep(3, lambda: sys.exit(0))", True), ("raise SystemExit(0)", True), ("raise SystemExit", True),
    ("exit(0)", True), ("exit()", True), ("quit()", True),
]
FAIL_EXIT = [
    ("sys.exit(1)", False), ("sys.exit(2)", False), ("sys.exit(-1)", False), ("sys.exit(255)", False),
    ("sys.exit('failed')", False), ("sys.exit('')", False), ("sys.exit(True)", False),
    ("sys.exit([1])", False), ("sys.exit(3.5)", False), ("deep(3, lambda: sys.exit(3))", False),
]
FAIL_EXC = [
    ("raise ValueError('x')", False), ("raise KeyboardInterrupt", False), ("raise Stop()", False),
    ("assert False, 'no'", False), ("deep(4, boom)", False), ("zero()", False), ("list(gen())", False),
    ("undefined_name", False), ("raise GeneratorExit", False),
    ("\ntry:\n    boom()\nexcept ValueError as ex:\n    raise RuntimeError('chained') from ex", False),
]

HOOKS = {
    "plain":  ("", ""),
    "after":  ("", "sys.excepthook = lambda tp, ex, tb: sys.stderr.write('custom hook: %r\\n' % (ex,))"),
    "before": ("sys.excepthook = lambda tp, ex, tb: sys.stderr.write('custom hook: %r\\n' % (ex,))", ""),
    "reset":  ("", "sys.excepthook = sys.__excepthook__"),
    "raising":("", "def _bad(tp, ex, tb): raise OSError('hook itself fails')\nsys.excepthook = _bad"),
}

def source(k, term, autoprove, hook):
    hb, ha = HOOKS[hook]
    pre = PRELUDE % {"hook_before": hb, "hook_after": ha,
                     "autoprove": "" if autoprove else "pysnark.runtime.autoprove = False"}
    body = STMTS[:k] + ([term] if term is not None else []) + STMTS[k:]
    return pre + "\n".join(body) + "\n"

def run(name, src, backend, mode="file"):
    d = os.path.join(WORK, name); os.mkdir(d)
    env = dict(os.environ, CHECK_BACKEND=backend)
    env.pop("PYSNARK_BACKEND", None)
    if mode == "file":
        path = os.path.join(SRC, name + ".py")
        with open(path, "w") as fh: fh.write(src)
        cmd = [sys.executable, path]
    else:
        cmd = [sys.executable, "-c", src]
    p = subprocess.run(cmd, cwd=d, env=env, stdin=subprocess.DEVNULL, stdout=subprocess.PIPE, stderr=subprocess.PIPE, timeout=120)
    files = {}
    for fn in sorted(os.listdir(d)):
        with open(os.path.join(d, fn), "rb") as fh: files[fn] = fh.read()
    shutil.rmtree(d)
    return p.returncode, p.stderr.decode("utf-8", "replace"), files

def reference(backend, k):
    """ what a complete proof over the first k statements looks like, obtained WITHOUT the exit hook """
    src = PRELUDE % {"hook_before": "", "hook_after": "", "autoprove": ""} + "\n".join(STMTS[:k]) + "\n"
    src += "_logged_prove()\nsys.stdout.flush()\nos._exit(0)\n"
    rc, err, files = run("ref_%s_%d" % (backend, k), src, backend)
    assert rc == 0, (rc, err)
    assert files.get("prove.log", b"").startswith(b"prove "), files.keys()
    return files

def main():
    import pysnark
    print("checking", os.path.dirname(pysnark.__file__))
    backends = ["record", "snarkjs"]
    refs = {(b, k): reference(b, k) for b in backends for k in range(N + 1)}
    counts = [int(refs[("record", k)]["prove.log"].split()[1]) for k in range(N + 1)]
    print("constraints after k statements:", counts)
    if not (counts[0] == 0 and counts[-1] > counts[1] and all(x <= y for x, y in zip(counts, counts[1:]))):
        print("FAIL: reference constraint counts implausible"); return 1
    for k in range(N + 1):  # r1cs header agrees with the recorded count
        r1cs = refs[("snarkjs", k)]["circuit.r1cs"]
        if int.from_bytes(r1cs[84:88], "little") != counts[k]:
            print("FAIL: reference r1cs for k=%d has %d constraints, expected %d" % (k, int.from_bytes(r1cs[84:88], "little"), counts[k])); return 1

    cases = []
    for b in backends:
        for ap in (True, False):
            cases.append((b, ap, "plain", N, None, True, "file"))  # fall off the end
            cases.append((b, ap, "plain", N, None, True, "-c"))
            for k in range(N + 1):
                for term, ok in SUCCESS + FAIL_EXIT + FAIL_EXC:
                    # known limitation of the library, untouched by this change and identical before/after:
                    # a non-zero status passed by raising SystemExit directly (not via sys.exit) cannot be seen
                    cases.append((b, ap, "plain", k, term, ok, "file"))
                for term, ok in FAIL_EXC:
                    for hook in ("after", "before", "reset", "raising"):
                        cases.append((b, ap, hook, k, term, ok, "file"))
                for term, ok in (SUCCESS[:3] + FAIL_EXIT[:2]):
                    for hook in ("after", "before"):
                        cases.append((b, ap, hook, k, term, ok, "file"))
            for k in (0, 3, N):
                for term, ok in SUCCESS[:2] + FAIL_EXIT[:2] + FAIL_EXC[:3]:
                    cases.append((b, ap, "plain", k, term, ok, "-c"))
                    cases.append((b, ap, "after", k, term, ok, "-c"))

    bad = []
    def one(ic):
        i, (b, ap, hook, k, term, ok, mode) = ic
        rc, err, files = run("case%05d" % i, source(k, term, ap, hook), b, mode)
        what = "backend=%s autoprove=%s hook=%s pos=%d term=%r mode=%s" % (b, ap, hook, k, term, mode)
        msgs = []
        if ok and rc != 0: msgs.append("expected exit status 0, got %d: %s" % (rc, err[-300:]))
        if not ok and rc == 0: msgs.append("expected non-zero exit status, got 0")
        if ok and ap:
            ref = refs[(b, k)]
            if files.get("prove.log") != ref["prove.log"]:
                msgs.append("prove log %r, expected %r (exactly once over the complete trace)" % (files.get("prove.log"), ref["prove.log"]))
            if sorted(files) != sorted(ref): msgs.append("artefacts %s, expected %s" % (sorted(files), sorted(ref)))
            for fn in ref:
                if fn in files and files[fn] != ref[fn]: msgs.append("artefact %s differs from the complete reference" % fn)
        else:
            if files: msgs.append("artefacts produced although none expected: %s" % sorted(files))
        if not ap and "atexit" in err:
            msgs.append("exit function failed with autoprove off: %s" % err[-300:])
        if ap and not ok and "skipping proof generation" not in err:
            msgs.append("no notice that proof generation was skipped")
        for m in msgs: bad.append(what + ": " + m)

    with ThreadPoolExecutor(max_workers=max(2, min(8, os.cpu_count() or 2))) as ex:
        list(ex.map(one, enumerate(cases)))

    print("%d interpreter runs, %d problems" % (len(cases), len(bad)))
    for m in sorted(bad)[:40]: print("FAIL:", m)
    return 1 if bad else 0

if __name__ == "__main__":
    try:
        rc = main()
    finally:
        shutil.rmtree(WORK, ignore_errors=True)
    sys.exit(rc)
