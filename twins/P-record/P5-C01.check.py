# Check for change P (check_positive by offset-binary decomposition).
#
# Records every constraint and every public/private value the library hands to
# the (snarkjs) backend and evaluates each constraint modulo the backend prime.
# Exits 0 iff every run that did not raise left a satisfied constraint system
# (and, as sanity, the sign bit that was returned is the right one and, for the
# smallest widths, is the only one a prover could choose).

import itertools
import os
import sys

os.environ["PYSNARK_BACKEND"] = "snarkjs"

import pysnark.runtime as rt
import pysnark.snarkjsbackend as be
from pysnark.runtime import PrivVal, PubVal, LinComb, guarded, ignore_errors
from pysnark.boolean import LinCombBool, PrivValBool
from pysnark.fixedpoint import PrivValFxp, LinCombFxp
from pysnark.branching import if_then_else
from pysnark.array import Array
import pysnark.fixedpoint

rt.autoprove = False
assert rt.backend is be, "snarkjs backend expected"
P = be.get_modulus()

failures = []
nruns = 0
nconstraints = 0


def ev(lc, priv=None):
    tot = 0
    for (k, c) in lc.lc.items():
        if k == 0:
            v = 1
        elif k > 0:
            v = be.pubvals[k - 1]
        else:
            v = priv[-k - 1] if priv is not None and (-k - 1) in priv else be.privvals[-k - 1]
        tot += c * v
    return tot % P


def unsatisfied(start, priv=None):
    return [i for i in range(start, len(be.constraints))
            if (ev(be.constraints[i][0], priv) * ev(be.constraints[i][1], priv) - ev(be.constraints[i][2], priv)) % P != 0]


def run(label, fn, expect=None, may_raise=True):
    """ Runs fn; if it does not raise, all constraints it emitted must hold. """
    global nruns, nconstraints
    nruns += 1
    start = len(be.constraints)
    saved = (rt.guard, rt._ignore_errors, LinComb.ONE)
    try:
        res = fn()
    except (ValueError, AssertionError, IndexError, ZeroDivisionError) as e:
        (rt.guard, rt._ignore_errors, LinComb.ONE) = saved
        if not may_raise:
            failures.append("%s: unexpectedly raised %r" % (label, e))
        return None
    if rt.guard is not saved[0] or rt._ignore_errors is not saved[1] or LinComb.ONE is not saved[2]:
        failures.append("%s: guard state not restored" % label)
        (rt.guard, rt._ignore_errors, LinComb.ONE) = saved
    nconstraints += len(be.constraints) - start
    bad = unsatisfied(start)
    if bad:
        failures.append("%s: %d unsatisfied constraint(s), first is #%d of the run" % (label, len(bad), bad[0] - start))
    if expect is not None:
        got = res.lc.value if isinstance(res, (LinCombBool, LinCombFxp)) else res.value if isinstance(res, LinComb) else res
        if got != expect:
            failures.append("%s: result %r, expected %r" % (label, got, expect))
    return res


def val(x):
    return x.lc.value if isinstance(x, (LinCombBool, LinCombFxp)) else x.value


# --- 1. the gadget itself, exhaustively, for small widths, all guard situations
for bits in [1, 2, 3, 4, 5, 8]:
    lo, hi = -(1 << bits), (1 << bits)
    for v in range(lo - 3, hi + 3):
        inrange = lo <= v < hi
        for mk in (PrivVal, PubVal, lambda v: PrivVal(v + 7) - 7, lambda v: PrivVal(3) * PrivVal(v) - 2 * v):
            # no guard
            r = run("check_positive(%d,bits=%d)" % (v, bits), lambda: mk(v).check_positive(bits),
                    expect=(1 if v >= 0 else 0) if inrange else None, may_raise=not inrange)
            if not inrange and r is not None:
                failures.append("check_positive(%d,bits=%d) accepted a value outside its range" % (v, bits))
            # guard that is on: same behaviour, constraints go through the guarded path
            r = run("guard=1 check_positive(%d,bits=%d)" % (v, bits),
                    lambda: guarded(PrivVal(1))(lambda: mk(v).check_positive(bits))(),
                    expect=(1 if v >= 0 else 0) if inrange else None, may_raise=not inrange)
            if not inrange and r is not None:
                failures.append("guard=1 check_positive(%d,bits=%d) accepted a value outside its range" % (v, bits))
            # guard that is off: never raises, whatever the value, and everything is absorbed
            r = run("guard=0 check_positive(%d,bits=%d)" % (v, bits),
                    lambda: guarded(PrivVal(0))(lambda: mk(v).check_positive(bits))(), may_raise=False)
            if r is not None and val(r) not in (0, 1):
                failures.append("guard=0 check_positive(%d,bits=%d) returned a non-bit" % (v, bits))
            # nested guards 1&1, 1&0, 0&1
            for (g1, g2) in ((1, 1), (1, 0), (0, 1)):
                run("guard=%d&%d check_positive(%d,bits=%d)" % (g1, g2, v, bits),
                    lambda: guarded(PrivVal(g1))(lambda: guarded(PrivVal(g2))(lambda: mk(v).check_positive(bits))())(),
                    may_raise=(g1 & g2 == 1 and not inrange))

# huge garbage inside a guard that is off (field-sized values, as inverses are)
for v in (P - 1, -(P - 1), P // 2, 1 << 200, -(1 << 200) - 12345):
    run("guard=0 check_positive(huge)", lambda: guarded(PrivVal(0))(lambda: PrivVal(v).check_positive())(), may_raise=False)

# --- 2. uniqueness for tiny widths: with the input public, brute-force all
#        0/1 assignments of the gadget's private wires (any non 0/1 value already
#        violates the bit constraint of its wire); exactly one may satisfy.
for bits in [1, 2, 3]:
    for v in range(-(1 << bits), (1 << bits)):
        start, pstart = len(be.constraints), len(be.privvals)
        r = PubVal(v).check_positive(bits)
        npriv = len(be.privvals) - pstart
        if npriv != bits + 1 or len(be.constraints) - start != bits + 2:
            failures.append("unexpected gadget size for bits=%d: %d wires, %d constraints" % (bits, npriv, len(be.constraints) - start))
        sols = []
        for assignment in itertools.product((0, 1), repeat=npriv):
            priv = {pstart + i: a for (i, a) in enumerate(assignment)}
            if not unsatisfied(start, priv):
                sols.append(assignment)
        if len(sols) != 1 or sols[0][-1] != (1 if v >= 0 else 0):
            failures.append("bits=%d v=%d: satisfying bit assignments %r" % (bits, v, sols))
        # a non-bit on a wire is rejected by that wire's own constraint
        for i in range(npriv):
            if not unsatisfied(start, {pstart + i: 2}):
                failures.append("bits=%d v=%d: wire %d accepts the value 2" % (bits, v, i))

# --- 3. the operators built on the gadget, all pairs over a small width
ops = {
    "<": (lambda a, b: a < b, lambda a, b: a < b), "<=": (lambda a, b: a <= b, lambda a, b: a <= b),
    ">": (lambda a, b: a > b, lambda a, b: a > b), ">=": (lambda a, b: a >= b, lambda a, b: a >= b),
}
for bl in [2, 3, 4]:
    rt.bitlength = bl
    rng = range(-(1 << bl) - 1, (1 << bl) + 2)
    for a in rng:
        for b in rng:
            for (nm, (op, ref)) in ops.items():
                d = {"<": b - a - 1, "<=": b - a, ">": a - b - 1, ">=": a - b}[nm]
                ok = -(1 << bl) <= d < (1 << bl)
                run("bl=%d %d%s%d" % (bl, a, nm, b), lambda: op(PrivVal(a), PrivVal(b)),
                    expect=(1 if ref(a, b) else 0) if ok else None, may_raise=not ok)
                run("bl=%d %d%s%d (int rhs)" % (bl, a, nm, b), lambda: op(PrivVal(a), b),
                    expect=(1 if ref(a, b) else 0) if ok else None, may_raise=not ok)
                run("bl=%d %d%s%d (int lhs)" % (bl, a, nm, b), lambda: op(a, PrivVal(b)),
                    expect=(1 if ref(a, b) else 0) if ok else None, may_raise=not ok)
                for g in (0, 1):
                    run("bl=%d guard=%d %d%s%d" % (bl, g, a, nm, b),
                        lambda: if_then_else(PrivValBool(g), lambda: op(PrivVal(a), PrivVal(b)).lc, lambda: PrivVal(0)),
                        may_raise=(g == 1 and not ok))
        # abs, and selections on a comparison
        run("bl=%d abs(%d)" % (bl, a), lambda: abs(PrivVal(a)), expect=abs(a), may_raise=not (-(1 << bl) <= a < (1 << bl)))
        run("bl=%d max(%d,1)" % (bl, a), lambda: if_then_else(PrivVal(a) >= 1, PrivVal(a), PrivVal(1)))

# the value the old code refused although both operands are bitlength-bit values
rt.bitlength = 16
run("65535<0", lambda: PrivVal(65535) < PrivVal(0), expect=0, may_raise=False)
run("0>65535", lambda: PrivVal(0) > PrivVal(65535), expect=0, may_raise=False)
run("-65536>=0", lambda: PrivVal(-65536) >= 0, expect=0, may_raise=False)
run("65535>=0", lambda: PrivVal(65535) >= 0, expect=1, may_raise=False)
if run("65536>=0", lambda: PrivVal(65536) >= 0) is not None:
    failures.append("65536>=0 did not raise")
if run("-65537>=0", lambda: PrivVal(-65537) >= 0) is not None:
    failures.append("-65537>=0 did not raise")

# --- 4. composed with other parts of the library
rt.bitlength = 6
for res in (0, 2):
    pysnark.fixedpoint.resolution = res
    for a in (-3.0, -0.5, 0.0, 0.25, 1.0, 2.5):
        for b in (-1.0, 0.0, 0.5, 2.5):
            for (nm, (op, ref)) in ops.items():
                run("fxp res=%d %r%s%r" % (res, a, nm, b), lambda: op(PrivValFxp(a), PrivValFxp(b)))
                run("fxp res=%d %r%s%r (float rhs)" % (res, a, nm, b), lambda: op(PrivValFxp(a), b))
        run("fxp abs", lambda: abs(PrivValFxp(a)))
pysnark.fixedpoint.resolution = 8

rt.bitlength = 5
for a in range(-3, 12):
    for b in range(-2, 6):
        run("divmod(%d,%d)" % (a, b), lambda: divmod(PrivVal(a), PrivVal(b)))
        run("guard=0 divmod(%d,%d)" % (a, b), lambda: guarded(PrivVal(0))(lambda: divmod(PrivVal(a), PrivVal(b)))())
        run("%d>>%d" % (a, b), lambda: PrivVal(a) >> PrivVal(b))

def branches(x):
    # if x<0: -1 / elif x>3: (x>=7)+1 / else: (x<=1)*5, each branch run under its guard
    x = PrivVal(x)
    return if_then_else(x < 0, lambda: PrivVal(-1),
                        lambda: if_then_else(x > 3, lambda: (x >= 7).lc + 1, lambda: (x <= 1).lc * 5))

for x in range(-40, 41):
    run("branches(%d)" % x, lambda: branches(x),
        expect=None if not (-31 <= x <= 31) else (-1 if x < 0 else (2 if x >= 7 else 1) if x > 3 else (5 if x <= 1 else 0)))

arr = Array([PrivVal(i * i) for i in range(5)])
for i in range(-1, 7):
    run("arr[%d] of a comparison" % i, lambda: arr[if_then_else(PrivVal(i) < 5, PrivVal(i), PrivVal(0))])

rt.bitlength = 16

print("runs: %d, constraints evaluated: %d, failures: %d" % (nruns, nconstraints, len(failures)))
for f in failures[:40]:
    print("FAIL", f)
sys.exit(1 if failures else 0)
