#!/usr/bin/env python
"""
Evidence program for change P (like terms of every linear combination are merged
before an equation is written by the qaptools backend).

Run as   PYTHONPATH=<tree> /venv/bin/python P.check.py   from an empty directory.

It traces many programs with the qaptools backend (repeated wires, complete
cancellations, constants, negative and huge witness values, guards with a false
condition, comparisons / bit decompositions, sub-circuit functions that are called
several times and nested, an inconsistent function), then decodes the files the
backend and qapsplit wrote with its OWN parser and checks property C12 itself:

 (A) every equation in pysnark_eqs holds modulo p for the values in
     pysnark_wires / pysnark_values;  every add_constraint(v, w, y) call of the
     runtime produced exactly one written equation, whose three linear forms are
     equal modulo p to the forms the runtime passed (nothing dropped, nothing
     altered), and all wires of an equation lie in one function context, which is
     the context that was being traced;
 (B) every public value is in the I/O file, tied to a wire of the same value by an
     equality "* = 1 wire -1 o_k";
 (C) the per-function files written by qapsplit contain, for EVERY call of that
     function, exactly the equations and blocks traced in that call (relative
     names), and no traced equation is outside all function files;
 (D) equal names -> equal equation sets and one signature, or qapsplit raises
     "Inconsistent functions"; different equation sets -> different signatures;
 (E) every sub-circuit call has a [glue] line joining two [ioblock]s that list all
     arguments and results (in order), with pairwise equal values equal to the
     plain Python values, and equal block randomness.

Exit status 0 iff all of this held in all scenarios.
"""
import os, random, shutil, stat, sys, tempfile

WORK = tempfile.mkdtemp(prefix="c12check")
ORIGCWD = os.getcwd()
BIN = os.path.join(WORK, "bin")
os.mkdir(BIN)
for tool in ("qapgen", "qapgen.exe"):            # the backend only looks for the executable at import
    with open(os.path.join(BIN, tool), "w") as f: f.write("#!/bin/sh\nexit 0\n")
    os.chmod(os.path.join(BIN, tool), stat.S_IRWXU)
os.environ["QAPTOOLS_BIN"] = BIN
os.environ["PYSNARK_BACKEND"] = "qaptools"
os.environ.pop("PYSNARK_KEYDIR", None)
os.environ.pop("PYSNARK_PROOFDIR", None)
os.chdir(WORK)

import pysnark.runtime as rt
rt.autoprove = False                               # no external tools at exit
from pysnark.runtime import PrivVal, PubVal, ConstVal, LinComb
from pysnark.qaptools import backend, qapsplit
from pysnark.qaptools.backend import subqap
from pysnark.branching import if_then_else
from pysnark.boolean import LinCombBool, PrivValBool

def tolc(z): return z.lc if isinstance(z, LinCombBool) else z

P = 21888242871839275222246405745257275088548364400416034343698204186575808495617
assert backend.get_modulus() == P

failures = []
def check(cond, *msg):
    if not cond:
        failures.append(" ".join(str(m) for m in msg))
        if len(failures) <= 25: print("FAIL:", *msg)
    return cond

# ---------------------------------------------------------------- recording

class Rec:
    def __init__(self):
        self.raw = []      # (ctx, v.sig, w.sig, y.sig) as passed by the runtime
        self.pubs = []     # public values, in order (all created in main)
        self.calls = []    # (caller ctx, function name, [arg values], [result values]) in completion order
rec = None

_orig_add_constraint = backend.add_constraint
def _recording_add_constraint(v, w, y):
    # record what the runtime asked for before the backend touches it
    if backend.vc_ctx is None: backend.one()       # forces initialisation like @inited would
    rec.raw.append((backend.vc_ctx, list(v.sig), list(w.sig), list(y.sig)))
    return _orig_add_constraint(v, w, y)
backend.add_constraint = _recording_add_constraint

def flat(struct):
    if isinstance(struct, (list, tuple)):
        return [x for el in struct for x in flat(el)]
    return [struct] if isinstance(struct, LinComb) else []

def call(fn, name, *args):
    caller = backend.vc_ctx
    argv = [a.value for a in flat(args)]
    ret = fn(*args)
    rec.calls.append((caller, name, argv, [r.value for r in flat(ret)]))
    return ret

def pub(val):
    rec.pubs.append(val)
    return PubVal(val)

def out(lc, expected):
    got = lc.val()
    check(got == expected, "plain Python semantics: output", got, "expected", expected)
    rec.pubs.append(got)
    return got

scen_no = 0
def fresh():
    """ start a new trace in a new directory """
    global rec, scen_no
    for f in (backend.qape, backend.qapv, backend.qapvo):
        if f is not None: f.close()
    backend.qape = backend.qapv = backend.qapvo = None
    backend.vc_ctx = None
    backend.vc_ctr.clear(); backend.vc_ioctr.clear()
    qapsplit.eqs = dict(); qapsplit.blocks = dict()
    rt.guard = None; rt._ignore_errors = False; LinComb.ONE = LinComb.ONE_SAFE
    scen_no += 1
    d = os.path.join(WORK, "s%03d" % scen_no)
    os.mkdir(d); os.chdir(d)
    rec = Rec()
    backend.one()                                  # initialise: opens the files, enters main

# ---------------------------------------------------------------- own decoder of the files

def readvals(fn):
    vals = {}
    for ln in open(fn):
        ln = ln.strip()
        if ln == "" or ln[0] == "#": continue
        nm, _, v = ln.partition(": ")
        check(nm not in vals, "wire written twice", nm)
        vals[nm] = int(v)
    return vals

def lin(toks):
    check(len(toks) % 2 == 0, "odd linear combination", toks)
    return [(int(c), w) for c, w in zip(toks[0::2], toks[1::2])]

def parse_eq(toks):
    if toks[-1] == ".": toks = toks[:-1]
    i, j = toks.index("*"), toks.index("=")
    return lin(toks[:i]), lin(toks[i+1:j]), lin(toks[j+1:])

def form(terms):
    """ normal form of a linear form modulo P: wire -> nonzero coefficient """
    d = {}
    for c, w in terms: d[w] = (d.get(w, 0) + c) % P
    return {w: c for w, c in d.items() if c}

def ev(terms, vals):
    s = 0
    for c, w in terms:
        if w in vals: s += c * vals[w]
        elif w.endswith("/one"): s += c
        else:
            check(False, "wire without value", w); return None
    return s % P

def ctx_of(w): return w.rpartition("/")[0]

def rel(tok, ctx):
    return tok[len(ctx)+1:] if tok.startswith(ctx + "/") else tok

def verify(expect_inconsistent=None, label=""):
    backend.qape.flush(); backend.qapv.flush(); backend.qapvo.flush()
    wires = readvals("pysnark_wires")
    io = readvals("pysnark_values")
    vals = dict(wires); vals.update(io)
    check(not (set(wires) & set(io)), label, "name in both wire and I/O file")

    fns = {}            # call -> function name, in order
    eqs = []            # (tokens, (v,w,y), dotted)
    blocks = {}         # (ctx, bn) -> wires
    glues = []
    for ln in open("pysnark_eqs"):
        toks = ln.split()
        if not toks or toks[0].startswith("#"): continue
        if toks[0] == "[function]":
            check(toks[2] not in fns, label, "call name reused", toks[2]); fns[toks[2]] = toks[1]
        elif toks[0] == "[ioblock]":
            check((toks[1], toks[2]) not in blocks, label, "block declared twice", toks[1:3])
            blocks[(toks[1], toks[2])] = toks[3:]
        elif toks[0] == "[glue]": glues.append(tuple(toks[1:]))
        elif toks[0] == "[external]": pass
        else: eqs.append((toks, parse_eq(toks), toks[-1] == "."))

    # ---- (A) every equation holds mod P; one context per equation; nothing dropped or altered
    eqctx = []
    for toks, (v, w, y), dotted in eqs:
        a, b, c = ev(v, vals), ev(w, vals), ev(y, vals)
        check(None not in (a, b, c) and (a * b - c) % P == 0, label, "equation not satisfied:", " ".join(toks))
        cs = {ctx_of(x) for _, x in v + w + y}
        check(len(cs) == 1, label, "equation without a unique function context:", " ".join(toks))
        eqctx.append(next(iter(cs)) if len(cs) == 1 else None)
        check(eqctx[-1] in fns, label, "equation in undeclared context:", " ".join(toks))
    dotted = [(e, c) for e, c in zip(eqs, eqctx) if e[2]]
    check(len(dotted) == len(rec.raw), label, "runtime added", len(rec.raw), "constraints, file has", len(dotted))
    for ((toks, (v, w, y), _), c), (rctx, rv, rw, ry) in zip(dotted, rec.raw):
        check(form(v) == form(rv) and form(w) == form(rw) and form(y) == form(ry),
              label, "written equation differs from the traced one:", " ".join(toks))
        check(c == rctx, label, "equation", " ".join(toks), "written for", c, "but traced in", rctx)
        a, b, cc = ev(rv, vals), ev(rw, vals), ev(ry, vals)
        check(None not in (a, b, cc) and (a * b - cc) % P == 0, label, "traced constraint not satisfied by wires")
        # random point: the written and the traced equation have the same residual everywhere
        names = {x for _, x in rv + rw + ry + v + w + y}
        pt = {x: random.randrange(P) for x in names}
        check((ev(v, pt) * ev(w, pt) - ev(y, pt)) % P == (ev(rv, pt) * ev(rw, pt) - ev(ry, pt)) % P,
              label, "residuals differ at a random point:", " ".join(toks))

    # ---- (B) public values
    check(len(io) == len(rec.pubs), label, "I/O file has", len(io), "values, program made", len(rec.pubs))
    ties = {}
    for toks, (v, w, y), d in eqs:
        if not d and len(y) == 2 and y[1][0] == -1 and "/o_" in y[1][1]:
            check(v == [] and w == [] and y[0][0] == 1, label, "odd I/O equation", " ".join(toks))
            ties[y[1][1]] = y[0][1]
    for k, val in enumerate(rec.pubs, 1):
        o = "main/o_%d" % k
        check(io.get(o) == val, label, "public value", val, "not in I/O file as", o)
        check(o in ties and wires.get(ties[o]) == val, label, "public value", o, "not tied to a wire of equal value")

    # ---- (E) glue
    check(len(glues) == len(rec.calls), label, "calls:", len(rec.calls), "glue lines:", len(glues))
    for (c1, b1, c2, b2), (caller, name, argv, retv) in zip(glues, rec.calls):
        check(c1 == caller and fns.get(c2) == name, label, "glue", c1, c2, "does not join", caller, "to a call of", name)
        w1, w2 = blocks.get((c1, b1)), blocks.get((c2, b2))
        if not check(w1 is not None and w2 is not None, label, "glue without blocks"): continue
        exp = argv + retv
        check(len(w1) == len(w2) == len(exp), label, "blocks of", c2, "list", len(w1), len(w2), "wires for", len(exp), "arguments+results")
        check(all(ctx_of(x) == c1 for x in w1) and all(ctx_of(x) == c2 for x in w2), label, "block wire in wrong context")
        for x1, x2, e in zip(w1, w2, exp):
            check(wires.get(x1) == wires.get(x2) == e, label, "glued wires", x1, x2, "carry", wires.get(x1), wires.get(x2), "expected", e)
        check(wires.get(c1 + "/rnd1_" + b1) == wires.get(c2 + "/rnd1_" + b2) is not None, label, "block randomness differs")
    gluedcallees = [g[2] for g in glues]
    check(sorted(gluedcallees) == sorted(c for c in fns if c != "main"), label, "not every call is glued exactly once")

    # ---- (C), (D) the split
    percall = {c: [] for c in fns}
    neq = {c: 0 for c in fns}
    for (toks, _, _), c in zip(eqs, eqctx):
        if c in percall:
            percall[c].append(" ".join(rel(t, c) for t in toks)); neq[c] += 1
    for (c, bn), ws in blocks.items():
        percall[c].append(" ".join(["[ioblock]", bn] + [rel(t, c) for t in ws]))
    check(sum(neq.values()) == len(eqs), label, "an equation is in no function file")
    # do two calls of one name differ?  Then (and only then) qapsplit has to report it.
    byname = {}
    for c, name in fns.items(): byname.setdefault(name, set()).add(tuple(sorted(percall[c])))
    really_inconsistent = any(len(v) > 1 for v in byname.values())
    if expect_inconsistent is not None:
        check(really_inconsistent == expect_inconsistent, label, "scenario expectation: inconsistent =", expect_inconsistent)
    try:
        qaplens, blklen, extlen, sigs = qapsplit.qapsplit()
    except ValueError as e:
        check(really_inconsistent and "Inconsistent functions" in str(e), label, "qapsplit raised", e)
        return
    check(not really_inconsistent, label, "inconsistent function was not reported")
    filesets = {}
    for c, name in fns.items():
        fl = sorted(" ".join(ln.split()) for ln in open("pysnark_eqs_" + name) if ln.strip())
        check(fl == sorted(percall[c]), label, "file of function", name, "is not the equation set of call", c)
        check(qaplens.get(name) == neq[c], label, "constraint count of", name)
        filesets[name] = tuple(fl)
    check(set(sigs) == set(fns.values()), label, "signatures for", sorted(sigs))
    for n1 in sigs:
        for n2 in sigs:
            check((filesets[n1] == filesets[n2]) == (sigs[n1] == sigs[n2]), label, "signature/equations mismatch", n1, n2)
    sched = [ln.split() for ln in open("pysnark_schedule")]
    check([s[1] for s in sched if s[0] == "[function]"] == list(fns), label, "schedule functions")
    check(all(s[2] == "pysnark_eqs_" + fns[s[1]] for s in sched if s[0] == "[function]"), label, "schedule eq files")
    check([tuple(s[1:]) for s in sched if s[0] == "[glue]"] == glues, label, "schedule glue")

# ---------------------------------------------------------------- traced programs

VALUES = [0, 1, -1, 2, -3, 7, 12345, -99999, 2**64 + 1, -(2**100), 2**200 + 17,
          P - 1, P - 2, (P - 1) // 2, -(P - 1), P, P + 5, -P - 3, 3 * P + 1]
COEFS = [0, 1, -1, 2, -2, 3, 5, -7, 2**70, P - 1, P, P + 1, -P, (P + 1) // 2]

def rnd_expr(R, ws, nterms=None):
    """ random linear expression over the LinCombs ws with repeated wires and
        constants; returns (LinComb, plain integer value) """
    e, val = LinComb.ZERO, 0
    for _ in range(R.randint(0, 7) if nterms is None else nterms):
        k = R.random()
        if k < 0.2:
            c = R.choice(COEFS); e = e + c; val += c
        else:
            w = R.choice(ws); c = R.choice(COEFS)
            if k < 0.5: e = e + w * c
            elif k < 0.7: e = c * w + e
            else: e = e - w * (-c)
            val += c * w.value
    check(e.value == val, "value bookkeeping", e.value, val)
    return e, val

def cancelling(R, ws, exact=True):
    """ an expression that is identically zero modulo P but has many terms; with
        exact=False its integer value may be a nonzero multiple of P (the runtime's
        own integer checks do not accept that in assert_zero / check_zero) """
    e, _ = rnd_expr(R, ws, R.randint(1, 5))
    choice = R.randint(0, 2 if exact else 3)
    if choice == 0: return e - e
    if choice == 1: return e * 3 - e - e * 2
    if choice == 2: return (e + 5) * 0
    return e * (P - 1) + e            # coefficients add up to P

def prog_linear(R):
    ws = [PrivVal(R.choice(VALUES)) for _ in range(R.randint(1, 5))] + [pub(R.choice(VALUES)) for _ in range(R.randint(0, 2))]
    for _ in range(R.randint(3, 10)):
        k = R.randint(0, 6)
        a, av = rnd_expr(R, ws); b, bv = rnd_expr(R, ws)
        if k == 0:
            m = a * b; check(m.value == av * bv, "product value"); ws.append(m)
        elif k == 1:
            a.assert_eq(ConstVal(av)); (a + b).assert_eq(b + a)
        elif k == 2:
            cancelling(R, ws).assert_zero()
        elif k == 3:
            z = cancelling(R, ws, exact=False); m = z * a; ws.append(m + b)      # 0 * a = m
            (cancelling(R, ws) * cancelling(R, ws)).assert_zero()
        elif k == 4:
            out(a + cancelling(R, ws), av)
        elif k == 5:
            LinComb.ZERO.assert_zero(); (ConstVal(5) - 5).assert_zero(); ws.append(ConstVal(3) * ConstVal(-4))
        else:
            z = cancelling(R, ws).check_zero(); out(tolc(z), 1)
            nz = (a - a + 1 + b - b).check_zero(); out(tolc(nz), 0)

def prog_guard(R):
    x, y = PrivVal(R.choice(VALUES)), PrivVal(R.choice(VALUES))
    for gv in (0, 1, R.randint(0, 1)):
        g = PrivVal(gv)
        bak = rt.add_guard(g)
        try:
            if gv == 0:
                (x - y + 1).assert_zero()                 # false, but guarded away
                rt.add_constraint(x + x, y - y, x + 7)    # false, guarded away
                (x + x - 2 * x + 3).assert_zero()         # collapses to the constant 3
            (x + y - x - y).assert_zero()
            rt.add_constraint(x + x - x, y + 0 * x, x * y)
            e, ev_ = rnd_expr(R, [x, y]); e.assert_eq(ConstVal(ev_) + x - x)
        finally:
            rt.restore_guard(bak)
    cv = R.randint(0, 1)
    r = tolc(if_then_else(PrivValBool(cv), x + x - x, y + 3 - 3 + x - x))
    out(r + y - y, x.value if cv else y.value)
    def taken():
        (x - x).assert_zero(); return x * 2 - x
    def nottaken():
        (x - x + 1).assert_zero(); (y - x + 1).assert_zero(); return y + y - y      # false: only in the lazy branch
    cv = R.randint(0, 1)
    r = tolc(if_then_else(PrivValBool(cv), taken if cv else nottaken, nottaken if cv else taken))
    out(r, x.value)

def prog_bits(R):
    a, b = PrivVal(R.randint(-1000, 1000)), PrivVal(R.randint(-1000, 1000))
    lt = (a + b - b) < (b + a - a)
    out(tolc(lt), int(a.value < b.value))
    c = PrivVal(R.randint(0, 255))
    bits = (c + c - c).to_bits(8)
    out(LinComb.from_bits(bits) - c + c, c.value)
    (a * 2 - a - a + c).assert_range(0, 256)

flag = [0]

@subqap("sq")
def sq(v):
    (v - v).assert_zero()                 # cancels completely: anchored in the callee
    return v * v + v - v

@subqap("cube")
def cube(v):
    s = call(sq, "sq", v + v - v)
    return s * v

@subqap("mix")
def mix(a, b, lst):
    t = a + a - 2 * a + b                 # collapses to b
    (t - b).assert_zero()
    u = (a + b + a) * (b - a - a + 3)
    s = a * 0
    for x in lst: s = s + x + x
    c = call(cube, "cube", b - a + a)     # nested two levels
    return [u, s + 5 - 5], (t * 1, c)

@subqap("flip")
def flip(a):
    # two spellings of the same function: either they give the same equation set, or qapsplit must say so
    return a * a + a if flag[0] else a * a + a + a - a

@subqap("bad")
def bad(a):
    return a * a if flag[0] else a * a * a

def prog_sub(R):
    xs = [PrivVal(R.choice(VALUES)) for _ in range(4)]
    r1 = call(sq, "sq", xs[0]); check(r1.value == xs[0].value ** 2, "sq value")
    r2 = call(cube, "cube", xs[1] + xs[0] - xs[0]); check(r2.value == xs[1].value ** 3, "cube value")
    r3 = call(cube, "cube", r1)
    (u, s), (t, c) = call(mix, "mix", xs[2], xs[3], [xs[0], xs[1] + xs[1], r2])
    a, b = xs[2].value, xs[3].value
    check(u.value == (2 * a + b) * (b - 2 * a + 3) and t.value == b and c.value == b ** 3, "mix values")
    check(s.value == 2 * (xs[0].value + 2 * xs[1].value + r2.value), "mix sum")
    (u2, s2), (t2, c2) = call(mix, "mix", r3, u + s - s, [t, t, c])
    call(sq, "sq", c2 - c2)                                # argument is identically zero
    out(t2 + s2 - s2, t2.value)
    (r3 - r3).assert_zero()

def prog_flip(R):
    # the same name traced along two syntactically different paths
    x = PrivVal(R.choice(VALUES))
    flag[0] = 0; call(flip, "flip", x)
    flag[0] = 1; call(flip, "flip", x + 1)
    flag[0] = 0

def prog_bad(R):
    x = PrivVal(R.choice(VALUES))
    flag[0] = 0; call(bad, "bad", x)
    flag[0] = 1; call(bad, "bad", x)
    flag[0] = 0

def prog_block(R):
    x, y = PrivVal(R.choice(VALUES)), PrivVal(R.choice(VALUES))
    vcs = backend.vc_declare_block("blk", [x + x - x, y, x * 2 + y - y, ConstVal(4)])
    backend.qape.flush()
    wires = readvals("pysnark_wires")
    for v, e in zip(vcs, [x.value, y.value, 2 * x.value, 4]):
        check(len(v.lc.sig) == 1 and v.lc.sig[0][0] == 1 and wires[v.lc.sig[0][1]] == e, "declared block value")

# ---------------------------------------------------------------- main

try:
    seed = 0
    for name, prog, n in (("linear", prog_linear, 40), ("guard", prog_guard, 12), ("bits", prog_bits, 8),
                          ("sub", prog_sub, 15), ("block", prog_block, 5), ("flip", prog_flip, 3)):
        for i in range(n):
            seed += 1
            fresh(); prog(random.Random(seed)); verify(label="%s#%d:" % (name, i))
    # ('flip' above: verify() itself works out whether the two calls differ and demands a report iff they do.)
    # Now a really inconsistent one:
    for i in range(3):
        fresh(); prog_bad(random.Random(1000 + i)); verify(expect_inconsistent=True, label="bad#%d:" % i)
    # everything in one trace
    for i in range(5):
        fresh(); R = random.Random(2000 + i)
        prog_linear(R); prog_sub(R); prog_guard(R); prog_bits(R); prog_linear(R)
        verify(label="all#%d:" % i)
finally:
    for f in (backend.qape, backend.qapv, backend.qapvo):
        if f is not None: f.close()
    os.chdir(ORIGCWD)
    shutil.rmtree(WORK, ignore_errors=True)

if failures:
    print("C12 check: %d FAILURES" % len(failures)); sys.exit(1)
print("C12 check: property held in %d traced programs" % scen_no)
sys.exit(0)
