#!/usr/bin/env python
"""
Evidence program for property C18 (proof artefacts are emitted at exit only for
successful runs, and completely), aimed at the change "atexitmaybe: decide on
the real exit status (exit_status)".

Run as:  PYTHONPATH=<tree> /venv/bin/python P.check.py     (from an empty directory)

For a family of small pysnark scripts, every statement position k, many ways
of terminating at that position, four syntactic contexts of the terminating
statement and two backends, the script is run in a subprocess and the
PROPERTY is checked against what the operating system saw:

  * real exit status 0     ->  the backend's prove() ran exactly once, and over
                               the complete trace (for snarkjs: witness.wtns
                               and circuit.r1cs are decoded, compared with a
                               snapshot of the trace taken by the script right
                               before it terminates, and every constraint is
                               evaluated on the written witness);
  * real exit status != 0  ->  prove() never ran and no file exists;
  * autoprove off          ->  nothing is produced, whatever the way of
                               terminating, the exit hook prints no traceback,
                               and the exit status is the one plain Python gives.

The exit status is also compared with the status that the same terminating
statement gives in a script that never imports pysnark (plain Python
semantics), so the hook is shown not to alter how the script ends.

`raise SystemExit(<non-zero>)`, builtin `exit(<non-zero>)` and exit codes
that the OS truncates to 0 are run as well but only reported: the unchanged
tree cannot see them (they do not pass through sys.exit) and this change does
not touch that; they are listed under "known, unchanged" and do not affect
the verdict.
"""
import json
import os
import shutil
import subprocess
import sys
import tempfile
from concurrent.futures import ThreadPoolExecutor

PY = sys.executable
P_SNARKJS = 21888242871839275222246405745257275088548364400416034343698204186575808495617

PRELUDE_COMMON = r'''
import sys, os, json, signal
from fractions import Fraction
from decimal import Decimal
'''

PRELUDE_BACKEND = {
    # snarkjs: the real file-writing backend; prove() is wrapped to count calls
    "snarkjs": r'''
os.environ["PYSNARK_BACKEND"] = "snarkjs"
import pysnark.snarkjsbackend as be
_orig_prove = be.prove
def _prove():
    with open("prove.log", "a") as f: f.write("called\n")
    _orig_prove()
be.prove = _prove
def _snap():
    with open("expected.json", "w") as f:
        json.dump({"pub": [v % be.snarkjsp for v in be.pubvals],
                   "priv": [v % be.snarkjsp for v in be.privvals],
                   "ncons": len(be.constraints)}, f)
''',
    # nobackend, made "file writing": prove() appends the number of constraints it
    # was called over to prove.log
    "recording": r'''
os.environ["PYSNARK_BACKEND"] = "nobackend"
import pysnark.nobackend as be
_cnt = [0, 0]
def _ac(v, w, y): _cnt[0] += 1
_pv0, _pb0 = be.privval, be.pubval
def _pv(val): _cnt[1] += 1; return _pv0(val)
def _pb(val): _cnt[1] += 1; return _pb0(val)
be.add_constraint, be.privval, be.pubval = _ac, _pv, _pb
def _prove():
    with open("prove.log", "a") as f: f.write("called %d %d\n" % (_cnt[0], _cnt[1]))
be.prove = _prove
def _snap():
    with open("expected.json", "w") as f:
        json.dump({"ncons": _cnt[0], "nwires": _cnt[1]}, f)
''',
}

PRELUDE_RUNTIME = r'''
import pysnark.runtime
from pysnark.runtime import PrivVal, PubVal, LinComb, guarded, ignore_errors
from pysnark.branching import if_then_else
class OddInt(int):
    """ integer whose == and int() lie; CPython exits with the underlying value """
    def __eq__(self, other): return True
    def __ne__(self, other): return False
    def __hash__(self): return 0
    def __int__(self): return 0
    def __bool__(self): return False
'''

# the traced statements; a script terminates before statement k (k = 0..len)
STATEMENTS = [
    "x = PrivVal(3)",
    "y = PubVal(5)",
    "z = x * y",
    "b = (z < 100)",
    "t = if_then_else(b, z + 1, z - 1)",
    "@guarded(PrivVal(0))\ndef g0():\n    (PrivVal(2) * PrivVal(2)).assert_eq(5)\n    return PrivVal(4) // 3\ng0()",
    "ignore_errors(True); q = PrivVal(-7) // 2; ignore_errors(False)",
    "u = t * t + q; o = PubVal(u.val()); o.assert_eq(u)",
]

# (terminating statement, class).  class: "checked" or "known" (reported only)
TERMINATIONS = [
    ("", "checked"),                                   # fall off the end
    ("sys.exit(0)", "checked"),
    ("sys.exit()", "checked"),
    ("sys.exit(None)", "checked"),
    ("sys.exit(False)", "checked"),
    ("sys.exit(3)", "checked"),
    ("sys.exit(-1)", "checked"),
    ("sys.exit(True)", "checked"),
    ("sys.exit(255)", "checked"),
    ("sys.exit(2**64)", "checked"),
    ("sys.exit('boo')", "checked"),
    ("sys.exit('')", "checked"),
    ("sys.exit(0.0)", "checked"),
    ("sys.exit(-0.0)", "checked"),
    ("sys.exit(1.5)", "checked"),
    ("sys.exit([])", "checked"),
    ("sys.exit(())", "checked"),
    ("sys.exit((0,))", "checked"),
    ("sys.exit((3,))", "checked"),
    ("sys.exit((None,))", "checked"),
    ("sys.exit((False,))", "checked"),
    ("sys.exit(('',))", "checked"),
    ("sys.exit((0, 0))", "checked"),
    ("sys.exit(((),))", "checked"),
    ("sys.exit(((0,),))", "checked"),
    ("sys.exit((0.0,))", "checked"),
    ("sys.exit(0j)", "checked"),
    ("sys.exit(Fraction(0))", "checked"),
    ("sys.exit(Decimal(0))", "checked"),
    ("sys.exit(OddInt(5))", "checked"),
    ("sys.exit(OddInt(0))", "checked"),
    ("sys.exit(PrivVal(0))", "checked"),
    ("sys.exit(PrivVal(4) - 4)", "checked"),
    ("sys.exit(PrivVal(1))", "checked"),
    ("raise ValueError('v')", "checked"),
    ("raise KeyboardInterrupt", "checked"),
    ("1 // 0", "checked"),
    ("assert False, 'no'", "checked"),
    ("PrivVal(1).assert_zero()", "checked"),
    ("undefined_name", "checked"),
    ("raise SystemExit(0)", "checked"),
    ("raise SystemExit", "checked"),
    ("raise SystemExit(None)", "checked"),
    ("exit(0)", "checked"),
    ("exit()", "checked"),
    ("quit()", "checked"),
    ("os.kill(os.getpid(), signal.SIGTERM)", "checked"),
    # not visible to the exit hook on the unchanged tree either; reported only
    ("raise SystemExit(2)", "known"),
    ("raise SystemExit('msg')", "known"),
    ("exit(2)", "known"),
    ("quit('msg')", "known"),
    ("sys.exit(256)", "known"),
]

CONTEXTS = ["plain", "func", "guarded", "tryfinally"]


def indent(code, n=4):
    return "\n".join(" " * n + l for l in code.split("\n"))


def wrap(term, ctx):
    """ terminating statement `term` (with the trace snapshot right before it) in context ctx """
    core = "_snap()\n" + term if term else "_snap()"
    if ctx == "plain":
        return core
    if ctx == "func":
        return "def _t():\n" + indent(core) + "\n_t()"
    if ctx == "guarded":
        return "@guarded(PrivVal(1))\ndef _t():\n" + indent("PrivVal(6).assert_nonzero()\n" + core) + "\n_t()"
    if ctx == "tryfinally":
        # the finally block goes on tracing; the snapshot is retaken afterwards
        return "try:\n" + indent(core) + "\nfinally:\n" + indent("_f = PrivVal(7) * PrivVal(7)\n_snap()")
    raise ValueError(ctx)


def make_script(backend, k, term, ctx, autoprove):
    parts = [PRELUDE_COMMON, PRELUDE_BACKEND[backend], PRELUDE_RUNTIME]
    if not autoprove:
        parts.append("pysnark.runtime.autoprove = False")
    parts += STATEMENTS[:k]
    parts.append(wrap(term, ctx))
    if term:
        parts += STATEMENTS[k:]        # never reached
    return "\n".join(parts) + "\n"


def make_plain_script(term):
    """ the same way of terminating in a script that does not import pysnark """
    return PRELUDE_COMMON + r'''
class OddInt(int):
    def __eq__(self, other): return True
    def __ne__(self, other): return False
    def __hash__(self): return 0
    def __int__(self): return 0
    def __bool__(self): return False
''' + term + "\n"


def run(script, wd):
    with open(os.path.join(wd, "s.py"), "w") as f:
        f.write(script)
    env = dict(os.environ)
    env.pop("PYSNARK_BACKEND", None)
    pr = subprocess.run([PY, "s.py"], cwd=wd, env=env, stdin=subprocess.DEVNULL,
                        stdout=subprocess.PIPE, stderr=subprocess.PIPE, timeout=120)
    return pr.returncode, pr.stderr.decode("utf-8", "replace")


# ---------------------------------------------------------------- decoding of the snarkjs files

class Reader:
    def __init__(self, data): self.d, self.p = data, 0
    def raw(self, n):
        if self.p + n > len(self.d): raise ValueError("file truncated")
        r = self.d[self.p:self.p + n]; self.p += n; return r
    def int(self, n): return int.from_bytes(self.raw(n), "little")
    def done(self): return self.p == len(self.d)


def decode_wtns(data):
    r = Reader(data)
    assert r.raw(4) == b"wtns", "bad magic"
    assert r.int(4) == 2 and r.int(4) == 2, "bad version / section count"
    assert r.int(4) == 1 and r.int(8) == 40 and r.int(4) == 32, "bad section 1"
    assert r.int(32) == P_SNARKJS, "bad modulus"
    n = r.int(4)
    assert r.int(4) == 2 and r.int(8) == 32 * n, "bad section 2"
    w = [r.int(32) for _ in range(n)]
    assert r.done(), "trailing bytes in witness"
    return w


def decode_r1cs(data):
    r = Reader(data)
    assert r.raw(4) == b"r1cs", "bad magic"
    assert r.int(4) == 1 and r.int(4) == 3, "bad version / section count"
    assert r.int(4) == 1 and r.int(8) == 64 and r.int(4) == 32, "bad section 1"
    assert r.int(32) == P_SNARKJS, "bad modulus"
    nvars, nout, npubin, nprivin = r.int(4), r.int(4), r.int(4), r.int(4)
    r.int(8)
    ncons = r.int(4)
    assert r.int(4) == 2
    seclen = r.int(8)
    start = r.p
    cons = []
    for _ in range(ncons):
        c = []
        for _ in range(3):
            lc = {}
            for _ in range(r.int(4)):
                k = r.int(4); lc[k] = r.int(32)
            c.append(lc)
        cons.append(c)
    assert r.p - start == seclen, "constraint section length mismatch"
    assert r.int(4) == 3 and r.int(8) == 8 * nvars, "bad section 3"
    for _ in range(nvars): r.int(8)
    assert r.done(), "trailing bytes in circuit"
    return nvars, nout, cons


def check_snarkjs_files(wd, exp):
    w = decode_wtns(open(os.path.join(wd, "witness.wtns"), "rb").read())
    nvars, nout, cons = decode_r1cs(open(os.path.join(wd, "circuit.r1cs"), "rb").read())
    assert w == [1] + exp["pub"] + exp["priv"], "witness is not the complete trace"
    assert nvars == len(w) and nout == len(exp["pub"]), "circuit header does not match the trace"
    assert len(cons) == exp["ncons"], "circuit has %d constraints, trace had %d" % (len(cons), exp["ncons"])
    ev = lambda lc: sum(c * w[k] for k, c in lc.items()) % P_SNARKJS
    for i, (a, b, c) in enumerate(cons):
        assert all(k < nvars for lc in (a, b, c) for k in lc), "wire out of range"
        assert ev(a) * ev(b) % P_SNARKJS == ev(c), "constraint %d does not hold on the written witness" % i


# ---------------------------------------------------------------- one case

def check_case(case):
    backend, k, term, cls, ctx, autoprove, plain_rc = case
    wd = tempfile.mkdtemp(prefix="c18-")
    try:
        rc, err = run(make_script(backend, k, term, ctx, autoprove), wd)
        files = sorted(f for f in os.listdir(wd) if f not in ("s.py", "expected.json", "__pycache__"))
        proved = open(os.path.join(wd, "prove.log")).read().splitlines() if "prove.log" in files else []
        artefacts = [f for f in files if f != "prove.log"]
        try:
            if "Error in atexit" in err or "Exception ignored in atexit" in err:
                raise AssertionError("the exit hook itself failed:\n" + err)
            if plain_rc is not None and rc != plain_rc:
                raise AssertionError("exit status %d differs from plain Python's %d" % (rc, plain_rc))
            if not autoprove:
                if proved or artefacts:
                    raise AssertionError("autoprove off, but prove ran %d times, files %s" % (len(proved), artefacts))
            elif rc != 0:
                if proved or artefacts:
                    raise AssertionError("exit status %d, but prove ran %d times, files %s" % (rc, len(proved), artefacts))
            else:
                if len(proved) != 1:
                    raise AssertionError("exit status 0, but prove ran %d times" % len(proved))
                exp = json.load(open(os.path.join(wd, "expected.json")))
                if backend == "snarkjs":
                    if artefacts != ["circuit.r1cs", "witness.wtns"]:
                        raise AssertionError("exit status 0, files %s" % artefacts)
                    check_snarkjs_files(wd, exp)
                else:
                    if proved[0] != "called %d %d" % (exp["ncons"], exp["nwires"]):
                        raise AssertionError("prove ran over '%s', the complete trace is %s" % (proved[0], exp))
        except AssertionError as e:
            return (case, rc, str(e))
        return (case, rc, None)
    finally:
        shutil.rmtree(wd, ignore_errors=True)


def main():
    import pysnark.atexitmaybe
    print("tree under test:", os.path.dirname(os.path.dirname(pysnark.atexitmaybe.__file__)))

    # plain Python exit statuses (terminations that need no pysnark object)
    plain = {}
    wd = tempfile.mkdtemp(prefix="c18-plain-")
    try:
        for term, _ in TERMINATIONS:
            if "PrivVal" in term: continue
            plain[term] = run(make_plain_script(term), wd)[0]
    finally:
        shutil.rmtree(wd, ignore_errors=True)

    N = len(STATEMENTS)
    cases = []
    for backend in ("snarkjs", "recording"):
        for term, cls in TERMINATIONS:
            for ctx in CONTEXTS:
                if ctx == "plain":
                    positions = range(N + 1)
                else:
                    positions = (0, 3, N)
                if backend == "recording" and ctx != "plain":
                    positions = (3,)
                for k in positions:
                    cases.append((backend, k, term, cls, ctx, True, plain.get(term)))
            # automatic proving off
            for k in (0, 4, N):
                cases.append((backend, k, term, cls, "plain", False, plain.get(term)))

    with ThreadPoolExecutor(max_workers=min(8, (os.cpu_count() or 2))) as ex:
        results = list(ex.map(check_case, cases))

    bad = [r for r in results if r[2] is not None and r[0][3] == "checked"]
    known = [r for r in results if r[2] is not None and r[0][3] == "known"]
    nzero = sum(1 for r in results if r[1] == 0 and r[0][5])
    print("%d runs (%d with exit status 0 and autoprove on, %d with autoprove off)"
          % (len(results), nzero, sum(1 for r in results if not r[0][5])))
    if known:
        terms = sorted(set(r[0][2] for r in known))
        print("known, unchanged (do not pass through sys.exit; %d runs): %s" % (len(known), ", ".join(terms)))
    for (backend, k, term, cls, ctx, autoprove, _), rc, msg in bad[:12]:
        print("VIOLATION backend=%s position=%d context=%s autoprove=%s  %r (rc=%d): %s"
              % (backend, k, ctx, autoprove, term or "<fall off the end>", rc, msg))
    if bad:
        if len(bad) > 12:
            print("... and %d more; ways of terminating with violations: %s"
                  % (len(bad) - 12, ", ".join(sorted(set(r[0][2] or "<fall off the end>" for r in bad)))))
        print("property C18 violated in %d of %d checked runs" % (len(bad), len(results) - len(known)))
        return 1
    print("property C18 held in all checked runs")
    return 0


if __name__ == "__main__":
    sys.exit(main())
