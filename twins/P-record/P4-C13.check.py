# Evidence program for property C13 (backend linear combinations: faithful immutable
# algebra over a prime field; modulus and inverse of every proof-producing backend).
#
#   PYTHONPATH=<tree> /venv/bin/python P.check.py        (from an empty directory)
#
# Every backend / field configuration is checked in a fresh interpreter (the zkinterface
# family shares module state, so they must not be mixed in one process):
#   snarkjs, zkinterface (bn128), zkifbellman (bls12-381), zkifbulletproofs (curve25519),
#   qaptools (bn128; a dummy "qapgen" executable satisfies the import-time lookup).
# Per configuration:
#   1. get_modulus() is the known scalar-field order of the curve and is prime
#   2. fieldinverse(x) * x == 1 (mod p) for small, negative, huge and unreduced x
#   3. a long random walk over expression trees of linear combinations (variables, constants,
#      zero, integer scalars 0 / negative / above p, and - where the tree offers it - plain
#      integer operands on either side): every result is evaluated on several assignments and
#      compared with the field expression of its operands' evaluations; no operand ever changes
#   4. a circuit built through pysnark.runtime (guards, lazy if_then_else branches, ignore_errors,
#      negative and out-of-range values, divisions that use fieldinverse): every LinComb's backend
#      object evaluates to its value on the recorded witness and every emitted constraint holds
#   5. snarkjs only: witness.wtns and circuit.r1cs are decoded again and the decoded constraints
#      are evaluated on the decoded witness
# Exit status 0 iff the property held everywhere.

import os
import random
import subprocess
import sys
import types

BN128_R = 21888242871839275222246405745257275088548364400416034343698204186575808495617
BLS12_381_R = 52435875175126190479447740508185965837690552500527637822603658699938581184513
CURVE25519_L = 2**252 + 27742317777372353535851937790883648493

CONFIGS = {
    "snarkjs":          ("pysnark.snarkjsbackend", BN128_R),
    "zkinterface":      ("pysnark.zkinterface.backend", BN128_R),
    "zkifbellman":      ("pysnark.zkinterface.backendbellman", BLS12_381_R),
    "zkifbulletproofs": ("pysnark.zkinterface.backendbulletproofs", CURVE25519_L),
    "qaptools":         ("pysnark.qaptools.backend", BN128_R),
}

failures = []
checks = 0


def check(cond, msg):
    global checks
    checks += 1
    if not cond:
        failures.append(msg)
        print("PROPERTY VIOLATED:", msg)


def is_prime(n):
    if n < 2: return False
    for q in (2, 3, 5, 7, 11, 13, 17, 19, 23, 29, 31, 37):
        if n % q == 0: return n == q
    d, s = n - 1, 0
    while d % 2 == 0: d //= 2; s += 1
    rnd = random.Random(1)
    for _ in range(48):
        a = rnd.randrange(2, n - 1)
        x = pow(a, d, n)
        if x in (1, n - 1): continue
        for _ in range(s - 1):
            x = x * x % n
            if x == n - 1: break
        else:
            return False
    return True


def stub_flatbuffers():
    fb = types.ModuleType("flatbuffers")
    compat = types.ModuleType("flatbuffers.compat")
    compat.import_numpy = lambda: None
    fb.compat = compat
    sys.modules["flatbuffers"] = fb
    sys.modules["flatbuffers.compat"] = compat


def fake_qaptools():
    d = os.path.join(os.getcwd(), "fakebin")
    os.makedirs(d, exist_ok=True)
    exe = os.path.join(d, "qapgen" + (".exe" if os.name == "nt" else ""))
    with open(exe, "w") as f: f.write("#!/bin/sh\nexit 0\n")
    os.chmod(exe, 0o755)
    os.environ["QAPTOOLS_BIN"] = d


# ---------------------------------------------------------------------------------------------
# helpers that understand both representations (dict based and qaptools' Sig)

def terms(obj):
    if hasattr(obj, "lc"): return list(obj.lc.items())
    return [(v, c) for (c, v) in obj.sig]


def snapshot(obj):
    return repr(terms(obj))


def evaluate(obj, w, p):
    tot = 0
    for (k, c) in terms(obj):
        check(isinstance(c, int), "non-integer coefficient %r in %r" % (c, terms(obj)))
        tot += c * w[k]
    return tot % p


def single_key(obj):
    t = terms(obj)
    assert len(t) == 1 and t[0][1] == 1, t
    return t[0][0]


# ---------------------------------------------------------------------------------------------

def run_config(name):
    modname, expected_p = CONFIGS[name]
    if name.startswith("zk"): stub_flatbuffers()
    if name == "qaptools": fake_qaptools()
    os.environ["PYSNARK_BACKEND"] = name

    # the way a program selects a configuration: PYSNARK_BACKEND is read when the runtime is imported
    import pysnark.runtime as rt
    rt.autoprove = False
    be = rt.backend
    check(rt.backend_name == name and be.__name__ == modname,
          "%s: runtime picked another backend (%s, %s)" % (name, rt.backend_name, be.__name__))
    rnd = random.Random(20260000 + len(name))

    # 1. modulus ------------------------------------------------------------------------------
    p = be.get_modulus()
    check(p == expected_p, "%s: get_modulus() = %d is not the scalar field order %d" % (name, p, expected_p))
    check(is_prime(p), "%s: modulus %d is not prime" % (name, p))

    # 2. inverse ------------------------------------------------------------------------------
    xs = [1, -1, 2, -2, 3, 7, p - 1, p + 1, 1 - p, 2 * p + 3, -2 * p - 3, 2**300 + 1, -(2**300) - 1,
          (p + 1) // 2, p // 2, 65537, -65537, 10**80]
    xs += [rnd.randrange(1, p) for _ in range(40)]
    xs += [-rnd.randrange(1, p) for _ in range(20)]
    xs += [rnd.randrange(1, p) + rnd.randrange(1, 9) * p for _ in range(20)]
    for x in xs:
        if x % p == 0: continue
        inv = be.fieldinverse(x)
        check(isinstance(inv, int) and (x * inv) % p == 1,
              "%s: fieldinverse(%d) = %r is not the inverse modulo %d" % (name, x, inv, p))
    for x in (0, p, -p, 3 * p):
        try:
            inv = be.fieldinverse(x)
            check(False, "%s: fieldinverse(%d) returned %r instead of raising" % (name, x, inv))
        except ZeroDivisionError:
            check(True, "")

    # wires: record every allocated wire with its value ------------------------------------------
    wit = {}
    orig_priv, orig_pub, orig_addc = be.privval, be.pubval, be.add_constraint
    constraints = []

    def privval(val):
        ret = orig_priv(val); wit[single_key(ret)] = val % p; return ret

    def pubval(val):
        ret = orig_pub(val); wit[single_key(ret)] = val % p; return ret

    def add_constraint(v, w, y):
        constraints.append((v, w, y, snapshot(v), snapshot(w), snapshot(y)))
        return orig_addc(v, w, y)

    be.privval, be.pubval, be.add_constraint = privval, pubval, add_constraint
    wit[single_key(be.one())] = 1

    # 3. random expression trees ----------------------------------------------------------------
    varvals = [5, -7, p + 11, 0, 2**255, -(2**200), p - 1, 1]
    leaves = [be.pubval(v) for v in varvals[:3]] + [be.privval(v) for v in varvals[3:]]
    NASG = 4
    asgs = [dict(wit)]
    for _ in range(NASG - 1):
        a = {k: rnd.randrange(p) for k in wit}
        a[single_key(be.one())] = 1
        asgs.append(a)

    pool = []   # (object, snapshot, expected evaluations per assignment)

    def add(obj, exp, what):
        for (a, e) in zip(asgs, exp):
            got = evaluate(obj, a, p)
            check(got == e % p, "%s: %s evaluates to %d, field expression gives %d" % (name, what, got, e % p))
        pool.append((obj, snapshot(obj), [e % p for e in exp]))

    for lf in leaves:
        add(lf, [a[single_key(lf)] for a in asgs], "variable")
    add(be.zero(), [0] * NASG, "zero()")
    add(be.one(), [1] * NASG, "one()")
    for c in (3, -4, p + 2):
        add(be.one() * c, [c] * NASG, "one()*%d" % c)

    try:
        probe = be.one() + 1
        int_ops = True
        probe2 = 1 + be.one(); probe3 = 2 - be.one(); probe4 = 3 * be.one()
    except (TypeError, AttributeError):
        int_ops = False
    print("%s: integer operands supported: %s" % (name, int_ops))

    scalars = [0, 1, -1, 2, -2, p - 1, p, p + 1, 2 * p + 7, -p, -p - 3, 2**300, 1 - 2**300, True, False]
    ints = [0, 1, -1, 5, -9, p, p + 4, -p - 4, 2**270, True, False]

    def unchanged(entries, what):
        for (o, s, _) in entries:
            check(snapshot(o) == s, "%s: operand altered by %s: %s -> %s" % (name, what, s, snapshot(o)))

    for step in range(1500):
        A = rnd.choice(pool); B = rnd.choice(pool)
        kinds = ["add", "sub", "neg", "mul", "addself", "subself"]
        if int_ops: kinds += ["addint", "raddint", "subint", "rsubint", "rmul", "sum"]
        kind = rnd.choice(kinds)
        s = rnd.choice(scalars) if rnd.random() < .7 else rnd.randrange(-p * 3, p * 3)
        n = rnd.choice(ints) if rnd.random() < .7 else rnd.randrange(-p * 3, p * 3)
        if kind == "add":       obj, exp = A[0] + B[0], [x + y for x, y in zip(A[2], B[2])]
        elif kind == "sub":     obj, exp = A[0] - B[0], [x - y for x, y in zip(A[2], B[2])]
        elif kind == "neg":     obj, exp = -A[0], [-x for x in A[2]]
        elif kind == "mul":     obj, exp = A[0] * s, [x * s for x in A[2]]
        elif kind == "addself": obj, exp = A[0] + A[0], [2 * x for x in A[2]]
        elif kind == "subself": obj, exp = A[0] - A[0], [0 for x in A[2]]
        elif kind == "addint":  obj, exp = A[0] + n, [x + n for x in A[2]]
        elif kind == "raddint": obj, exp = n + A[0], [x + n for x in A[2]]
        elif kind == "subint":  obj, exp = A[0] - n, [x - n for x in A[2]]
        elif kind == "rsubint": obj, exp = n - A[0], [n - x for x in A[2]]
        elif kind == "rmul":    obj, exp = s * A[0], [x * s for x in A[2]]
        elif kind == "sum":
            C = rnd.choice(pool)
            obj, exp = sum([A[0], B[0], C[0]]), [x + y + z for x, y, z in zip(A[2], B[2], C[2])]
            unchanged([C], kind)
        unchanged([A, B], kind)
        check(obj is not A[0] and obj is not B[0], "%s: %s returned one of its operands" % (name, kind))
        add(obj, exp, "%s (step %d, scalar %d, int %d)" % (kind, step, s, n))
        if len(terms(obj)) > 64: pool.pop()                          # qaptools' Sig concatenates: keep it bounded
        if len(pool) > 120: del pool[rnd.randrange(12, len(pool))]   # keep the leaves
    unchanged(pool, "a later operation")
    for (o, s, e) in pool:
        for (a, ee) in zip(asgs, e):
            check(evaluate(o, a, p) == ee, "%s: evaluation changed afterwards" % name)

    # the product of two linear combinations is not linear: never a silently wrong object
    for (o1, o2) in ((leaves[0], leaves[1]), (be.zero(), leaves[0]), (leaves[0], be.zero())):
        try:
            r = o1 * o2
            check(all(isinstance(c, int) for (_, c) in terms(r)),
                  "%s: lc*lc returned an object with non-integer coefficients" % name)
        except (TypeError, AttributeError):
            check(True, "")

    # 4. through the runtime ---------------------------------------------------------------------
    from pysnark.runtime import PrivVal, PubVal, ConstVal, LinComb
    from pysnark.branching import if_then_else

    made = []

    def keep(x):
        made.append(x)
        return x

    x = keep(PrivVal(7)); y = keep(PubVal(-3)); z = keep(PrivVal(p + 5)); u = keep(PrivVal(12)); zero = keep(PrivVal(0))
    a = keep(x + y * 3 - 5)
    b = keep(a * x)
    keep(u / 4); keep(u / -3); keep((u * 5) / 5); keep(-u / 6)
    keep(x - 1000); keep(1000 - x); keep(3 * y); keep(-z); keep(z * (p + 1)); keep(z * -p); keep(x * 0)
    keep(ConstVal(-2) + x); keep(ConstVal(p + 9) * 2)
    keep(u / x) if False else None
    keep(PrivVal(21) / x)
    c1 = x.check_zero(); c2 = zero.check_zero(); c3 = (x - 7).check_nonzero(); c4 = y.check_nonzero()
    for c in (c1, c2, c3, c4): keep(c.lc)
    x.assert_nonzero(); y.assert_nonzero(); z.assert_nonzero(); (x - y).assert_nonzero()
    eq = (x == 7); ne = (x == y)
    keep(eq.lc); keep(ne.lc)
    keep(if_then_else(eq, lambda: keep(x * y + 1), lambda: keep(x / 2)))          # x/2 under a false guard
    keep(if_then_else(ne, lambda: keep((x + 1) / 3), lambda: keep(PrivVal(35) / x - y)))
    keep(if_then_else(eq, lambda: keep(if_then_else(c4, lambda: keep(u / 6 * y), lambda: keep(u / 5))), x))

    def guarded_nonzero():
        t = keep(x - 7)
        t.assert_nonzero()          # false guard: dummy witness path
        (x + 1).assert_nonzero()
        return keep(t + 1)
    keep(if_then_else(ne, guarded_nonzero, lambda: keep(y * y)))

    rt.ignore_errors(True)
    keep(x / 3); keep(x / -2); keep(z / 7); keep(y / (p + 2)); keep(-x / 5)
    rt.ignore_errors(False)

    for (i, v) in enumerate(made):
        if v is None: continue
        check(evaluate(v.lc, wit, p) == v.value % p,
              "%s: runtime value #%d is %d but its linear combination evaluates to %d"
              % (name, i, v.value % p, evaluate(v.lc, wit, p)))
    check(len(constraints) > 30, "%s: constraints were not recorded" % name)
    for (i, (v, w, yy, sv, sw, sy)) in enumerate(constraints):
        check((snapshot(v), snapshot(w), snapshot(yy)) == (sv, sw, sy), "%s: constraint #%d altered after emission" % (name, i))
        check(evaluate(v, wit, p) * evaluate(w, wit, p) % p == evaluate(yy, wit, p),
              "%s: constraint #%d does not hold on the recorded witness" % (name, i))

    # 5. snarkjs: decode the files ---------------------------------------------------------------
    if name == "snarkjs":
        be.prove()
        rd = lambda bs: int.from_bytes(bs, "little")
        wt = open("witness.wtns", "rb").read()
        check(wt[:4] == b"wtns" and rd(wt[28:60]) == p, "snarkjs: witness header / modulus")
        nw = rd(wt[60:64]); body = wt[76:]
        w = [rd(body[32 * i:32 * i + 32]) for i in range(nw)]
        check(w[0] == 1 and nw == len(be.pubvals) + len(be.privvals) + 1, "snarkjs: witness size")
        for (k, val) in wit.items():
            ix = k if k >= 0 else len(be.pubvals) - k
            check(w[ix] == val, "snarkjs: wire %d written as %d instead of %d" % (k, w[ix], val))
        cf = open("circuit.r1cs", "rb").read()
        check(cf[:4] == b"r1cs" and rd(cf[28:60]) == p, "snarkjs: r1cs header / modulus")
        ncons = rd(cf[84:88]); pos = 100
        check(ncons == len(be.constraints) == len(constraints), "snarkjs: number of constraints written")
        for i in range(ncons):
            ev = []
            for _ in range(3):
                nt = rd(cf[pos:pos + 4]); pos += 4; tot = 0
                for _ in range(nt):
                    ix = rd(cf[pos:pos + 4]); co = rd(cf[pos + 4:pos + 36]); pos += 36
                    check(co < p, "snarkjs: unreduced coefficient written")
                    tot += co * w[ix]
                ev.append(tot % p)
            check(ev[0] * ev[1] % p == ev[2], "snarkjs: decoded constraint #%d does not hold on decoded witness" % i)
        check(rd(cf[pos:pos + 4]) == 3, "snarkjs: section 3 follows the constraints")

    print("%s: %d checks, %d failures" % (name, checks, len(failures)))
    return 1 if failures else 0


def main():
    if len(sys.argv) > 1:
        sys.exit(run_config(sys.argv[1]))
    bad = 0
    for name in CONFIGS:
        d = os.path.join(os.getcwd(), "run-" + name)
        os.makedirs(d, exist_ok=True)
        r = subprocess.run([sys.executable, os.path.abspath(__file__), name], cwd=d)
        if r.returncode != 0:
            print("*** configuration %s FAILED (exit %d)" % (name, r.returncode))
            bad += 1
    print("C13 property %s" % ("VIOLATED in %d configuration(s)" % bad if bad else "held in all configurations"))
    sys.exit(1 if bad else 0)


if __name__ == "__main__":
    main()
