# Check for property C16 on a tree with P applied (also passes on the unchanged tree
# except for the parts marked NEW, which exercise inputs only P accepts).
#
# Uses the snarkjs backend as a recorder: every constraint <v,w,y> handed to the
# backend is kept in pysnark.snarkjsbackend.constraints as three sparse linear
# combinations over wire numbers (0 = one, -k = k-th witness, +k = k-th public input),
# so the constraints one gadget emits can be re-evaluated on arbitrary assignments.
import itertools
import os
import random
import sys

os.environ["PYSNARK_BACKEND"] = "snarkjs"

import pysnark.runtime as rt
import pysnark.snarkjsbackend as be
from pysnark.runtime import LinComb, PrivVal, PubVal, ConstVal
from pysnark.boolean import LinCombBool, PrivValBool
from pysnark.pack import PackBool, PackIntMod, PackList, PackRepeat, PackSeed

rt.autoprove = False        # nothing to write at exit
P = be.get_modulus()
failures = []
nchecks = 0

def check(cond, *msg):
    global nchecks
    nchecks += 1
    if not cond:
        failures.append(" ".join(str(m) for m in msg))
        if len(failures) <= 25: print("FAIL:", *msg)

def wire_of(lc):
    """ the single wire a fresh PrivVal / PrivValBool lives on """
    lc = lc.lc if isinstance(lc, LinCombBool) else lc
    (w,) = lc.lc.lc.keys()
    return w

def evallc(lc, assign):
    return sum(c * assign[w] for (w, c) in lc.lc.items()) % P

def holds(cons, assign):
    return all((evallc(v, assign) * evallc(w, assign) - evallc(y, assign)) % P == 0 for (v, w, y) in cons)

def record(fn):
    """ run fn, return (result or exception, constraints it emitted) """
    c0 = len(be.constraints); n0 = rt.num_constraints
    try:
        ret = fn()
    except Exception as e:
        ret = e
    cons = be.constraints[c0:]
    assert len(cons) == rt.num_constraints - n0
    return ret, cons

def spec_ok(v, n): return 0 <= v < (1 << n)

# ---------------------------------------------------------------------------------------
# 1. the halving helper agrees with the specification of the range and of the digits
# ---------------------------------------------------------------------------------------
if hasattr(LinComb, "_halve"):
    rnd = random.Random(16)
    cands = list(range(-70, 140)) + [rnd.getrandbits(rnd.randrange(1, 300)) * rnd.choice([1, -1]) for _ in range(400)]
    for n in list(range(0, 9)) + [16, 31, 64, 253, 254]:
        for v in cands + [(1 << n) - 1, 1 << n, (1 << n) + 1, -(1 << n), -(1 << n) - 1]:
            digits, left = LinComb._halve(v, n)
            check(len(digits) == n and all(d in (0, 1) for d in digits), "_halve digits", v, n)
            check((left == 0) == spec_ok(v, n), "_halve range test", v, n, left)
            check(left == v >> n, "_halve quotient", v, n)
            check(digits == [(v & (1 << i)) >> i for i in range(n)], "_halve digits are the two's complement ones", v, n)
            check(sum(d << i for (i, d) in enumerate(digits)) + (left << n) == v, "_halve recomposes", v, n)

# ---------------------------------------------------------------------------------------
# 2. to_bits / assert_positive at explicit widths, for several global bitlengths:
#    accepted exactly on [0,2^n), bits are the little-endian digits, recomposition gives v,
#    n+1 constraints, and the recorded constraints enforce width n (brute force)
# ---------------------------------------------------------------------------------------
def bruteforce(cons, xw, bitws, n, what):
    """ Over all x in a window around [0,2^n) (and the wrapped negatives) and all
        assignments of {0,1,2,p-1} (n<=3) or {0,1,2} to the bit wires: the constraints hold
        iff all bits are boolean and x is their weighted sum. Hence the set of x that have
        a satisfying witness is exactly [0,2^n). """
    dom = (0, 1, 2, P - 1) if n <= 3 else (0, 1, 2)
    xs = list(range(0, (1 << n) + 4)) + [P - 1, P - 2, P - (1 << n)]
    sat = set()
    for bv in itertools.product(dom, repeat=n):
        boolean = all(b in (0, 1) for b in bv)
        tot = sum(b << i for (i, b) in enumerate(bv)) % P
        for x in xs:
            assign = {0: 1, xw: x}
            assign.update(zip(bitws, bv))
            h = holds(cons, assign)
            check(h == (boolean and tot == x % P), what, "constraints vs. spec at x =", x, "bits =", bv)
            if h: sat.add(x)
    check(sat == set(range(1 << n)), what, "satisfiable x are", sorted(sat), "expected [0,2^%d)" % n)

for gbl in (3, 16, 5):
    rt.bitlength = gbl
    for n in range(0, 7):
        for v in list(range(-3, (1 << n) + 4)) + [(1 << (n + 3)) + 1, -(1 << n)]:
            for mk in (PrivVal, PubVal):
                # --- to_bits(n)
                x = mk(v)
                p0 = len(be.privvals)
                ret, cons = record(lambda: x.to_bits(n))
                if spec_ok(v, n):
                    ok = isinstance(ret, list) and len(ret) == n and all(isinstance(b, LinCombBool) for b in ret)
                    check(ok, "to_bits returned", ret, "for", v, n, gbl)
                    if not ok: continue
                    check([b.lc.value for b in ret] == [(v >> i) & 1 for i in range(n)], "to_bits digits", v, n, ret)
                    back = LinComb.from_bits(ret)
                    if n == 0 and isinstance(back, int): back = ConstVal(back)     # unchanged tree: no bits sum to the int 0
                    check(isinstance(back, LinComb) and back.value == v, "from_bits(to_bits) value", v, n, back)
                    check(len(cons) == n + 1, "to_bits constraint count", len(cons), "for width", n)
                    check(len(be.privvals) - p0 == n, "to_bits witness count", v, n)
                    # the honest witness satisfies what was emitted
                    xw = wire_of(x); bitws = [wire_of(b) for b in ret]
                    assign = {0: 1, xw: v}; assign.update((w, b.lc.value) for (w, b) in zip(bitws, ret))
                    check(holds(cons, assign), "honest witness satisfies to_bits", v, n)
                    # recomposed wire equals x as linear combination: (back - x) vanishes on random assignments
                    for _ in range(3):
                        a = {0: 1, xw: random.randrange(P)}; a.update((w, random.randrange(2)) for w in bitws)
                        want = sum(a[w] << i for (i, w) in enumerate(bitws)) % P
                        check(evallc(back.lc, a) == want, "from_bits weights", v, n)
                    if mk is PrivVal and v in (0, (1 << n) - 1) and len(cons) == n + 1:
                        bruteforce(cons, xw, bitws, n, "to_bits(%d) [bitlength %d]" % (n, gbl))
                else:
                    check(isinstance(ret, AssertionError), "to_bits must reject", v, "at width", n, "bitlength", gbl, "got", ret)
                    check(len(cons) == 0 and len(be.privvals) == p0, "rejected to_bits left constraints/witnesses behind", v, n)

                # --- assert_positive(n), with and without custom error
                for err in (None, "custom message"):
                    x = mk(v)
                    p0 = len(be.privvals)
                    ret, cons = record(lambda: x.assert_positive(n, err=err) if err else x.assert_positive(n))
                    if spec_ok(v, n):
                        check(ret is None, "assert_positive must accept", v, n, gbl, ret)
                        check(len(cons) == n + 1 and len(be.privvals) - p0 == n, "assert_positive counts", v, n, len(cons))
                        if mk is PrivVal and err is None and v == (1 << n) - 1 and len(cons) == n + 1 and len(be.privvals) - p0 == n:
                            bitws = [-(p0 + 1 + i) for i in range(n)]
                            bruteforce(cons, wire_of(x), bitws, n, "assert_positive(%d) [bitlength %d]" % (n, gbl))
                    else:
                        check(isinstance(ret, AssertionError), "assert_positive must reject", v, n, gbl, ret)
                        check(len(cons) == 0, "rejected assert_positive left constraints behind", v, n)
                        if err and isinstance(ret, AssertionError):
                            check(str(ret) == err, "assert_positive custom error text", ret)

    # default width is the global bit length
    for v in (0, 1, (1 << gbl) - 1):
        ret, cons = record(lambda: PrivVal(v).to_bits())
        check(isinstance(ret, list) and len(ret) == gbl and len(cons) == gbl + 1, "default width", v, gbl)
        ret, cons = record(lambda: PrivVal(v).assert_positive())
        check(ret is None and len(cons) == gbl + 1, "default width assert_positive", v, gbl)
    for v in (-1, 1 << gbl):
        ret, cons = record(lambda: PrivVal(v).to_bits())
        check(isinstance(ret, AssertionError), "default width rejects", v, gbl)
        ret, cons = record(lambda: PrivVal(v).assert_positive())
        check(isinstance(ret, AssertionError), "default width assert_positive rejects", v, gbl)

rt.bitlength = 16

# ---------------------------------------------------------------------------------------
# 3. error suppression / guards: same constraints are generated, none is satisfiable
#    for an out-of-range value with the claimed input, nothing raises
# ---------------------------------------------------------------------------------------
for n in range(0, 5):
    for v in (-2, -1, 1 << n, (1 << n) + 1):
        rt.ignore_errors(True)
        x = PrivVal(v); p0 = len(be.privvals)
        ret, cons = record(lambda: x.to_bits(n))
        rt.ignore_errors(False)
        check(isinstance(ret, list) and len(ret) == n and len(cons) == n + 1, "ignore_errors to_bits shape", v, n, ret)
        if isinstance(ret, list):
            bitws = [wire_of(b) for b in ret]
            some = False
            for bv in itertools.product((0, 1), repeat=n):
                a = {0: 1, wire_of(x): v % P}; a.update(zip(bitws, bv))
                some = some or holds(cons, a)
            check(not some, "out-of-range value has a satisfying witness under ignore_errors", v, n)

    # under a false guard the decomposition must not raise and must stay satisfiable
    g = PrivVal(0)
    x = PrivVal((1 << n) + 1)
    p0 = len(be.privvals)
    ret, cons = record(rt.guarded(g)(lambda: x.to_bits(n)))
    check(isinstance(ret, list) and len(ret) == n, "guarded to_bits shape", n, ret)
    assign = {0: 1}
    assign.update((-(i + 1), be.privvals[i] % P) for i in range(len(be.privvals)))
    assign.update(((i + 1), be.pubvals[i] % P) for i in range(len(be.pubvals)))
    check(holds(cons, assign), "false guard: recorded witness satisfies the guarded decomposition", n)
    check(rt.guard is None and not rt.ignore_errors(), "guard state restored")

# ---------------------------------------------------------------------------------------
# 4. from_bits on plain / mixed / empty inputs, shifts that use it
# ---------------------------------------------------------------------------------------
for n in range(0, 7):
    for v in range(1 << n):
        plain = [(v >> i) & 1 for i in range(n)]
        r = LinComb.from_bits(plain)
        check((r.value if isinstance(r, LinComb) else r) == v, "from_bits plain", v, n, r)
        mixed = [PrivVal(b) if i % 2 else b for (i, b) in enumerate(plain)]
        r = LinComb.from_bits(mixed)
        check((r.value if isinstance(r, LinComb) else r) == v, "from_bits mixed", v, n, r)
        r = LinComb.from_bits(iter([PrivValBool(b) for b in plain]))
        check((r.value if isinstance(r, LinComb) else r) == v, "from_bits iterator", v, n, r)
if hasattr(LinComb, "_halve"):
    # NEW: no bits give a LinComb zero, so over-long shifts can be opened
    r = LinComb.from_bits([])
    check(isinstance(r, LinComb) and r.value == 0 and r.lc.lc == {}, "from_bits([])", r)
    check((PrivVal(12345) >> 16).val() == 0, "shift by the full width")
for v in (0, 1, 5, 12345, 65535):
    for k in range(0, 16):
        check((PrivVal(v) >> k).val() == v >> k, "right shift", v, k)

# ---------------------------------------------------------------------------------------
# 5. packers on top of it: round trip for plain and secret inputs, rejection of plain
#    out-of-range values, over random schemas
# ---------------------------------------------------------------------------------------
rnd = random.Random(1616)
def schema(depth):
    k = rnd.randrange(4 if depth else 2)
    if k == 0: return PackBool()
    if k == 1: return PackIntMod(rnd.choice([2, 3, 4, 5, 7, 8, 9, 16, 17, 100, 1000]))
    if k == 2: return PackList([schema(depth - 1) for _ in range(rnd.randrange(1, 4))])
    return PackRepeat(schema(depth - 1), rnd.randrange(1, 4))

def secret(pk, val):
    if isinstance(pk, (PackBool, PackIntMod)): return PrivVal(val)
    if isinstance(pk, PackList): return [secret(p, v) for (p, v) in zip(pk.lst, val)]
    return [secret(pk.packer, v) for v in val]

def plainof(x):
    if isinstance(x, list): return [plainof(i) for i in x]
    if isinstance(x, LinCombBool): return x.lc.value
    if isinstance(x, LinComb): return x.value
    return x

for _ in range(300):
    pk = schema(3)
    val = pk.random()
    bits = pk.pack(val)
    check(len(bits) == pk.bitlen() and all(b in (0, 1) for b in bits), "plain pack shape", val)
    check(pk.unpack(bits, 0) == val, "plain round trip", val, pk.unpack(bits, 0))
    check(pk.unpack([1, 0, 1] + bits, 3) == val, "plain round trip at offset", val)
    sbits = pk.pack(secret(pk, val))
    check(len(sbits) == pk.bitlen(), "secret pack length", val)
    check(plainof(sbits) == bits, "secret pack gives the same bits", val)
    check(plainof(pk.unpack(sbits, 0)) == val, "secret round trip", val)
    check(plainof(pk.unpack(list(map(PrivVal, bits)), 0)) == val, "witness-bit round trip", val)

for mod in (2, 3, 5, 8, 9, 17, 1 << 20, (1 << 20) + 1):
    pk = PackIntMod(mod)
    for v in range(0, min(mod, 40)):
        check(pk.unpack(pk.pack(v), 0) == v, "PackIntMod round trip", mod, v)
        check(plainof(pk.unpack(pk.pack(PrivVal(v)), 0)) == v, "PackIntMod secret round trip", mod, v)
    for v in (-1, mod, mod + 1, -mod):
        try:
            pk.pack(v); check(False, "PackIntMod accepted out-of-range", mod, v)
        except ValueError:
            check(True)
    n = pk.bitlen()
    for v in ((1 << n), -1):
        ret, _ = record(lambda: pk.pack(PrivVal(v)))
        check(isinstance(ret, AssertionError), "secret value beyond the packer's width rejected", mod, v, ret)

print("checks:", nchecks, "failures:", len(failures))
sys.exit(1 if failures else 0)
