#!/usr/bin/env python
"""
Evidence program for property C19 ("the backend in use is the one the configuration names").

Run as   PYTHONPATH=<tree> /venv/bin/python P.check.py   from an empty directory.

Every scenario starts a fresh interpreter (backend selection happens once, at the import of
pysnark.runtime) with

  * a set of backend modules that cannot be loaded (an import hook raises ImportError for them;
    besides that, the optional third-party packages flatbuffers / libsnark / the qaptools
    executables are either absent, as on this machine, or provided as small working stand-ins),
  * a PYSNARK_BACKEND setting (unset, each known name, several unknown names),
  * a list of backend modules imported before the runtime, in a given order,
  * optionally an IPython-like environment (a builtin get_ipython).

and compares what the runtime did with a reference model that is computed independently:
"loadable" is established by importing each backend module alone in yet another fresh interpreter
under the same conditions; the expected backend then follows from the statement of the property
(pre-import > known name in the environment or loud failure > report unknown name > first
loadable backend in the documented order).

For the selected backend the program then checks that the reported name identifies the backend in
effect: runtime.backend is the module registered under runtime.backend_name, it offers the complete
interface, its field is the one documented for that name, fieldinverse() inverts in that field, a
small computation sends its constraints to exactly that module, all these constraints hold on the
recorded witness modulo the field, and for the file-writing backends (snarkjs, zkinterface family)
the files written by prove() are decoded: the field written into them is the field of the reported
backend and the constraints in the file hold on the witness in the file.

Exit status 0 iff the property held in all scenarios.
"""
import itertools
import json
import os
import random
import shutil
import stat
import subprocess
import sys
import tempfile
from concurrent.futures import ThreadPoolExecutor

BN128 = 21888242871839275222246405745257275088548364400416034343698204186575808495617
BLS381 = 52435875175126190479447740508185965837690552500527637822603658699938581184513
CURVE25519 = 7237005577332262213973186563042994240857116359379907606001950938285454250989

# the documented order (runtime.backends is compared with this list in every scenario)
BACKENDS = [
    ("libsnark",         "pysnark.libsnark.backend",                BN128),
    ("libsnarkgg",       "pysnark.libsnark.backendgg",              BN128),
    ("qaptools",         "pysnark.qaptools.backend",                BN128),
    ("snarkjs",          "pysnark.snarkjsbackend",                  BN128),
    ("zkinterface",      "pysnark.zkinterface.backend",             BN128),
    ("zkifbellman",      "pysnark.zkinterface.backendbellman",      BLS381),
    ("zkifbulletproofs", "pysnark.zkinterface.backendbulletproofs", CURVE25519),
    ("nobackend",        "pysnark.nobackend",                       10000),
]
NAMES = [b[0] for b in BACKENDS]
MODOF = {b[0]: b[1] for b in BACKENDS}
FIELDOF = {b[0]: b[2] for b in BACKENDS}
INTERFACE = ["privval", "pubval", "zero", "one", "fieldinverse", "get_modulus", "add_constraint", "prove"]

# ------------------------------------------------------------------------------------------------
# stand-ins for the third-party packages that are not installed here

FLATBUFFERS_INIT = r'''
# Symbolic stand-in for the flatbuffers package: instead of the binary encoding, Builder.Output()
# returns one line of JSON describing the tree that was built, so that the files written by
# pysnark.zkinterface.backend can be decoded again without the real package.
import json
from . import compat, number_types

class Builder:
    def __init__(self, size=0):
        self.objs = []; self.vec = None; self.obj = None; self.root = None
    def _new(self, kind, val):
        self.objs.append((kind, val)); return len(self.objs)
    def StartVector(self, elemsize, n, align): self.vec = []; return 0
    def PrependByte(self, x): self.vec.insert(0, int(x))
    def PrependUint64(self, x): self.vec.insert(0, int(x))
    def PrependUOffsetTRelative(self, h): self.vec.insert(0, {"ref": int(h)})
    def EndVector(self, *args): h = self._new("vec", self.vec); self.vec = None; return h
    def StartObject(self, n): self.obj = {}
    def PrependUOffsetTRelativeSlot(self, slot, h, default): self.obj[slot] = {"ref": int(h)}
    def PrependUint64Slot(self, slot, x, default): self.obj[slot] = int(x)
    def PrependUint8Slot(self, slot, x, default): self.obj[slot] = int(x)
    def EndObject(self): h = self._new("obj", self.obj); self.obj = None; return h
    def FinishSizePrefixed(self, root): self.root = root
    def _resolve(self, h):
        kind, val = self.objs[h-1]
        r = lambda x: self._resolve(x["ref"]) if isinstance(x, dict) else x
        if kind == "vec": return [r(x) for x in val]
        return {str(k): r(v) for (k, v) in val.items()}
    def Output(self):
        return (json.dumps(self._resolve(self.root)) + "\n").encode()
'''
FLATBUFFERS_COMPAT = "def import_numpy(): return None\n"
FLATBUFFERS_NUMBER_TYPES = "class UOffsetTFlags:\n    py_type = int\nclass Uint8Flags:\n    py_type = int\n"

LIBSNARK_ALT_BN128 = r'''
# Functional stand-in for the libsnark python bindings (only what pysnark.libsnark.backend uses
# while constraints are being collected).
MOD = %d
class PbVariable:
    def __init__(self): self.ix = None
    def allocate(self, pb): pb.vals.append(0); self.ix = len(pb.vals)
class LinearCombination:
    def __init__(self, v=None):
        if v is None: self.lc = {}
        elif isinstance(v, int): self.lc = {0: v}
        elif isinstance(v, PbVariable): self.lc = {v.ix: 1}
        else: self.lc = dict(v)
    def __add__(self, o):
        lc = dict(self.lc)
        for (k, v) in o.lc.items(): lc[k] = lc.get(k, 0) + v
        return LinearCombination(lc)
    def __neg__(self): return self * -1
    def __sub__(self, o): return self + (-o)
    def __mul__(self, c): return LinearCombination({k: v * c for (k, v) in self.lc.items()})
class R1csConstraint:
    def __init__(self, a, b, c): self.abc = (a, b, c)
class ProtoboardPub:
    def __init__(self): self.vals = []; self.public = []; self.constraints = []
    def setval(self, pbv, val): self.vals[pbv.ix - 1] = val
    def setpublic(self, pbv): self.public.append(pbv.ix)
    def add_r1cs_constraint(self, c): self.constraints.append(c)
    def num_constraints(self): return len(self.constraints)
def fieldinverse(v): return pow(v, -1, MOD)
def get_modulus(): return MOD
''' % BN128

# ------------------------------------------------------------------------------------------------
# the program run in the fresh interpreter

CHILD = r'''
import builtins, contextlib, importlib, io, json, os, sys
cfg = json.load(open(sys.argv[1]))
res = {}
def done(code=0):
    json.dump(res, open(sys.argv[2], "w")); sys.stdout.flush(); os._exit(code)

class Block:
    """ makes the given modules unloadable """
    def find_spec(self, name, path=None, target=None):
        if name in cfg["blocked"]: raise ImportError("blocked for the test: " + name)
        return None
sys.meta_path.insert(0, Block())

if "probe" in cfg:                                   # reference: can this module be loaded at all?
    try:
        with contextlib.redirect_stdout(io.StringIO()), contextlib.redirect_stderr(io.StringIO()):
            importlib.import_module(cfg["probe"])
        res["loadable"] = True
    except Exception as e:
        res["loadable"] = False; res["why"] = repr(e)
    done()

if cfg.get("ipython"): builtins.get_ipython = lambda: None
for m in cfg["preimport"]: importlib.import_module(m)
res["loaded_before"] = [m for m in cfg["allmods"] if m in sys.modules]

out = io.StringIO()
try:
    with contextlib.redirect_stdout(out):
        import pysnark.runtime as rt
except BaseException as e:
    res["stdout"] = out.getvalue(); res["error"] = type(e).__name__ + ": " + str(e)
    done()
rt.autoprove = False
res["stdout"] = out.getvalue()
res["backends"] = [list(b) for b in rt.backends]
res["name"] = rt.backend_name
be = rt.backend
res["module"] = getattr(be, "__name__", None)
res["is_registered_module"] = be is sys.modules.get(res["module"])
res["missing"] = [f for f in cfg["interface"] if not callable(getattr(be, f, None))]
if res["missing"]: done()
p = be.get_modulus()
res["modulus"] = p
res["inverse_ok"] = all((be.fieldinverse(v) * v - 1) % p == 0 for v in (1, 2, 3, 7, 12345, p - 1, p + 5, -4))

# a small computation: multiplications, a public input, division by a constant (coefficient
# fieldinverse(3)), a nonzero test (witness fieldinverse(value)), negative values
calls = []
orig = be.add_constraint
def spy(v, w, y): calls.append(1); return orig(v, w, y)
be.add_constraint = spy
with contextlib.redirect_stdout(io.StringIO()):
    x = rt.PrivVal(5); pu = rt.PubVal(-3)
    y = x * x
    z = y * pu + 7
    w = (z * 6) / 3
    (w + 136).assert_zero()
    (x - 9).assert_nonzero()
    (w * y).assert_eq(-3400)
be.add_constraint = orig
res["values"] = [y.value, z.value, w.value]
res["num_constraints"] = rt.num_constraints
res["calls"] = len(calls)

def lcval(lc, wire):
    return sum(c * wire(k) for (k, c) in lc.items())
bad = None; n = None
if hasattr(be, "constraints") and hasattr(be, "pubvals") and hasattr(be, "privvals"):
    wire = lambda k: 1 if k == 0 else (be.pubvals[k - 1] if k > 0 else be.privvals[-k - 1])
    n = len(be.constraints)
    bad = [i for (i, (a, b, c)) in enumerate(be.constraints) if (lcval(a.lc, wire) * lcval(b.lc, wire) - lcval(c.lc, wire)) % p != 0]
elif hasattr(be, "pb") and hasattr(be.pb, "vals"):            # libsnark stand-in
    wire = lambda k: 1 if k == 0 else be.pb.vals[k - 1]
    n = len(be.pb.constraints)
    bad = [i for (i, cc) in enumerate(be.pb.constraints) if (lcval(cc.abc[0].lc, wire) * lcval(cc.abc[1].lc, wire) - lcval(cc.abc[2].lc, wire)) % p != 0]
res["recorded"] = n; res["violated"] = bad

if cfg.get("prove") and res["name"] in cfg["prove"]:
    with contextlib.redirect_stdout(io.StringIO()), contextlib.redirect_stderr(io.StringIO()):
        be.prove()
    res["files"] = sorted(os.listdir("."))
done()
'''

# ------------------------------------------------------------------------------------------------

class Env:
    def __init__(self, root):
        self.root = root
        self.tree = os.environ.get("PYTHONPATH", "")
        fb = os.path.join(root, "stub_fb", "flatbuffers"); os.makedirs(fb)
        open(os.path.join(fb, "__init__.py"), "w").write(FLATBUFFERS_INIT)
        open(os.path.join(fb, "compat.py"), "w").write(FLATBUFFERS_COMPAT)
        open(os.path.join(fb, "number_types.py"), "w").write(FLATBUFFERS_NUMBER_TYPES)
        ls = os.path.join(root, "stub_ls", "libsnark"); os.makedirs(ls)
        open(os.path.join(ls, "__init__.py"), "w").write("")
        open(os.path.join(ls, "alt_bn128.py"), "w").write(LIBSNARK_ALT_BN128)
        qt = os.path.join(root, "stub_qt"); os.makedirs(qt)
        exe = os.path.join(qt, "qapgen.exe" if os.name == "nt" else "qapgen")
        open(exe, "w").write("#!/bin/sh\nexit 0\n"); os.chmod(exe, os.stat(exe).st_mode | stat.S_IEXEC)
        self.child = os.path.join(root, "child.py"); open(self.child, "w").write(CHILD)
        self.counter = itertools.count()

    def run(self, stubs, cfg, pysnark_backend=None):
        d = os.path.join(self.root, "run%d" % next(self.counter)); os.makedirs(d)
        env = {k: v for (k, v) in os.environ.items() if k not in ("PYSNARK_BACKEND", "QAPTOOLS_BIN", "PYSNARK_KEYDIR", "PYSNARK_PROOFDIR")}
        path = [self.tree] if self.tree else []
        if stubs == "all":
            path += [os.path.join(self.root, "stub_fb"), os.path.join(self.root, "stub_ls")]
            env["QAPTOOLS_BIN"] = os.path.join(self.root, "stub_qt")
        env["PYTHONPATH"] = os.pathsep.join(path)
        if pysnark_backend is not None: env["PYSNARK_BACKEND"] = pysnark_backend
        cfg = dict(cfg); cfg.setdefault("blocked", []); cfg.setdefault("preimport", [])
        cfg["interface"] = INTERFACE; cfg["allmods"] = [b[1] for b in BACKENDS]
        json.dump(cfg, open(os.path.join(d, "cfg.json"), "w"))
        pr = subprocess.run([sys.executable, self.child, "cfg.json", "res.json"], cwd=d, env=env,
                            stdout=subprocess.PIPE, stderr=subprocess.PIPE, universal_newlines=True)
        try:
            res = json.load(open(os.path.join(d, "res.json")))
        except Exception:
            res = {"crash": pr.stderr[-2000:]}
        res["dir"] = d
        return res

def le(bs): return int.from_bytes(bytes(bs), "little")

def decode_zkif(path):
    """ decodes a file written through the symbolic flatbuffers stand-in """
    msgs = [json.loads(l) for l in open(path) if l.strip()]
    out = {}
    for m in msgs:
        typ, body = m["0"], m["1"]
        if typ == 1:   # CircuitHeader
            out["fieldmax"] = le(body["2"]); out["free"] = body["1"]
            ids = body["0"]["0"]; vals = body["0"]["1"]; bl = len(vals) // len(ids) if ids else 0
            out["bl_header"] = len(body["2"])
            out["pub"] = {i: le(vals[j*bl:(j+1)*bl]) for (j, i) in enumerate(ids)}
        elif typ == 3: # Witness
            ids = body["0"]["0"]; vals = body["0"]["1"]; bl = len(vals) // len(ids) if ids else 0
            out["priv"] = {i: le(vals[j*bl:(j+1)*bl]) for (j, i) in enumerate(ids)}
        elif typ == 2: # ConstraintSystem
            cs = []
            for c in body["0"]:
                row = []
                for s in ("0", "1", "2"):
                    ids = c[s]["0"]; vals = c[s]["1"]; bl = len(vals) // len(ids) if ids else 0
                    row.append([(i, le(vals[j*bl:(j+1)*bl])) for (j, i) in enumerate(ids)])
                cs.append(row)
            out["constraints"] = cs
    return out

def decode_snarkjs(d):
    w = open(os.path.join(d, "witness.wtns"), "rb").read()
    assert w[:4] == b"wtns"
    fs = le(w[24:28]); p = le(w[28:28+fs]); n = le(w[28+fs:32+fs]); off = 32 + fs + 12
    wit = [le(w[off+i*fs: off+(i+1)*fs]) for i in range(n)]
    c = open(os.path.join(d, "circuit.r1cs"), "rb").read()
    assert c[:4] == b"r1cs"
    fs2 = le(c[24:28]); p2 = le(c[28:28+fs2]); o = 28 + fs2
    nvars = le(c[o:o+4]); ncons = le(c[o+24:o+28]); o += 28 + 12
    cs = []
    for _ in range(ncons):
        row = []
        for _ in range(3):
            k = le(c[o:o+4]); o += 4; lc = []
            for _ in range(k):
                lc.append((le(c[o:o+4]), le(c[o+4:o+4+fs2]))); o += 4 + fs2
            row.append(lc)
        cs.append(row)
    return p, p2, wit, cs, nvars

def file_checks(res, name, fails):
    d = res["dir"]; field = FIELDOF[name]
    if name == "snarkjs":
        p, p2, wit, cs, nvars = decode_snarkjs(d)
        if p != field or p2 != field: fails.append("field written by prove() is not the field of %s" % name)
        if nvars != len(wit): fails.append("snarkjs files disagree on the number of wires")
        bad = [i for (i, row) in enumerate(cs) if (sum(c*wit[k] for (k, c) in row[0]) * sum(c*wit[k] for (k, c) in row[1]) - sum(c*wit[k] for (k, c) in row[2])) % field != 0]
        if len(cs) != res["recorded"] or bad: fails.append("constraints in circuit.r1cs do not hold on witness.wtns in the field of %s: %s" % (name, bad))
    else:
        z = decode_zkif(os.path.join(d, "computation.zkif")); z2 = decode_zkif(os.path.join(d, "circuit.zkif"))
        if z["fieldmax"] + 1 != field or z2["fieldmax"] + 1 != field:
            fails.append("field_maximum written by prove() (%d) is not that of the field of %s" % (z["fieldmax"], name))
        wires = {0: 1}; wires.update(z["pub"]); wires.update(z["priv"])
        bad = [i for (i, row) in enumerate(z["constraints"]) if (sum(c*wires[k] for (k, c) in row[0]) * sum(c*wires[k] for (k, c) in row[1]) - sum(c*wires[k] for (k, c) in row[2])) % field != 0]
        if len(z["constraints"]) != res["recorded"] or bad:
            fails.append("constraints in computation.zkif do not hold on its witness in the field of %s: %s" % (name, bad))
        if z2["constraints"] != z["constraints"]: fails.append("circuit.zkif and computation.zkif differ")

# ------------------------------------------------------------------------------------------------

def main():
    root = tempfile.mkdtemp(prefix="r6-C19-check-")
    try:
        return run_all(Env(root))
    finally:
        shutil.rmtree(root, ignore_errors=True)

def run_all(E):
    pool = ThreadPoolExecutor(max_workers=8)
    rnd = random.Random(19)
    mods = [b[1] for b in BACKENDS]

    # ---- scenarios: (stubs, blocked modules, PYSNARK_BACKEND, preimports, ipython)
    scen = []
    def add(stubs, blocked=(), envv=None, pre=(), ipy=False):
        s = (stubs, tuple(sorted(blocked)), envv, tuple(pre), ipy)
        if s not in scen: scen.append(s)
    UNKNOWN = ["", "foo", "SNARKJS", "snarkjs ", "libsnark,snarkjs", "pysnark.nobackend", "zkif"]
    for stubs in ("none", "all"):
        # auto-detection: every prefix of the order unloadable, single holes, random subsets
        for k in range(len(mods) + 1): add(stubs, mods[:k])
        for m in mods: add(stubs, [m]); add(stubs, [x for x in mods[:4]] + [m])
        for _ in range(30): add(stubs, [m for m in mods if rnd.random() < 0.5])
        for _ in range(15): add(stubs, [m for m in mods if rnd.random() < 0.8])
        # unknown names: reported, then auto-detection
        for u in UNKNOWN:
            add(stubs, [], u); add(stubs, mods[:4], u); add(stubs, [m for m in mods if rnd.random() < 0.6], u)
        # known names: that backend or a loud failure
        for (n, m, _) in BACKENDS:
            add(stubs, [], n); add(stubs, [m], n); add(stubs, mods[:4], n); add(stubs, [mods[4]], n); add(stubs, [mods[0]], n)
            add(stubs, [x for x in mods if x != m and rnd.random() < 0.5], n)
        # IPython-like environment
        add(stubs, [], None, (), True); add(stubs, [mods[7]], None, (), True); add(stubs, [], "snarkjs", (), True)
        add(stubs, [], "bar", (), True); add(stubs, mods[:4], None, (), True)
    # pre-imported (non-derived) backend modules, all orders, with and without environment setting
    base = ["pysnark.nobackend", "pysnark.snarkjsbackend", "pysnark.zkinterface.backend", "pysnark.libsnark.backend", "pysnark.qaptools.backend"]
    for r in (1, 2):
        for pre in itertools.permutations(base, r):
            for envv in (None, "nobackend", "snarkjs", "zkifbellman", "foo"):
                if r == 2 and envv in ("zkifbellman",) : continue
                add("all", [], envv, pre)
    add("none", [], None, ["pysnark.nobackend"]); add("none", [], "snarkjs", ["pysnark.nobackend"])
    add("none", [], "libsnark", ["pysnark.snarkjsbackend"]); add("all", mods[:4], "qaptools", ["pysnark.nobackend"], True)

    # ---- reference: which modules can be loaded under (stubs, blocked)
    confs = sorted(set((s[0], s[1]) for s in scen))
    probes = {}
    def probe(c, m):
        r = E.run(c[0], {"probe": m, "blocked": list(c[1])})
        if "loadable" not in r: raise RuntimeError("probe crashed: %r" % r)
        return r["loadable"]
    futs = {(c, m): pool.submit(probe, c, m) for c in confs for m in mods}
    for (k, f) in futs.items(): probes[k] = f.result()

    def runscen(s):
        (stubs, blocked, envv, pre, ipy) = s
        return E.run(stubs, {"blocked": list(blocked), "preimport": list(pre), "ipython": ipy,
                             "prove": ["snarkjs"] + (["zkinterface", "zkifbellman", "zkifbulletproofs"] if stubs == "all" else [])}, envv)
    results = list(pool.map(runscen, scen))

    nfail = 0; stats = {}; selected = {}; decoded = 0; loud = 0
    for (s, res) in zip(scen, results):
        (stubs, blocked, envv, pre, ipy) = s
        fails = []
        loadable = {n: probes[((stubs, blocked), MODOF[n])] for n in NAMES}
        if "crash" in res:
            fails.append("child crashed: " + res["crash"])
        else:
            out = res.get("stdout", "")
            lines = out.splitlines()
            reported = [l.split("*** Error loading backend ")[1].split(":")[0] for l in lines if l.startswith("*** Error loading backend ")]
            unknown_msg = [i for (i, l) in enumerate(lines) if "unknown backend in environment variables: " in l]
            first_err = min([i for (i, l) in enumerate(lines) if l.startswith("*** Error loading backend ")], default=None)

            # ---- expected outcome according to the statement of the property
            how = None; expect = None       # expect: set of acceptable names, or "error"
            before = [n for n in NAMES if MODOF[n] in res.get("loaded_before", [])]
            if pre:
                how = "preimport"; expect = set(before)
                if not set(pre) <= set(MODOF[n] for n in before): fails.append("test setup: preimport failed")
            elif envv in NAMES:
                how = "named"; expect = {envv} if loadable[envv] else "error"
            else:
                if envv is not None:
                    if not unknown_msg or envv not in lines[unknown_msg[0]]: fails.append("unknown backend name %r was not reported" % envv)
                    elif first_err is not None and first_err < unknown_msg[0]: fails.append("unknown name reported only after falling back")
                if ipy and loadable["nobackend"]:
                    how = "ipython"; expect = {"nobackend"}
                else:
                    how = "auto"
                    first = [n for n in NAMES if loadable[n]][:1]
                    expect = set(first) if first else "error"
            stats[how] = stats.get(how, 0) + 1
            if envv is None or envv in NAMES:
                if unknown_msg: fails.append("spurious 'unknown backend' message")

            if "error" in res: loud += 1
            else: selected[res["name"]] = selected.get(res["name"], 0) + 1
            if "files" in res: decoded += 1
            if expect == "error":
                if "error" not in res: fails.append("expected a loud failure, but backend %r was selected" % res.get("name"))
            elif "error" in res:
                fails.append("selection failed (%s) although %s can be loaded" % (res["error"], sorted(expect)))
            else:
                name = res["name"]
                if res["backends"] != [[b[0], b[1]] for b in BACKENDS]: fails.append("list of backends / documented order changed")
                if name not in expect: fails.append("backend %r in use, expected %s (%s)" % (name, sorted(expect), how))
                if name not in NAMES: fails.append("reported name %r is no known backend" % name)
                else:
                    if res["module"] != MODOF[name] or not res["is_registered_module"]:
                        fails.append("reported name %r, but constraints go to module %r" % (name, res["module"]))
                    if res["missing"]: fails.append("backend %s lacks %s" % (name, res["missing"]))
                    else:
                        if res["modulus"] != FIELDOF[name]: fails.append("reported name %r, but the field in effect is %d" % (name, res["modulus"]))
                        if name != "nobackend" and not res["inverse_ok"]: fails.append("fieldinverse of %s does not invert in its field" % name)
                        if res["values"] != [25, -68, -136]: fails.append("wrong values %s" % res["values"])
                        if res["calls"] != res["num_constraints"] or res["calls"] < 4:
                            fails.append("constraints did not all reach the selected module (%d of %d)" % (res["calls"], res["num_constraints"]))
                        if res["recorded"] is not None:
                            if res["recorded"] != res["num_constraints"]: fails.append("module recorded %s of %s constraints" % (res["recorded"], res["num_constraints"]))
                            if res["violated"]: fails.append("constraints %s do not hold on the witness in the field of %s" % (res["violated"], name))
                        elif name not in ("nobackend", "qaptools"): fails.append("cannot inspect the constraints of " + name)
                        if "files" in res:
                            try: file_checks(res, name, fails)
                            except Exception as e: fails.append("cannot decode the files written by prove(): %r" % e)
                if how == "auto" and name in NAMES:
                    pos = NAMES.index(name)
                    for m in reported:
                        n = [b[0] for b in BACKENDS if b[1] == m]
                        if not n or loadable[n[0]] or NAMES.index(n[0]) >= pos: fails.append("misleading load error reported for " + m)
                    for n in NAMES[:pos]:
                        derived = n in ("libsnarkgg", "zkifbellman", "zkifbulletproofs")
                        if not derived and MODOF[n] not in reported: fails.append("load failure of %s was not reported" % n)
                if how in ("named", "preimport", "ipython") and reported: fails.append("auto-detection ran although a backend was configured")
        if fails:
            nfail += 1
            print("FAIL stubs=%s unloadable=%s PYSNARK_BACKEND=%r preimport=%s ipython=%s" % (stubs, [m.split("pysnark.")[1] for m in blocked], envv, list(pre), ipy))
            for f in fails: print("     " + f)

    print("scenarios: %d  (%s);  reference probes: %d;  failing scenarios: %d" % (len(scen), ", ".join("%s=%d" % kv for kv in sorted(stats.items())), len(probes), nfail))
    print("backends in use: %s;  loud failures: %d;  runs whose written files were decoded: %d" % (", ".join("%s=%d" % kv for kv in sorted(selected.items())), loud, decoded))
    if nfail:
        print("PROPERTY C19 VIOLATED"); return 1
    print("property C19 held in all scenarios"); return 0

if __name__ == "__main__":
    sys.exit(main())
