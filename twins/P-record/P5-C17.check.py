# Check of property C17 (a @snark function exposes exactly its arguments and results as public values)
# on a tree where argument/result conversion is done by flatten()/convert_each_in().
#
# The snarkjs backend is used because it keeps the trace (public values, private values, constraints)
# in memory; autoprove is switched off so nothing is written.
#
# For every case (argument structure x function body) three things are done:
#  (A) MODEL: the effect of the wrapped call on the trace is compared to an independent statement of the
#      property: the public values appended are exactly [int leaves in traversal order] + [scaled float
#      leaves in traversal order] (inputs), then the LinComb / LinCombFxp / LinCombBool results, each
#      tied to its computed wire by a constraint 0*0 = wire - pub; the body sees wires at the right places;
#      the caller gets the plain values of the undecorated function.
#  (B) DIFFERENTIAL: the same call is made through a verbatim copy of the unchanged decorator (three
#      recursive passes) and the two trace deltas are compared after renumbering wires.
#  (C) WITNESS: the output constraints hold for the recorded witness and fail when an output is changed.
# All cases run in one process, so the whole run is one long sequence of wrapped calls in one trace.

import os, sys, itertools, random, collections, warnings
os.environ["PYSNARK_BACKEND"] = "snarkjs"
warnings.simplefilter("ignore")

import pysnark.runtime as rt
from pysnark.runtime import LinComb, PubVal, PrivVal, ConstVal, snark
from pysnark.fixedpoint import LinCombFxp, PubValFxp, PrivValFxp
from pysnark.boolean import LinCombBool, PubValBool, PrivValBool
import pysnark.fixedpoint
rt.autoprove = False
be = rt.backend
assert rt.backend_name == "snarkjs", rt.backend_name
P = be.get_modulus()
RES = 1 << pysnark.fixedpoint.resolution

failures = []
ncases = 0
def fail(msg):
    failures.append(msg)
    if len(failures) <= 20: print("FAIL:", msg)

# ---------------------------------------------------------------- reference: the unchanged decorator
def ref_for_each_in(converter, struct):
    if isinstance(struct, list):
        return list(map(lambda x: ref_for_each_in(converter, x), struct))
    elif isinstance(struct, tuple):
        return tuple(map(lambda x: ref_for_each_in(converter, x), struct))
    elif isinstance(struct, dict):
        return {k: ref_for_each_in(converter, struct[k]) for k in struct}
    else:
        return converter(struct)

def ref_snark(fn):
    def snark__(*args, **kwargs):
        if kwargs: raise ValueError("@snark-decorated functions cannot have keyword arguments")
        argscopy = ref_for_each_in(lambda x: PubVal(x) if isinstance(x,int) else x, args)
        argscopy = ref_for_each_in(lambda x: PubValFxp(x) if isinstance(x,float) else x, argscopy)
        argscopy = ref_for_each_in(lambda x: PubValBool(x) if isinstance(x,bool) else x, argscopy)
        ret = fn(*argscopy, **kwargs)
        retcopy = ref_for_each_in(lambda x: x.val() if isinstance(x,LinComb) else x, ret)
        retcopy = ref_for_each_in(lambda x: x.val() if isinstance(x,LinCombFxp) else x, retcopy)
        retcopy = ref_for_each_in(lambda x: x.val() if isinstance(x,LinCombBool) else x, retcopy)
        return retcopy
    return snark__

# ---------------------------------------------------------------- trace helpers
def mark(): return (len(be.pubvals), len(be.privvals), len(be.constraints))

def clean(lc): return {k: v % P for (k, v) in lc.lc.items() if v % P != 0}

def renum(lc, m):
    """ wires allocated after mark m are numbered relative to m, earlier ones keep their number """
    out = {}
    for (k, v) in clean(lc).items():
        if k > m[0]: out[("pub+", k - m[0])] = v
        elif k < -m[1]: out[("priv+", -k - m[1])] = v
        else: out[("old", k)] = v
    return out

def delta(m):
    return (list(be.pubvals[m[0]:]), list(be.privvals[m[1]:]),
            [tuple(sorted(renum(x, m).items(), key=repr) for x in c) for c in be.constraints[m[2]:]])

def evallc(lc, pub, priv):
    s = 0
    for (k, v) in lc.lc.items():
        s += v * (1 if k == 0 else pub[k-1] if k > 0 else priv[-k-1])
    return s % P

def leaves_of(struct, out=None):
    """ own traversal (explicit, independent of the library): lists, tuples, dicts (insertion order) """
    if out is None: out = []
    if isinstance(struct, (list, tuple)):
        for x in struct: leaves_of(x, out)
    elif isinstance(struct, dict):
        for k in struct: leaves_of(struct[k], out)
    else:
        out.append(struct)
    return out

def same_shape(a, b, strict_types=True):
    if isinstance(a, (list, tuple, dict)):
        if strict_types and type(a) is not type(b): return False
        if isinstance(a, dict):
            return isinstance(b, dict) and list(a) == list(b) and all(same_shape(a[k], b[k]) for k in a)
        return isinstance(b, (list, tuple)) and len(a) == len(b) and all(same_shape(x, y) for (x, y) in zip(a, b))
    return not isinstance(b, (list, tuple, dict))

def plain(x):
    """ the value a secret input stands for (for running the undecorated function) """
    if isinstance(x, LinComb): return x.value
    if isinstance(x, LinCombFxp): return x.lc.value / RES
    if isinstance(x, LinCombBool): return PlainBit(x.lc.value)
    return x

class PlainBit:
    """ plain stand-in for a secret LinCombBool argument: equal to its 0/1 value, but (like a LinCombBool)
        not something the bodies below do integer arithmetic with """
    def __init__(self, v): self.v = v
    def __eq__(self, other): return self.v == other
    def __repr__(self): return "bit(%d)" % self.v

def map_leaves(f, struct):
    if isinstance(struct, list): return [map_leaves(f, x) for x in struct]
    if isinstance(struct, tuple):
        if hasattr(struct, "_fields"): return type(struct)._make([map_leaves(f, x) for x in struct])
        return tuple([map_leaves(f, x) for x in struct])
    if isinstance(struct, dict): return {k: map_leaves(f, struct[k]) for k in struct}
    return f(struct)

# ---------------------------------------------------------------- function bodies (work on wires and on plain values)
def isnum(x): return isinstance(x, (LinComb, int)) and not isinstance(x, str)
def isfx(x): return isinstance(x, (LinCombFxp, float))

def b_ident(*a): return a
def b_first(*a): return a[0] if a else None
def b_none(*a): return None
def b_revflat(*a): return list(reversed(leaves_of(a)))
def b_arith(*a):
    l = leaves_of(a)
    ints = [x for x in l if isnum(x)]
    fxs = [x for x in l if isfx(x)]
    out = {"const": 5, "str": "s", "cf": 0.5}
    if ints:
        out["sum"] = sum(ints[1:], ints[0]) * 2 + 1
        out["prod"] = [ints[0] * ints[-1], (ints[0] - 1,)]      # a multiplication constraint when traced
    if fxs:
        out["fsum"] = sum(fxs[1:], fxs[0]) + 1
        if ints: out["mixed"] = fxs[0] + ints[0]
    return out
def b_dup(*a):
    l = [x for x in leaves_of(a) if isnum(x) or isfx(x)]
    if not l: return []
    return (l[0], l[0], [l[0], {"again": l[0]}], l[-1])
def b_bool(*a):
    l = [x for x in leaves_of(a) if isnum(x) and plain(x) in (0, 1)]
    # a LinCombBool result when traced, the same 0/1 when plain
    bs = [LinCombBool(x) if isinstance(x, LinComb) else x for x in l]
    fxs = [x for x in leaves_of(a) if isfx(x)]
    nums = [x for x in leaves_of(a) if isnum(x)]
    # order of kinds in the result deliberately mixed: bool, fxp, int, bool
    return [bs[:1], fxs[:1], nums[:1], bs[1:2], (fxs[-1:], nums[-1:])]
def b_secret(*a):
    # results that are secret wires created inside the body
    s = PrivVal(11) if any(isinstance(x, (LinComb, LinCombFxp)) for x in leaves_of(a)) else 11
    nums = [x for x in leaves_of(a) if isnum(x)]
    return {"s": s, "t": (s * nums[0] if nums else s), "c": (ConstVal(4) if not isinstance(s, int) else 4)}
bodies = [b_ident, b_first, b_none, b_revflat, b_arith, b_dup, b_bool, b_secret]

# ---------------------------------------------------------------- one case
Point = collections.namedtuple("Point", ["x", "y"])

def has_named(struct):
    if isinstance(struct, (list, tuple)):
        return hasattr(struct, "_fields") or any(has_named(x) for x in struct)
    if isinstance(struct, dict): return any(has_named(struct[k]) for k in struct)
    return False

def run_case(args, body, label, guardcond=None):
    global ncases
    ncases += 1
    seen = {}
    def spy(*a):
        seen["args"] = a
        seen["m_body"] = mark()
        r = body(*a)
        seen["ret"] = r
        seen["m_ret"] = mark()
        return r
    def call(wrapped):
        if guardcond is None: return wrapped(*args)
        return rt.guarded(guardcond)(wrapped)(*args)

    # ---- the changed decorator
    m0 = mark()
    got = call(snark(spy))
    m1 = mark()
    d_new = delta(m0)
    a_new, ret_new = seen["args"], seen["ret"]
    mb, mr = seen["m_body"], seen["m_ret"]

    # ---- (B) differential against the unchanged decorator
    if not has_named((args, ret_new)):
        m0r = mark()
        got_ref = call(ref_snark(spy))
        d_ref = delta(m0r)
        if d_new != d_ref: fail("%s: trace differs from the unchanged decorator\n  new %r\n  ref %r" % (label, d_new, d_ref))
        if repr(got) != repr(got_ref) or not same_shape(got, got_ref): fail("%s: returned %r, unchanged decorator %r" % (label, got, got_ref))
    if guardcond is not None: return            # the model below is for unguarded calls

    # ---- (A) model
    lv = leaves_of(args)
    ints = [x for x in lv if isinstance(x, int)]            # bool is an int: PubVal
    flts = [x for x in lv if isinstance(x, float)]
    exp_in = [x for x in ints] + [int(x * RES) for x in flts]
    n_in = len(exp_in)
    if be.pubvals[m0[0]:mb[0]] != exp_in: fail("%s: public inputs %r, expected %r" % (label, be.pubvals[m0[0]:mb[0]], exp_in))
    if mb[1] != m0[1] or mb[2] != m0[2]: fail("%s: converting arguments made private values or constraints" % label)
    # the body sees: same shape; wires at the numeric places; everything else untouched
    if not same_shape(args, a_new): fail("%s: body saw shape %r for %r" % (label, a_new, args))
    ki, kf = 0, 0
    for (x, y) in zip(lv, leaves_of(a_new)):
        if isinstance(x, int):
            ki += 1
            if not (type(y) is LinComb and y.value == x and clean(y.lc) == {m0[0] + ki: 1}): fail("%s: int leaf %r got %r / %r" % (label, x, y, getattr(getattr(y, "lc", None), "lc", None)))
        elif isinstance(x, float):
            kf += 1
            if not (type(y) is LinCombFxp and y.lc.value == int(x * RES) and clean(y.lc.lc) == {m0[0] + len(ints) + kf: 1}): fail("%s: float leaf %r got %r" % (label, x, y))
        elif x is not y: fail("%s: leaf %r replaced by %r" % (label, x, y))
    # outputs
    rl = leaves_of(ret_new)
    outs = [x for x in rl if isinstance(x, LinComb)] + [x.lc for x in rl if isinstance(x, LinCombFxp)] + [x.lc for x in rl if isinstance(x, LinCombBool)]
    n_out = len(outs)
    if m1[0] - mr[0] != n_out or m1[0] - m0[0] != n_in + n_out + (mr[0] - mb[0]): fail("%s: %d public values after the body, expected %d" % (label, m1[0] - mr[0], n_out))
    if mr[0] != mb[0]: fail("%s: body made public values?!" % label)    # none of our bodies do
    if m1[1] != mr[1]: fail("%s: exposing results made private values" % label)
    if m1[2] - mr[2] != n_out: fail("%s: %d constraints for %d results" % (label, m1[2] - mr[2], n_out))
    else:
        for (j, w) in enumerate(outs):
            k = mr[0] + j + 1
            if be.pubvals[k-1] != w.value: fail("%s: output %d has value %r, wire has %r" % (label, j, be.pubvals[k-1], w.value))
            (cv, cw, cy) = be.constraints[mr[2] + j]
            want = dict(clean(w.lc)); want[k] = (want.get(k, 0) - 1) % P
            want = {a: b for (a, b) in want.items() if b}
            if clean(cv) or clean(cw) or clean(cy) != want: fail("%s: output %d is not tied to its wire: %r %r %r" % (label, j, cv.lc, cw.lc, cy.lc))
            # (C) witness: holds; breaks when the public output is changed
            if evallc(cy, be.pubvals, be.privvals) != 0: fail("%s: output constraint %d does not hold" % (label, j))
            bad = list(be.pubvals); bad[k-1] += 1
            if evallc(cy, bad, be.privvals) == 0: fail("%s: output %d can be changed freely" % (label, j))
    # returned plain values = what the undecorated function returns
    exp_ret = body(*map_leaves(plain, args))
    exp_ret = map_leaves(plain, exp_ret)            # (b_secret returns wires only when traced; plain run has none)
    if not same_shape(ret_new, got) or not same_shape(exp_ret, got, strict_types=False): fail("%s: returned shape %r, function gives %r" % (label, got, exp_ret))
    gl, el = leaves_of(got), leaves_of(exp_ret)
    if len(gl) != len(el) or any(not (g == e and not isinstance(g, (LinComb, LinCombFxp, LinCombBool))) for (g, e) in zip(gl, el)): fail("%s: returned %r, the function itself gives %r" % (label, got, exp_ret))
    for (r, g) in zip(rl, gl):
        if isinstance(r, LinCombFxp) and type(g) is not float: fail("%s: fixed-point result returned as %r" % (label, g))
        if isinstance(r, (LinComb, LinCombBool)) and not isinstance(g, int): fail("%s: integer result returned as %r" % (label, g))

# ---------------------------------------------------------------- argument structures
SECRET = PrivVal(7); SECRETFX = PrivValFxp(2.5); SECRETB = PrivValBool(1)
leafpool = [3, 0, -2, 1, True, False, 1.5, -0.25, "txt", None, SECRET, SECRETFX, SECRETB]
kinds = {"i": [3, -2, 0, 1], "b": [True, False], "f": [1.5, -0.25], "o": ["txt", None], "s": [SECRET, SECRETFX, SECRETB]}

def shapes(nleaves, depth):
    """ all nestings of lists, tuples and dicts with exactly nleaves leaf slots ('*') up to the given depth,
        including empty containers """
    if nleaves == 1: yield "*"
    if depth == 0: return
    for parts in compositions(nleaves):
        for subs in itertools.product(*[list(shapes(p, depth - 1)) for p in parts]):
            yield ("list", subs); yield ("tuple", subs); yield ("dict", subs)
    if nleaves == 0:
        yield ("list", ()); yield ("tuple", ()); yield ("dict", ())

def compositions(n):
    if n == 0: return
    for first in range(1, n + 1):
        if first == n: yield (n,)
        else:
            for rest in compositions(n - first): yield (first,) + rest

def fill(shape, it):
    if shape == "*": return next(it)
    (kind, subs) = shape
    vals = [fill(s, it) for s in subs]
    if kind == "list": return vals
    if kind == "tuple": return tuple(vals)
    return {("k%d" % (len(vals) - i)): v for (i, v) in enumerate(vals)}     # keys NOT in sorted order

rnd = random.Random(17)
cases = []
# exhaustive: every argument list with <= 2 leaves and nesting depth <= 2 below the argument list, and with
# 3 leaves and nesting depth <= 1 below it, with every assignment of leaf KINDS (value picked per kind)
nbodies = []
for (n, depth, alphabet, nb) in [(0, 3, "ibfos", 8), (1, 3, "ibfos", 8), (2, 3, "ibfos", 2), (3, 2, "ifos", 1)]:
    for sh in shapes(n, depth):
        if sh == "*" or sh[0] != "tuple": continue          # the argument list itself is a tuple
        for ks in itertools.product(alphabet, repeat=n):
            vals = [rnd.choice(kinds[k]) for k in ks]
            cases.append(fill(sh, iter(vals))); nbodies.append(nb)
# random larger ones
def rand_struct(depth):
    r = rnd.random()
    if depth == 0 or r < 0.45: return rnd.choice(leafpool)
    n = rnd.randrange(0, 4)
    items = [rand_struct(depth - 1) for _ in range(n)]
    c = rnd.randrange(4)
    if c == 0: return items
    if c == 1: return tuple(items)
    if c == 2: return {rnd.choice("zyxwvu") + str(i): v for (i, v) in enumerate(items)}
    return Point(rand_struct(depth - 1), rand_struct(depth - 1))
for _ in range(400):
    cases.append(tuple(rand_struct(4) for _ in range(rnd.randrange(0, 4)))); nbodies.append(8)
# aliasing: the same list object twice, inside and at top level (each occurrence is an argument of its own)
shared = [2, 1.5, [1]]
cases.append((shared, shared, {"a": shared, "b": (shared,)})); nbodies.append(8)
cases.append((Point(1, 2.0), [Point([3], {"q": 0})])); nbodies.append(8)

print("argument structures:", len(cases), " bodies:", len(bodies))
for (ci, args) in enumerate(cases):
    # all bodies for the small and the random structures, a rotating selection for the others
    for (bi, body) in enumerate(bodies):
        if (bi - ci) % len(bodies) >= nbodies[ci]: continue
        try:
            run_case(args, body, "case %d %r body %s" % (ci, args, body.__name__))
        except Exception as e:
            fail("case %d %r body %s raised %r" % (ci, args, body.__name__, e))
        if len(failures) > 50: break
    if len(failures) > 50: break

# ---------------------------------------------------------------- guarded calls (differential only)
for cond in [PrivVal(1), PrivVal(0)]:
    for args in [(3, [1.5, True]), ({"a": (2, 0)}, SECRET), ()]:
        for body in [b_ident, b_arith, b_dup, b_bool]:
            try: run_case(args, body, "guard %r %r %s" % (cond, args, body.__name__), guardcond=cond)
            except Exception as e: fail("guarded %r %r %s raised %r" % (cond, args, body.__name__, e))

# ---------------------------------------------------------------- keyword arguments are refused, nothing is allocated
for deco in [snark]:
    f = deco(lambda x=1, y=2: x)
    for (a, kw) in [((), {"x": 3}), ((1,), {"y": 2}), (([1, 2],), {"y": [3]})]:
        m = mark()
        try:
            f(*a, **kw); fail("keyword arguments %r accepted" % (kw,))
        except ValueError: pass
        if mark() != m: fail("refused call with keyword arguments changed the trace")

# ---------------------------------------------------------------- failing conversions / bodies: same partial trace as before
def raising(*a): raise KeyError("body")
for (args, body) in [((1, [float("nan")], 2), b_ident), ((1.5, float("inf"), 3), b_ident), ((4, [5.5]), raising), ((2, 3), lambda x, y: [x, (x - y), x / 0 if False else x]),]:
    res = []
    for deco in [snark, ref_snark]:
        m = mark()
        try: r = ("ok", repr(deco(body)(*args)))
        except Exception as e: r = ("exc", type(e).__name__)
        res.append((r, delta(m)))
    ncases += 1
    if res[0] != res[1]: fail("failing call %r: %r vs unchanged %r" % (args, res[0], res[1]))
# a result that cannot be exposed (wrong value under no ignore_errors cannot happen for val); a body failing midway
# after earlier wrapped calls must not disturb later calls:
m = mark()
r = snark(lambda x: x * x)(6)
if r != 36 or be.pubvals[m[0]:] != [6, 36]: fail("call after failures: %r %r" % (r, be.pubvals[m[0]:]))

# ---------------------------------------------------------------- for_each_in keeps its meaning (apply to every element)
for args in cases[::7]:
    log1, log2 = [], []
    r1 = rt.for_each_in(lambda x: (log1.append(x), ("c", x))[1], args)
    r2 = ref_for_each_in(lambda x: (log2.append(x), ("c", x))[1], args)
    # NB the converter's result is a tuple here: it must not be traversed again
    if len(log1) != len(log2) or any(a is not b for (a, b) in zip(log1, log2)): fail("for_each_in visits %r, expected %r" % (log1, log2))
    if not has_named(args) and (repr(r1) != repr(r2)): fail("for_each_in gives %r, expected %r" % (r1, r2))

# ---------------------------------------------------------------- named tuples keep their type (new)
pt = snark(lambda p: Point(p.y, [p.x * p.y]))(Point(3, 4))
if not (isinstance(pt, Point) and pt == Point(4, [12])): fail("named tuple result %r" % (pt,))

# ---------------------------------------------------------------- whole-run satisfaction of the recorded system
for (cv, cw, cy) in be.constraints:
    if (evallc(cv, be.pubvals, be.privvals) * evallc(cw, be.pubvals, be.privvals) - evallc(cy, be.pubvals, be.privvals)) % P != 0:
        fail("a recorded constraint does not hold for the recorded witness"); break

print("cases:", ncases, " public values in the run:", len(be.pubvals), " constraints:", len(be.constraints))
if failures:
    print("%d FAILURES" % len(failures)); sys.exit(1)
print("OK: property observed to hold in all cases")
sys.exit(0)
