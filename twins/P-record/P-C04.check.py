# Evidence program for change P (order comparisons between LinCombBools as Boolean formulas).
#
#   PYTHONPATH=<tree> /venv/bin/python P.check.py          (from an empty directory)
#
# What is checked is property C04 itself, not equality with the old behaviour:
#   * every LinComb object the library creates during the run (all intermediates, all results) is recorded
#     by a hook on LinComb.__init__, and its reported .value is compared, modulo the field prime, with its
#     linear combination evaluated on the witness the backend recorded (snarkjs backend: real wires);
#   * every constraint the run emitted holds on that witness;
#   * outside false-guarded regions the value reported by a comparison is the plain Python result;
#   * the gadget is sound: over a set of candidate field values for the wires a comparison allocates, every
#     assignment satisfying the constraints it emitted yields the same (correct) result wire value;
#   * the files written by backend.prove() are decoded again and the same two checks are repeated on the
#     decoded witness / constraints;
#   * a second pass in a subprocess with PYSNARK_BACKEND=nobackend checks the reported values there.
# Exit status 0 iff everything held.

import itertools
import operator
import os
import random
import shutil
import struct
import subprocess
import sys
import tempfile

CHILD = len(sys.argv) > 1 and sys.argv[1] == "nobackend"
os.environ["PYSNARK_BACKEND"] = "nobackend" if CHILD else "snarkjs"

import pysnark.runtime as rt
from pysnark.runtime import LinComb, PrivVal, PubVal, ConstVal, guarded, ignore_errors
from pysnark.boolean import LinCombBool, PrivValBool, PubValBool
from pysnark.branching import if_then_else

rt.autoprove = False            # nothing is written at exit; prove() is called explicitly into a temp dir
be = rt.backend
REAL = not CHILD
P = be.get_modulus()

failures = []
nchecks = 0


def fail(msg):
    failures.append(msg)
    if len(failures) <= 25:
        print("FAIL:", msg)


# ---------------------------------------------------------------- recording of every LinComb ever made
tracked = []
_orig_init = LinComb.__init__


def _init(self, value, lc):
    _orig_init(self, value, lc)
    tracked.append(self)


LinComb.__init__ = _init


def wire(k, pub=None, priv=None):
    pub = be.pubvals if pub is None else pub
    priv = be.privvals if priv is None else priv
    if k == 0:
        return 1
    return pub[k - 1] if k > 0 else priv[-k - 1]


def ev(lc, over=None):
    """ evaluate a backend linear combination on the recorded witness (optionally overriding some wires) """
    tot = 0
    for k, c in lc.lc.items():
        v = over[k] if (over is not None and k in over) else wire(k)
        tot += c * v
    return tot % P


checked_upto = 0
cons_upto = 0


def check_all(where):
    """ C04 for every LinComb created since the previous call + satisfaction of every new constraint """
    global checked_upto, cons_upto, nchecks
    if not REAL:
        checked_upto = len(tracked)
        return
    for o in tracked[checked_upto:]:
        nchecks += 1
        if not isinstance(o.value, int):
            fail("%s: non-integer value %r" % (where, o.value))
        elif ev(o.lc) != o.value % P:
            fail("%s: value %r but wires say %d" % (where, o.value, ev(o.lc)))
    checked_upto = len(tracked)
    for (a, b, c) in be.constraints[cons_upto:]:
        nchecks += 1
        if (ev(a) * ev(b) - ev(c)) % P != 0:
            fail("%s: emitted constraint does not hold on the witness" % where)
    cons_upto = len(be.constraints)


def check_obj(o, where):
    """ C04 for one returned object (LinComb or LinCombBool) """
    global nchecks
    lc = o.lc if isinstance(o, LinCombBool) else o
    if not isinstance(lc, LinComb):
        fail("%s: unexpected result type %r" % (where, type(o)))
        return
    nchecks += 1
    if REAL and ev(lc.lc) != lc.value % P:
        fail("%s: returned value %r but wires say %d" % (where, lc.value, ev(lc.lc)))


# ---------------------------------------------------------------- operand zoo
OPS = [("lt", operator.lt), ("le", operator.le), ("gt", operator.gt), ("ge", operator.ge),
       ("eq", operator.eq), ("ne", operator.ne)]

LHS = {
    "PrivValBool": lambda v: PrivValBool(v),
    "PubValBool": lambda v: PubValBool(v),
    "PrivValBool(bool)": lambda v: PrivValBool(bool(v)),
    "not": lambda v: ~PrivValBool(1 - v),
    "and": lambda v: PrivValBool(v) & PrivValBool(1),
    "xor-const": lambda v: PrivValBool(1 - v) ^ 1,
    "eq-result": lambda v: (PrivVal(5) == (5 if v else 6)),
    "const-bool": lambda v: LinCombBool(ConstVal(v)),
}
RHS = dict(LHS)
RHS.update({
    "int": lambda v: v,
    "bool": lambda v: bool(v),
    "PrivVal": lambda v: PrivVal(v),
    "PubVal": lambda v: PubVal(v),
    "ConstVal": lambda v: ConstVal(v),
    "lincomb-expr": lambda v: PrivVal(v + 3) - 3,
    "PrivVal(bool)": lambda v: PrivVal(bool(v)),
})
REFL = {"int": lambda v: v, "bool": lambda v: bool(v), "PrivVal": lambda v: PrivVal(v), "PubVal": lambda v: PubVal(v)}


def one_cmp(opn, op, lk, lf, rk, rf, a, b, where, sound=False):
    """ run one comparison, check type / semantics / C04 / (optionally) soundness """
    global nchecks
    x = lf(a)
    y = rf(b)
    np0 = len(be.privvals) if REAL else 0
    nc0 = len(be.constraints) if REAL else 0
    r = op(x, y)
    tag = "%s: %s(%s %d, %s %d)" % (where, opn, lk, a, rk, b)
    if not isinstance(r, LinCombBool):
        fail(tag + ": result is %r, not a LinCombBool" % type(r))
        return None
    check_obj(r, tag)
    nchecks += 1
    if r.lc.value not in (0, 1):
        fail(tag + ": reported value %r is not a bit" % r.lc.value)
    if rt.is_guard():
        # in reachable code the reported value is what plain Python computes
        if r.lc.value != int(op(a, b)):
            fail(tag + ": reported %r, Python says %r" % (r.lc.value, op(a, b)))
    if sound and REAL and rt.guard is None:
        new = [-(i + 1) for i in range(np0, len(be.privvals))]
        cons = be.constraints[nc0:]
        if len(new) <= 3:
            cand = [0, 1, 2, 3, P - 1, P - 2, (P + 1) // 2]
            for assign in itertools.product(cand, repeat=len(new)):
                over = dict(zip(new, assign))
                if all((ev(u, over) * ev(v, over) - ev(w, over)) % P == 0 for (u, v, w) in cons):
                    nchecks += 1
                    if ev(r.lc.lc, over) != int(op(a, b)):
                        fail(tag + ": constraints admit a witness with result %d" % ev(r.lc.lc, over))
    return r


def zoo(where, sound=False):
    res = []
    for (opn, op) in OPS:
        for a in (0, 1):
            for b in (0, 1):
                for lk, lf in LHS.items():
                    for rk, rf in RHS.items():
                        res.append(one_cmp(opn, op, lk, lf, rk, rf, a, b, where, sound))
                for lk, lf in REFL.items():          # reflected: plain / LinComb operand on the left
                    res.append(one_cmp(opn, op, lk, lf, "PrivValBool", LHS["PrivValBool"], a, b, where + "/refl"))
    check_all(where)
    return [r for r in res if r is not None]


# ---------------------------------------------------------------- 1. plain, error checking on / off
for ie in (False, True):
    ignore_errors(ie)
    rs = zoo("top ignore_errors=%s" % ie, sound=True)
    # results are used downstream: opened, selected on, combined
    acc = LinComb.ZERO
    for i, r in enumerate(rs[:200]):
        acc = acc + r * (i + 1)
        sel = if_then_else(r, PrivVal(10 + i), PrivVal(-7))
        check_obj(sel, "select on comparison result")
        if sel.value != (10 + i if r.lc.value else -7):
            fail("if_then_else on comparison result selected %r" % sel.value)
    check_obj(acc, "weighted sum of results")
    for r in rs[:40]:
        v = r.val()
        if v not in (0, 1):
            fail("val() of a comparison result is %r" % v)
    check_all("downstream ignore_errors=%s" % ie)
ignore_errors(False)

# ---------------------------------------------------------------- 2. guards: true / false / nested, both error modes
for ie in (False, True):
    for g1 in (0, 1):
        for g2 in (0, 1):
            ignore_errors(ie)
            c1 = PrivValBool(g1)
            c2 = PrivValBool(g2)
            where = "guard %d/%d ie=%s" % (g1, g2, ie)

            def inner():
                out = zoo(where + " inner")
                return [r.lc for r in out[:30]]

            def outer():
                out = zoo(where + " outer")
                nested = if_then_else(c2, inner, lambda: [LinComb.ZERO] * 30)
                return [r.lc for r in out[:30]] + nested

            merged = if_then_else(c1, outer, lambda: [LinComb.ZERO] * 60)
            for m in merged:
                check_obj(m, where + " merged")
            # lazily evaluated else-branch holding comparisons
            merged2 = if_then_else(c1, lambda: PrivValBool(1) < PrivValBool(0), lambda: PrivValBool(0) < PrivValBool(1))
            check_obj(merged2, where + " merged2")
            mv = merged2.lc.value if isinstance(merged2, LinCombBool) else merged2.value
            if mv != (0 if g1 else 1):
                fail(where + ": lazy branches merged to %r" % mv)
            check_all(where)
            if rt.guard is not None or LinComb.ONE is not LinComb.ONE_SAFE:
                fail(where + ": guard state not restored")
            ignore_errors(False)

# guarded() decorator directly, and the _if/_elif/_else context machinery
for g in (0, 1):
    guarded(PrivValBool(g).lc)(lambda: zoo("guarded(%d)" % g))()
    check_all("guarded(%d)" % g)

# (the statement-style _if/_elif machinery of pysnark.branching does not accept LinCombBool conditions in this
#  version of the library, so the if / elif / else chain is written with nested lazy if_then_else)
for a in (0, 1):
    for b in (0, 1):
        x, y = PrivValBool(a), PrivValBool(b)
        out = if_then_else(x < y,
                           lambda: PrivVal(1) + (x <= y) + (y > x),
                           lambda: if_then_else(x > y,
                                                lambda: PrivVal(20) + (x >= y) * 2,
                                                lambda: PrivVal(300) + (x <= y) + (x >= y)))
        want = 3 if a < b else (22 if a > b else 302)
        check_obj(out, "if chain")
        if out.value != want:
            fail("if chain (%d,%d) gave %r, expected %d" % (a, b, out.value, want))
        # explicit add_guard / restore_guard around comparisons
        bak = rt.add_guard((x >= y).lc)
        try:
            inner = [x < y, x <= y, x > y, x >= y, y < 1, y >= True, 0 < x, PrivVal(a) <= y]
        finally:
            rt.restore_guard(bak)
        for r in inner:
            check_obj(r, "add_guard region")
check_all("_if chains")

# ---------------------------------------------------------------- 3. invalid right-hand sides are refused, in both modes
for ie in (False, True):
    ignore_errors(ie)
    for g in (None, 0, 1):
        def bad():
            x = PrivValBool(1)
            for (opn, op) in OPS:
                for mk, exc in ((lambda: 2, ValueError), (lambda: -1, ValueError), (lambda: PrivVal(2), ValueError),
                                (lambda: PrivVal(-1), ValueError), (lambda: 0.5, RuntimeError),
                                (lambda: "1", RuntimeError), (lambda: None, RuntimeError)):
                    try:
                        r = op(x, mk())
                    except exc:
                        continue
                    except Exception as e:
                        fail("%s with invalid operand raised %r" % (opn, e))
                        continue
                    fail("%s accepted invalid operand and returned %r" % (opn, r))
        if g is None:
            bad()
        else:
            guarded(PrivValBool(g).lc)(bad)()
        check_all("invalid operands ie=%s guard=%s" % (ie, g))
ignore_errors(False)
if rt.guard is not None:
    fail("guard left set")

# ---------------------------------------------------------------- 4. random formulas against plain Python
rnd = random.Random(4)


def rand_expr(depth):
    """ returns (LinCombBool or int, python value) """
    if depth == 0 or rnd.random() < 0.2:
        v = rnd.randrange(2)
        k = rnd.randrange(4)
        if k == 0:
            return v, v
        return (PrivValBool(v) if k == 1 else PubValBool(v) if k == 2 else ~PrivValBool(1 - v)), v
    (x, xv), (y, yv) = rand_expr(depth - 1), rand_expr(depth - 1)
    if not isinstance(x, LinCombBool):
        x = PrivValBool(xv)
    k = rnd.randrange(9)
    if k < 6:
        opn, op = OPS[k]
        return op(x, y), int(op(xv, yv))
    if k == 6:
        return x & y, xv & yv
    if k == 7:
        return x | y, xv | yv
    return x ^ y, xv ^ yv


for it in range(300):
    ignore_errors(rnd.random() < 0.3)
    gv = rnd.randrange(3)
    box = []

    def run():
        box.append(rand_expr(4))

    if gv == 2:
        run()
    else:
        guarded(PrivValBool(gv).lc)(run)()
    (e, want) = box[0]
    if isinstance(e, LinCombBool):
        check_obj(e, "random formula")
        if gv != 0 and e.lc.value != want:
            fail("random formula evaluated to %r, Python says %r" % (e.lc.value, want))
    ignore_errors(False)
check_all("random formulas")

# ---------------------------------------------------------------- 5. decode what prove() writes
if REAL:
    d = tempfile.mkdtemp()
    cwd = os.getcwd()
    try:
        os.chdir(d)
        be.prove()
        w = open("witness.wtns", "rb").read()
        assert w[:4] == b"wtns"
        nw = struct.unpack("<I", w[12 + 4 + 8 + 4 + 32:12 + 4 + 8 + 4 + 32 + 4])[0]
        off = 12 + 4 + 8 + 4 + 32 + 4 + 4 + 8
        wit = [int.from_bytes(w[off + 32 * i: off + 32 * i + 32], "little") for i in range(nw)]
        npub = len(be.pubvals)
        if nw != 1 + npub + len(be.privvals) or wit[0] != 1:
            fail("witness file has unexpected shape")

        def fwire(k):
            return wit[k if k >= 0 else npub - k]

        for o in tracked:
            nchecks += 1
            if sum(c * fwire(k) for k, c in o.lc.lc.items()) % P != o.value % P:
                fail("written witness disagrees with reported value %r" % o.value)
        c = open("circuit.r1cs", "rb").read()
        assert c[:4] == b"r1cs"
        pos = 12 + 4 + 8
        pos += 4 + 32
        nvars, nout, _a, _b = struct.unpack("<IIII", c[pos:pos + 16]); pos += 16
        pos += 8
        ncons = struct.unpack("<I", c[pos:pos + 4])[0]; pos += 4
        pos += 4 + 8
        if ncons != len(be.constraints) or nvars != nw:
            fail("r1cs header disagrees with the run")
        for i in range(ncons):
            vals = []
            for j in range(3):
                n = struct.unpack("<I", c[pos:pos + 4])[0]; pos += 4
                t = 0
                for _k in range(n):
                    idx = struct.unpack("<I", c[pos:pos + 4])[0]; pos += 4
                    co = int.from_bytes(c[pos:pos + 32], "little"); pos += 32
                    t += co * wit[idx]
                vals.append(t % P)
            nchecks += 1
            if (vals[0] * vals[1] - vals[2]) % P != 0:
                fail("constraint %d of the written r1cs does not hold on the written witness" % i)
    finally:
        try:
            os.chdir(cwd)
        except OSError:
            cwd = None
        shutil.rmtree(d, ignore_errors=True)

    # informational: the observable effect of P
    b0, b1, l1 = PrivValBool(0), PrivValBool(1), PrivVal(1)
    for nm, f in (("bit<bit", lambda: b0 < b1), ("bit<=LinComb", lambda: b0 <= l1), ("bit>const", lambda: b1 > 0),
                  ("bit>=bit", lambda: b1 >= b0), ("bit==bit", lambda: b1 == b0)):
        x0 = rt.num_constraints
        f()
        print("constraints for %-13s %d" % (nm + ":", rt.num_constraints - x0))

    # ---------------------------------------------------------------- 6. same programme without wires
    env = dict(os.environ)
    r = subprocess.run([sys.executable, os.path.abspath(__file__), "nobackend"], env=env, cwd=cwd)
    if r.returncode != 0:
        fail("nobackend pass failed")

print(("nobackend pass: " if CHILD else "") + "%d checks, %d failures" % (nchecks, len(failures)))
sys.exit(1 if failures else 0)
