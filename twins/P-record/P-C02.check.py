# Evidence program for change P (one-hot witness gadget for secret array indices).
#
#   PYTHONPATH=<tree> /venv/bin/python P.check.py          (from an empty directory)
#
# It checks property C02 itself on Array.__getitem__/__setitem__ with secret indices:
#   (a) completeness side condition: every emitted constraint holds on the recorded witness and the
#       wire of every result carries the plain-Python value;
#   (b) soundness: an exact solver over the snarkjs field enumerates ALL assignments of the auxiliary
#       witness wires the operation introduced (operands fixed) that satisfy the emitted constraints,
#       and every one of them must give the honest result (array element / updated array / selected
#       value).  The same circuit is re-solved with the index wire forced to other field values:
#       in-range -> unique result arr[v]; out-of-range -> no satisfying assignment at all;
#   (c) indicators typed boolean are 0/1 in every satisfying assignment;
#   (d) guards, nested guards, dead branches, ignore_errors, 2-D indices, all element kinds;
#   (e) a nobackend smoke run (values only).
# Nothing is compared with the behaviour of the unchanged tree.

import os, sys, random, subprocess, functools

if len(sys.argv) > 1 and sys.argv[1] == "nobackend":
    os.environ["PYSNARK_BACKEND"] = "nobackend"
    import pysnark.runtime as rt
    rt.autoprove = False
    from pysnark.runtime import PrivVal
    from pysnark.array import Array
    from pysnark.branching import if_then_else
    from pysnark.boolean import PrivValBool
    a = Array([PrivVal(4), 9, PrivVal(-3)])
    for i in range(3):
        assert a[PrivVal(i)].value == [4, 9, -3][i]
    a[PrivVal(1)] = PrivVal(77)
    assert [x.value for x in a.arr] == [4, 77, -3]
    r = if_then_else(PrivValBool(0), lambda: a[PrivVal(12)], lambda: 5)
    assert r.value == 5
    try:
        a[PrivVal(3)]
        raise SystemExit("expected IndexError")
    except IndexError:
        pass
    print("nobackend smoke ok")
    sys.exit(0)

os.environ["PYSNARK_BACKEND"] = "snarkjs"
sys.setrecursionlimit(20000)

import pysnark.runtime as rt
rt.autoprove = False
import pysnark.snarkjsbackend as be
from pysnark.runtime import PrivVal, PubVal, ConstVal, LinComb, ignore_errors
from pysnark.array import Array, ArrayRow
from pysnark.boolean import LinCombBool, PrivValBool
from pysnark.fixedpoint import LinCombFxp, PrivValFxp
from pysnark.branching import if_then_else

assert rt.backend is be
P = be.snarkjsp
rnd = random.Random(20261004)
nchecks = {"honest": 0, "solved": 0, "solutions": 0, "unsat": 0}

# ---------------------------------------------------------------------------------------------
# field helpers

@functools.lru_cache(maxsize=None)
def inv(x): return pow(x % P, -1, P)

@functools.lru_cache(maxsize=None)
def sqrt_mod(a):
    """ all square roots of a in F_P (Tonelli-Shanks) """
    a %= P
    if a == 0: return [0]
    if pow(a, (P - 1) // 2, P) != 1: return []
    q, s = P - 1, 0
    while q % 2 == 0: q //= 2; s += 1
    z = 2
    while pow(z, (P - 1) // 2, P) != P - 1: z += 1
    m, c, t, r = s, pow(z, q, P), pow(a, q, P), pow(a, (q + 1) // 2, P)
    while t != 1:
        i, t2 = 0, t
        while t2 != 1: t2 = t2 * t2 % P; i += 1
        b = pow(c, 1 << (m - i - 1), P)
        m, c, t, r = i, b * b % P, t * b * b % P, r * b % P
    assert r * r % P == a
    return [r, P - r]

def roots(q2, q1, q0):
    """ all w with q2 w^2 + q1 w + q0 = 0; None means every w """
    q2 %= P; q1 %= P; q0 %= P
    if q2 == 0:
        if q1 == 0: return None if q0 == 0 else []
        return [(-q0) * inv(q1) % P]
    disc = (q1 * q1 - 4 * q2 * q0) % P
    return sorted(set((-q1 + s) * inv(2 * q2) % P for s in sqrt_mod(disc)))

# ---------------------------------------------------------------------------------------------
# recording and solving

class Trace:
    """ constraints and witness wires created inside the with-block """
    def __enter__(self):
        self.c0, self.w0 = len(be.constraints), len(be.privvals)
        return self
    def __exit__(self, *exc):
        self.cons = be.constraints[self.c0:]
        self.aux = set(-(k + 1) for k in range(self.w0, len(be.privvals)))
        return False

def recorded(key):
    if key == 0: return 1
    return be.pubvals[key - 1] % P if key > 0 else be.privvals[-key - 1] % P

def terms(x):
    """ (wire, coefficient) pairs of a runtime LinComb or of a backend linear combination """
    d = x.lc
    return (d if isinstance(d, dict) else d.lc).items()

def ev(lc, asg):
    return sum(v * (asg[k] if k in asg else recorded(k)) for k, v in terms(lc)) % P

def check_honest(tr):
    for (a, b, c) in tr.cons:
        if (ev(a, {}) * ev(b, {}) - ev(c, {})) % P:
            raise SystemExit("FAIL: emitted constraint does not hold on the recorded witness")
    nchecks["honest"] += 1

def honest_holds(tr):
    return all((ev(a, {}) * ev(b, {}) - ev(c, {})) % P == 0 for (a, b, c) in tr.cons)

def solve(tr, override={}):
    """
    All assignments of the auxiliary wires of the trace satisfying its constraints, operands taken from the
    recorded witness (or from override).  Exact for the wires it assigns: a constraint with one unknown wire is
    a polynomial of degree <= 2 in it whose roots are computed; the search branches over the roots.  Returns a
    list of (assignment, free wires).  Wires that stay unknown when no constraint with a single unknown is left
    are reported as free, which over-approximates the solution set (a result depending on a free wire is a
    failure, so the over-approximation can only make this program stricter).
    """
    sols = []
    def split(lc, asg):
        c0, u = 0, {}
        for k, v in terms(lc):
            v %= P
            if v == 0: continue
            if k in tr.aux and k not in asg: u[k] = (u.get(k, 0) + v) % P
            else: c0 = (c0 + v * (asg[k] if k in asg else recorded(k))) % P
        return c0, {k: v for k, v in u.items() if v}
    def rec(asg, cons):
        while True:
            rest, picks = [], []
            for con in cons:
                (a0, au), (b0, bu), (c0, cu) = (split(x, asg) for x in con)
                if (not au and a0 == 0) or (not bu and b0 == 0):
                    a0, au, b0, bu = 0, {}, 0, {}                   # known zero factor: constraint is C = 0
                us = set(au) | set(bu) | set(cu)
                if not us:
                    if (a0 * b0 - c0) % P: return
                    continue
                if len(us) == 1:
                    w = next(iter(us))
                    a1, b1, c1 = au.get(w, 0), bu.get(w, 0), cu.get(w, 0)
                    rs = roots(a1 * b1, a1 * b0 + a0 * b1 - c1, a0 * b0 - c0)
                    if rs is None: continue
                    if not rs: return
                    picks.append((len(rs), len(picks), w, rs))
                rest.append(con)
            if not picks:
                sols.append((dict(asg), set(k for k in tr.aux if k not in asg)))
                return
            _, _, w, rs = min(picks)
            cons = rest
            if len(rs) == 1:
                asg = dict(asg); asg[w] = rs[0]
                continue
            for r in rs:
                nasg = dict(asg); nasg[w] = r
                rec(nasg, rest)
            return
    rec(dict(override), list(tr.cons))
    nchecks["solved"] += 1
    nchecks["solutions"] += len(sols)
    if not sols: nchecks["unsat"] += 1
    return sols

def lc_of(x):
    if isinstance(x, LinComb): return x
    if isinstance(x, (LinCombBool, LinCombFxp)): return x.lc
    if isinstance(x, int): return ConstVal(x)
    raise TypeError(x)

def flat(x):
    if isinstance(x, Array): return [y for e in x.arr for y in flat(e)]
    if isinstance(x, (list, tuple)): return [y for e in x for y in flat(e)]
    return [x]

def assert_unique(tr, results, expected, override={}, what="", booleans=()):
    """ every satisfying assignment gives exactly the expected results; expected None: no assignment exists """
    sols = solve(tr, override)
    if expected is None:
        if sols: raise SystemExit("FAIL: out-of-range index admits a satisfying assignment " + what)
        return
    if not sols: raise SystemExit("FAIL: no satisfying assignment for valid operands " + what)
    results, expected = flat(results), flat(expected)
    assert len(results) == len(expected), (what, len(results), len(expected))
    for asg, free in sols:
        asg = dict(asg); asg.update(override)
        for r, e in zip(results, expected):
            lc = lc_of(r)
            if any(k in free and v % P for k, v in terms(lc)):
                raise SystemExit("FAIL: result depends on an unconstrained witness " + what)
            if ev(lc, asg) != e % P:
                raise SystemExit("FAIL: satisfying assignment with a different result " + what +
                                 ": " + str(ev(lc, asg)) + " instead of " + str(e))
        for b in booleans:
            if any(k in free and v % P for k, v in terms(b.lc)) or ev(b.lc, asg) not in (0, 1):
                raise SystemExit("FAIL: boolean-typed value not forced to 0/1 " + what)

def value_of(x):
    if isinstance(x, LinComb): return x.value
    if isinstance(x, (LinCombBool, LinCombFxp)): return x.lc.value
    return x

def check_values(results, expected, what):
    """ recorded value == wire value == plain Python value """
    for r, e in zip(flat(results), flat(expected)):
        if value_of(r) != e or ev(lc_of(r), {}) != e % P:
            raise SystemExit("FAIL: wrong honest result " + what + ": " + str(r) + " != " + str(e))

# ---------------------------------------------------------------------------------------------
# element kinds: returns (pysnark element, plain value of its wire)

def mk(kind, v):
    if kind == "mixed": kind = rnd.choice(["secret", "const", "public"])
    if kind == "secret": return PrivVal(v), v
    if kind == "public": return PubVal(v), v
    if kind == "const":  return v, v
    if kind == "bool":   return PrivValBool(v % 2), v % 2
    if kind == "fxp":    return PrivValFxp(v, False), v
    raise ValueError(kind)

def rndval():
    return rnd.choice([0, 1, -1, 2, 5, 5, -7, 255, 65535, -(1 << 20), rnd.randrange(-1000, 1000), P - 1, 1 << 200])

def index_probes(n):
    return list(range(n)) + [n, n + 1, 2 * n + 3, P - 1, P - 2, P - n, 1 << 16, (P + 1) // 2, rnd.randrange(n + 2, P - n - 1)]

# ---------------------------------------------------------------------------------------------
print("S1 getitem, secret index, all element kinds")
for n in range(1, 7):
    for kind in ["secret", "const", "public", "mixed", "bool", "fxp"]:
        elems = [mk(kind, rndval()) for _ in range(n)]
        arr, plain = Array([e for e, _ in elems]), [v for _, v in elems]
        for i in range(n):
            ix = PrivVal(i)
            with Trace() as tr: res = arr[ix]
            what = "getitem n=%d kind=%s i=%d" % (n, kind, i)
            check_honest(tr)
            check_values(res, plain[i], what)
            assert_unique(tr, res, plain[i], what=what)
            if i == n // 2:                      # the adversary also picks the index wire
                key = -tr.w0
                assert recorded(key) == i and key not in tr.aux
                for v in index_probes(n):
                    assert_unique(tr, res, plain[v] if v < n else None, {key: v}, what + " forced index " + str(v))
        assert arr.arr == [e for e, _ in elems]  # read access leaves the array alone

print("S2 index given as public value / affine expression / constant wire")
for n in range(1, 6):
    plain = [rndval() for _ in range(n)]
    arr = Array([PrivVal(v) for v in plain])
    for i in range(n):
        x = PrivVal(i - 3)
        for name, ix in [("pub", PubVal(i)), ("affine", x + 3), ("scaled", PrivVal(2 * i + 8) / 2 - 4), ("constwire", ConstVal(i))]:
            with Trace() as tr: res = arr[ix]
            what = "getitem %s n=%d i=%d" % (name, n, i)
            check_honest(tr); check_values(res, plain[i], what); assert_unique(tr, res, plain[i], what=what)

print("S3 setitem, secret index")
for n in range(1, 6):
    for kind in ["secret", "const", "mixed"]:
        for vkind in ["secret", "const"]:
            for i in range(n):
                elems = [mk(kind, rndval()) for _ in range(n)]
                arr, plain = Array([e for e, _ in elems]), [v for _, v in elems]
                val, pval = mk(vkind, rndval())
                ix = PrivVal(i)
                with Trace() as tr: arr[ix] = val
                what = "setitem n=%d kind=%s/%s i=%d" % (n, kind, vkind, i)
                exp = plain[:i] + [pval] + plain[i + 1:]
                check_honest(tr); check_values(arr, exp, what); assert_unique(tr, arr, exp, what=what)
                if i == 0:
                    key = -tr.w0
                    assert recorded(key) == i and key not in tr.aux
                    for v in index_probes(n):
                        assert_unique(tr, arr, plain[:v] + [pval] + plain[v + 1:] if v < n else None, {key: v},
                                      what + " forced index " + str(v))

print("S4 two-dimensional arrays")
for (rows, cols) in [(1, 1), (2, 3), (3, 2), (4, 4)]:
    for i in range(rows):
        for j in range(cols):
            for mode in ["ss", "sc", "cs"]:
                plain = [[rndval() for _ in range(cols)] for _ in range(rows)]
                arr = Array([Array([mk("mixed", v)[0] for v in row]) for row in plain])
                ii = PrivVal(i) if mode[0] == "s" else i
                jj = PrivVal(j) if mode[1] == "s" else j
                what = "2d %dx%d [%d,%d] %s" % (rows, cols, i, j, mode)
                with Trace() as tr: res = arr[ii, jj]
                check_honest(tr); check_values(res, plain[i][j], "get " + what); assert_unique(tr, res, plain[i][j], what="get " + what)
                if mode[0] == "s":
                    with Trace() as tr: row = arr[ii]
                    assert isinstance(row, ArrayRow)
                    check_honest(tr); check_values(row, plain[i], "row " + what); assert_unique(tr, row, plain[i], what="row " + what)
                val, pval = mk("secret", rndval())
                with Trace() as tr: arr[ii, jj] = val
                exp = [list(r) for r in plain]; exp[i][j] = pval
                check_honest(tr); check_values(arr, exp, "set " + what); assert_unique(tr, arr, exp, what="set " + what)

print("S5 guards: lazy if_then_else branches, nesting, dead branches")
for n in range(1, 5):
    plain = [rndval() for _ in range(n)]
    arr = Array([PrivVal(v) for v in plain])
    for c in (0, 1):
        for i in list(range(n)) + [n, -1, 1 << 18]:
            if c == 1 and not 0 <= i < n: continue     # a live out-of-range access raises, see S7
            cond, ix, other = PrivValBool(c), PrivVal(i), PrivVal(424242)
            with Trace() as tr: res = if_then_else(cond, lambda: arr[ix], other)
            what = "guard c=%d n=%d i=%d" % (c, n, i)
            exp = plain[i] if c else 424242
            check_honest(tr); check_values(res, exp, what); assert_unique(tr, res, exp, what=what)
            assert rt.guard is None and not ignore_errors()
    for c1 in (0, 1):
        for c2 in (0, 1):
            i, j = rnd.randrange(n), rnd.randrange(n)
            g1, g2, ix, jx = PrivValBool(c1), PrivValBool(c2), PrivVal(i), PrivVal(j)
            rt.bitlength = 3          # nested guards are combined with a bitwise and; keep its decomposition small
            try:
                with Trace() as tr:
                    res = if_then_else(g1, lambda: if_then_else(g2, lambda: arr[ix], lambda: arr[jx] + 1), lambda: 7)
            finally:
                rt.bitlength = 16
            exp = (plain[i] if c2 else plain[j] + 1) if c1 else 7
            what = "nested guards %d%d n=%d" % (c1, c2, n)
            check_honest(tr); check_values(res, exp, what); assert_unique(tr, res, exp, what=what)
    for c in (0, 1):
        for i in list(range(n)) + [n + 1]:
            if c == 1 and i >= n: continue
            cond, ix, val = PrivValBool(c), PrivVal(i), PrivVal(31337)
            def update():
                upd = Array(arr)
                upd[ix] = val
                return upd.arr
            with Trace() as tr: res = if_then_else(cond, update, lambda: list(arr.arr))
            exp = plain[:i] + [31337] + plain[i + 1:] if c else plain
            what = "guarded setitem c=%d n=%d i=%d" % (c, n, i)
            check_honest(tr); check_values(res, exp, what); assert_unique(tr, res, exp, what=what)
            check_values(arr, plain, what)

print("S6 ignore_errors: out-of-range indices still emit an unsatisfiable system")
for n in range(1, 5):
    plain = [rndval() for _ in range(n)]
    for i in list(range(n)) + [n, n + 5, -1, -n, 1 << 30]:
        for op in ("get", "set"):
            arr = Array([PrivVal(v) for v in plain])
            ix = PrivVal(i)
            ignore_errors(True)
            try:
                with Trace() as tr:
                    if op == "get": res = arr[ix]
                    else: arr[ix] = 99; res = arr
            finally:
                ignore_errors(False)
            what = "ignore_errors %s n=%d i=%d" % (op, n, i)
            if 0 <= i < n:
                exp = plain[i] if op == "get" else plain[:i] + [99] + plain[i + 1:]
                check_honest(tr); check_values(res, exp, what); assert_unique(tr, res, exp, what=what)
            else:
                if honest_holds(tr): raise SystemExit("FAIL: recorded witness satisfies an out-of-range access " + what)
                assert_unique(tr, res, None, what=what)

print("S7 invalid input is rejected before anything is emitted")
arr = Array([PrivVal(1), PrivVal(2), PrivVal(3)])
for bad in [3, 4, -1, -3, 1 << 40]:
    ix = PrivVal(bad)
    for op in ("get", "set"):
        with Trace() as tr:
            try:
                if op == "get": arr[ix]
                else: arr[ix] = 5
                raise SystemExit("FAIL: out-of-range secret index accepted")
            except IndexError:
                pass
        assert not tr.cons and not tr.aux and [x.value for x in arr.arr] == [1, 2, 3]
for ig in (False, True):
    ignore_errors(ig)
    try:
        for op in ("get", "set"):
            try:
                if op == "get": Array([])[PrivVal(0)]
                else: Array([])[PrivVal(0)] = 1
                raise SystemExit("FAIL: empty array accepted")
            except (IndexError, AttributeError):
                pass
    finally:
        ignore_errors(False)
for bad in [1.5, "1", None, PrivValBool(1), PrivValFxp(1.0)]:
    try:
        arr[bad]
        raise SystemExit("FAIL: index of unsupported type accepted")
    except TypeError:
        pass

if hasattr(Array, "_indicators"):
    print("S8 indicators are boolean-typed and forced to 0/1, exactly one set")
    for n in range(1, 7):
        arr = Array([PrivVal(rndval()) for _ in range(n)])
        for i in range(n):
            ix = PrivVal(i)
            with Trace() as tr: ind = arr._indicators(ix)
            assert len(ind) == n and all(isinstance(b, LinCombBool) for b in ind)
            exp = [1 if k == i else 0 for k in range(n)]
            check_honest(tr); check_values(ind, exp, "indicators")
            assert_unique(tr, ind, exp, what="indicators n=%d i=%d" % (n, i), booleans=ind)
            print("   n=%d: %d constraints, %d witnesses" % (n, len(tr.cons), len(tr.aux))) if i == 0 else None
        # inside a dead branch the indicators are still bits in every satisfying assignment
        cond, ix = PrivValBool(0), PrivVal(n + 2)
        box = []
        with Trace() as tr: if_then_else(cond, lambda: box.append(arr._indicators(ix)) or 0, 0)
        check_honest(tr)
        for asg, free in solve(tr):
            for b in box[0]:
                assert not any(k in free and v % P for k, v in terms(b.lc)) and ev(b.lc, asg) in (0, 1)

sub = subprocess.run([sys.executable, os.path.abspath(__file__), "nobackend"], capture_output=True, text=True)
print(sub.stdout.strip())
if sub.returncode != 0:
    print(sub.stderr)
    raise SystemExit("FAIL: nobackend smoke run")

print("all checks passed:", nchecks)
