# Evidence program for change P (C17): "a @snark function exposes exactly its
# arguments and results as public values".
#
#   PYTHONPATH=<tree> /venv/bin/python P.check.py        (from an empty directory)
#
# It does not compare with the old behaviour.  For many wrapped calls (top level,
# inside guards that are on / off / nested, inside lazy if_then_else branches,
# under ignore_errors, with negative / huge / boolean / float / nested arguments
# and results, several calls in one run) it checks the clauses of the property
# on the constraint system and witness that the snarkjs backend records:
#
#   I  every numeric argument leaf became one fresh public wire carrying its value,
#      in traversal order (integer leaves, then fixed-point leaves - the library's
#      pass order), and the body received exactly those wires;
#   O  every secret result leaf became one fresh public wire carrying the value of
#      the computed wire, in order (integer, fixed-point, boolean leaves), and is
#      TIED to it: the recorded witness satisfies every constraint, and changing
#      the output value (also together with any private wire allocated by the
#      wrapper after the body) violates a constraint whenever the guard is on;
#   N  nothing else became public: #new public wires == #numeric args + #secret
#      results, and at the end the public part of the witness is exactly the
#      concatenation of the expected inputs/outputs of all the calls;
#   R  the caller gets plain values (no wire objects), equal to the wire values and
#      - whenever the code is really executed (guard on) - equal to what the
#      undecorated function returns on the plain arguments;
#   K  keyword arguments are refused and leave no trace in the circuit.
#
# Finally witness.wtns / circuit.r1cs are written (in a temporary directory),
# decoded again, and the same public prefix / satisfaction is checked on the bytes.
# The value-level clauses (R, K) are re-run under the nobackend backend as well.

import os, sys, copy, itertools, random, shutil, subprocess, tempfile

MODE = sys.argv[1] if len(sys.argv) > 1 else "snarkjs"
os.environ["PYSNARK_BACKEND"] = MODE

import pysnark.runtime as rt
rt.autoprove = False
from pysnark.runtime import snark, PrivVal, PubVal, LinComb, guarded, ignore_errors
from pysnark.fixedpoint import LinCombFxp, PrivValFxp
from pysnark.boolean import LinCombBool, PrivValBool
from pysnark.branching import if_then_else

assert rt.backend_name == MODE, rt.backend_name
FULL = MODE == "snarkjs"
if FULL:
    import pysnark.snarkjsbackend as be
    P = be.snarkjsp

failures = []
stats = {"calls": 0, "outputs": 0, "guarded_outputs": 0, "off_outputs": 0, "off_tied": 0, "perturb": 0}

def check(cond, *msg):
    if not cond:
        failures.append(" ".join(str(m) for m in msg))
        if len(failures) <= 25: print("FAIL:", *msg)

# ---------------------------------------------------------------- circuit access

def snap():
    return (len(be.pubvals), len(be.privvals), len(be.constraints))

def wire(k, over=None):
    if over and k in over: return over[k]
    if k == 0: return 1
    return be.pubvals[k-1] if k > 0 else be.privvals[-k-1]

def ev(lc, over=None):
    return sum(c * wire(k, over) for k, c in lc.lc.items()) % P

def holds(con, over=None):
    return (ev(con[0], over) * ev(con[1], over) - ev(con[2], over)) % P == 0

def all_hold(lo, hi=None, over=None):
    return all(holds(c, over) for c in be.constraints[lo:hi])

# ---------------------------------------------------------------- structure walking

def leaves(struct):
    if isinstance(struct, (list, tuple)):
        for x in struct: yield from leaves(x)
    elif isinstance(struct, dict):
        for k in struct: yield from leaves(struct[k])
    else:
        yield struct

def shape(struct):
    """ structure with every leaf replaced by a marker: containers must be preserved """
    if isinstance(struct, list): return [shape(x) for x in struct]
    if isinstance(struct, tuple): return tuple(shape(x) for x in struct)
    if isinstance(struct, dict): return {k: shape(struct[k]) for k in struct}
    return "*"

def is_wire_obj(x):
    return isinstance(x, (LinComb, LinCombFxp, LinCombBool))

def scaled(f):
    return LinCombFxp.add_scaling(f)

# ---------------------------------------------------------------- environments
# an environment runs a thunk in some guard context and says whether the guard is on

class Env:
    def __init__(self, name, on): self.name, self.on = name, on
    def run(self, thunk): return thunk()

class Top(Env):
    def __init__(self): super().__init__("top", True)

class Guard(Env):
    def __init__(self, *bits):
        super().__init__("guard" + "".join(map(str, bits)), all(bits))
        self.bits = bits
    def run(self, thunk):
        f = thunk
        for b in reversed(self.bits):
            f = guarded(PrivVal(b))(f)
        return f()

class Branch(Env):
    """ thunk runs as the lazy true (which=1) / false (which=0) branch of if_then_else """
    def __init__(self, c, which):
        super().__init__("ite(c=%d,%s)" % (c, "true" if which else "false"), bool(c) == bool(which))
        self.c, self.which = c, which
    def run(self, thunk):
        box = []
        def taken(): box.append(thunk()); return 0
        def other(): return 0
        cond = PrivValBool(self.c)
        if self.which: if_then_else(cond, taken, other)
        else: if_then_else(cond, other, taken)
        return box[0]

class IgnoreErrors(Env):
    def __init__(self): super().__init__("ignore_errors", True)
    def run(self, thunk):
        old = ignore_errors()
        ignore_errors(True)
        try: return thunk()
        finally: ignore_errors(old)

ENVS = [Top(), Guard(1), Guard(0), Guard(1, 1), Guard(1, 0), Guard(0, 1), Branch(1, 1), Branch(0, 1),
        Branch(1, 0), Branch(0, 0), IgnoreErrors()]
if not FULL: ENVS = [Top(), Guard(1), Branch(1, 1), Branch(0, 0), IgnoreErrors()]

# ---------------------------------------------------------------- one wrapped call

expected_public = []      # what the public part of the witness must be at the end

def run_case(label, fn, args, env, plain="call"):
    """ plain: "call" = compare with fn(*args) on plain values; None = no plain model """
    stats["calls"] += 1
    label = "%s [%s] %r" % (label, env.name, args)
    rec = {}
    def body(*a):
        if FULL: rec["enter"] = snap()
        rec["args"] = a
        r = fn(*a)
        rec["ret"] = r
        if FULL: rec["exit"] = snap()
        return r

    def thunk():
        # snapshots are taken inside the environment: the environment allocates its own condition wires
        if FULL: rec["s0"] = snap()
        r = snark(body)(*copy.deepcopy(args))
        if FULL: rec["s1"] = snap()
        return r
    try:
        out = env.run(thunk)
    except Exception as e:
        check(False, label, "raised", repr(e)); return
    if FULL: s0, s1 = rec["s0"], rec["s1"]

    # R: plain values, right structure, equal to wire values / plain python
    check(not any(is_wire_obj(x) for x in leaves(out)), label, "wire object returned", out)
    check(shape(out) == shape(rec["ret"]), label, "result structure changed", out)
    for o, r in zip(leaves(out), leaves(rec["ret"])):
        if isinstance(r, LinComb): check(o == r.value and isinstance(o, int), label, "int result", o, r.value)
        elif isinstance(r, LinCombFxp): check(o == LinCombFxp.remove_scaling(r.lc.value), label, "fxp result", o)
        elif isinstance(r, LinCombBool): check(o == r.lc.value, label, "bool result", o)
        else: check(o is r or o == r, label, "non-secret result not passed through", o, r)
    if plain == "call" and env.on:
        want = fn(*copy.deepcopy(args))
        check(shape(want) == shape(out) and list(leaves(want)) == list(leaves(out)), label, "plain python gives", want, "snark gave", out)

    if not FULL: return

    # I: inputs
    ints = [x for x in leaves(args) if isinstance(x, int)]
    flts = [x for x in leaves(args) if isinstance(x, float)]
    exp_in = ints + [scaled(f) for f in flts]
    n_in = rec["enter"][0] - s0[0]
    check(n_in == len(exp_in), label, "public inputs", n_in, "expected", len(exp_in))
    check([v % P for v in be.pubvals[s0[0]:rec["enter"][0]]] == [v % P for v in exp_in], label, "input values/order")
    check(rec["enter"][1:] == s0[1:], label, "argument conversion added private wires or constraints")
    check(shape(rec["args"]) == shape(tuple(args)), label, "argument structure changed")
    seen_i = [a for a in leaves(rec["args"]) if isinstance(a, LinComb)]
    seen_f = [a for a in leaves(rec["args"]) if isinstance(a, LinCombFxp)]
    check(len(seen_i) == len(ints) and len(seen_f) == len(flts), label, "body saw wrong number of wires")
    for j, a in enumerate(seen_i + [f.lc for f in seen_f]):
        check(a.lc.lc == {s0[0] + j + 1: 1}, label, "argument", j, "is not public wire", s0[0] + j + 1, a.lc.lc)
    for a, b in zip(leaves(rec["args"]), leaves(args)):
        if isinstance(b, int): check(isinstance(a, LinComb) and a.value == b, label, "int arg", b)
        elif isinstance(b, float): check(isinstance(a, LinCombFxp) and a.lc.value == scaled(b), label, "float arg", b)
        else: check(a is b or a == b, label, "non-numeric argument not passed through", b)

    # O: outputs
    res = list(leaves(rec["ret"]))
    secret = [r for r in res if isinstance(r, LinComb)] + [r.lc for r in res if isinstance(r, LinCombFxp)] + \
             [r.lc for r in res if isinstance(r, LinCombBool)]
    p_exit, v_exit, c_exit = rec["exit"]
    n_out = s1[0] - p_exit
    check(n_out == len(secret), label, "public outputs", n_out, "expected", len(secret))
    check([v % P for v in be.pubvals[p_exit:s1[0]]] == [ev(r.lc) for r in secret], label, "output values/order")
    check([v % P for v in be.pubvals[p_exit:s1[0]]] == [r.value % P for r in secret], label, "output values vs .value")
    # N: nothing else (the bodies used here create no public values themselves)
    check(p_exit == rec["enter"][0], label, "test body created public wires?")
    check(s1[0] - s0[0] == len(exp_in) + len(secret), label, "extra public wires")
    expected_public.extend(exp_in)
    expected_public.extend(r.value for r in secret)

    # the honest witness satisfies everything this call added
    check(all_hold(s0[2], s1[2]), label, "recorded witness violates a constraint of this call")
    # tie: any other value on the output wire (even when compensated on wires the
    # wrapper allocated itself after the body) violates a constraint of this call
    post_priv = [-(i + 1) for i in range(v_exit, s1[1])]
    for j, r in enumerate(secret):
        k = p_exit + j + 1
        stats["outputs"] += 1
        if env.name != "top": stats["guarded_outputs"] += 1
        mention = [c for c in be.constraints[c_exit:s1[2]] if any(k in l.lc for l in c)]
        check(len(mention) >= 1, label, "output wire", k, "in no constraint")
        tied = True
        for delta in (1, -1, 2, 12345, P - wire(k) % P if wire(k) % P else 7, random.randrange(1, P)):
            subsets = [()] + [(w,) for w in post_priv] + ([tuple(post_priv)] if len(post_priv) > 1 else [])
            for sub in subsets:
                for sign in (1, -1):
                    over = {k: (wire(k) + delta) % P}
                    for w in sub: over[w] = (wire(w) + sign * delta) % P
                    stats["perturb"] += 1
                    if all_hold(c_exit, s1[2], over): tied = False
                    if sub == (): break
        if env.on:
            check(tied, label, "output", j, "can be changed without violating a constraint")
        else:
            stats["off_outputs"] += 1
            stats["off_tied"] += tied

def check_kwargs(env):
    def f(x, y=2): return x * y
    for call in (lambda: snark(f)(3, y=4), lambda: snark(f)(x=3), lambda: snark(f)([1, 2], y={"a": 1})):
        s0 = snap() if FULL else None
        n0 = rt.num_constraints
        try:
            env.run(call)
            check(False, "kwargs accepted in", env.name)
        except ValueError as e:
            check("keyword" in str(e), "kwargs message", str(e))
        except Exception as e:
            check(False, "kwargs: unexpected exception", repr(e))
        if FULL and isinstance(env, (Top, IgnoreErrors)):
            check(snap() == s0 and rt.num_constraints == n0, "refused call left wires/constraints behind")
        # inside Guard/Branch environments the environment itself allocates its condition wire

# ---------------------------------------------------------------- bodies (work on plain values and on wires)

def cube(x): return x * x * x
def lin(x, y): return 3 * x - y + 7
def ident(*a): return a
def const(x): return (x * 2, 5, "s", None, 2.5)
def nested(a, d): return {"s": a[0] * a[1] + d["k"][0], "t": [a[1], (d["k"][1] * 2,)], "u": ()}
def dup(x, y):
    r = x * y
    return [r, r, (r, x)]
def noargs(): return 7
def fxp(f, g): return f * g + 0.5
def mixed(x, f): return (f * 2.0, x * 2, [f + 1.0, x - 1])
def less(x, y): return [x < y, x * y]
def horner(cs, x):
    acc = 0
    for c in cs: acc = acc * x + c
    return acc
def nothing(x): return None

INTS = [0, 1, -1, 2, -3, 7, 255, -256, 10**30, -(10**30)]
SMALL = [0, 1, -1, 5, -7, 100, 32000, -32000]

def cases():
    for x in INTS: yield ("cube", cube, (x,), "call")
    if FULL:
        for x in (P - 1, P, P + 5, -P - 2, 2 * P + 3): yield ("cube-modp", cube, (x,), "call")
    for x, y in itertools.product([0, 1, -4, 10**20], [0, -1, 9]): yield ("lin", lin, (x, y), "call")
    yield ("ident", ident, (1, [2, (3, {"a": 4, "b": [5]})], "str", None, -6), "call")
    yield ("ident-empty", ident, ([], (), {}), "call")
    yield ("ident-bool", ident, (True, False, [True]), "call")
    yield ("boolarith", lin, (True, False), "call")
    yield ("ident-float", ident, (1.5, [-0.25, 3], {"k": 2.0}), "call")
    for x in (0, -2, 11): yield ("const", const, (x,), "call")
    yield ("nested", nested, ([3, -4], {"k": (5, 6)}), "call")
    yield ("nested0", nested, ([0, 0], {"k": [0, 0]}), "call")
    for x, y in ((0, 0), (3, 4), (-3, 4)): yield ("dup", dup, (x, y), "call")
    yield ("noargs", noargs, (), "call")
    yield ("nothing", nothing, (4,), "call")
    for f, g in ((1.5, 2.0), (-0.25, 4.0), (0.0, 3.5)): yield ("fxp", fxp, (f, g), "call")
    yield ("mixed", mixed, (3, 1.25), "call")
    yield ("mixed-neg", mixed, (-3, -1.25), "call")
    for x, y in ((1, 2), (2, 1), (-5, -5), (100, -100)): yield ("less", less, (x, y), "call")
    yield ("horner", horner, ([1, -2, 3, 4], 3), "call")
    yield ("horner-neg", horner, ((2, 0, -1), -2), "call")
    # bodies with no plain-python counterpart: internal secrets, failing checks in dead branches
    yield ("internal-secret", lambda x: [PrivVal(9) * x, PrivValFxp(0.5), PrivValBool(1), x], (4,), None)
    yield ("internal-assert", lambda x: (x.assert_ne(0), x.assert_lt(100), x + 1)[2], (5,), None)
    yield ("inverse", lambda x: (x * 6) / x, (3,), None)

def deadbranch_cases():
    # assertions that are false, executed only where errors are suppressed (guard off)
    yield ("dead-assert", lambda x: (x.assert_eq(5), x.assert_ne(3), x * x)[2], (3,), None)
    yield ("dead-lt", lambda x, y: (x.assert_lt(y), [x - y, y])[1], (9, 2), None)

# ---------------------------------------------------------------- run

random.seed(17)
for env in ENVS:
    for (label, fn, args, plain) in cases():
        run_case(label, fn, args, env, plain)
    check_kwargs(env)
    if not env.on:
        for (label, fn, args, plain) in deadbranch_cases():
            run_case(label, fn, args, env, plain)

# a wrapped function calling another wrapped function, and a random sequence of calls
def outer(x, y):
    inner = snark(cube)(3)            # plain 27; its wires are public on their own account
    return x * y + inner
if FULL:
    s0 = snap()
    r = snark(outer)(2, 5)
    check(r == 37, "nested snark call result", r)
    check([v for v in be.pubvals[s0[0]:]] == [2, 5, 3, 27, 37], "nested snark call publics", be.pubvals[s0[0]:])
    check(all_hold(s0[2]), "nested snark call constraints")
    expected_public.extend([2, 5, 3, 27, 37])
else:
    check(snark(outer)(2, 5) == 37, "nested snark call result")

pool = list(cases())
for i in range(150):
    label, fn, args, plain = random.choice(pool)
    run_case("seq%d-%s" % (i, label), fn, args, random.choice(ENVS), plain)

if FULL:
    # N, globally: the public part of the witness is exactly what the calls exposed
    check([v % P for v in be.pubvals] == [v % P for v in expected_public], "public witness differs from the expected inputs/outputs")
    check(all_hold(0), "recorded witness violates some constraint")
    check(rt.num_constraints == len(be.constraints), "constraint counter")

    # decode the files the backend writes
    cwd = os.getcwd()
    tmp = tempfile.mkdtemp()
    try:
        os.chdir(tmp)
        be.prove()
        w = open("witness.wtns", "rb").read()
        c = open("circuit.r1cs", "rb").read()
    finally:
        os.chdir(cwd)
        shutil.rmtree(tmp)
    rd = lambda b, o, n: int.from_bytes(b[o:o+n], "little")
    check(w[:4] == b"wtns" and rd(w, 28, 32) == P, "wtns header")
    nw = rd(w, 60, 4)
    wit = [rd(w, 76 + 32 * i, 32) for i in range(nw)]
    check(len(w) == 76 + 32 * nw, "wtns length")
    check(c[:4] == b"r1cs" and rd(c, 28, 32) == P, "r1cs header")
    nvars, npub, ncons = rd(c, 60, 4), rd(c, 64, 4), rd(c, 84, 4)
    check(nvars == nw and npub == len(expected_public) and ncons == len(be.constraints), "r1cs counts", nvars, npub, ncons)
    check(wit[0] == 1 and wit[1:1+npub] == [v % P for v in expected_public], "public prefix of witness.wtns")
    o = 88 + 12
    bad = 0
    for i in range(ncons):
        vals = []
        for part in range(3):
            n = rd(c, o, 4); o += 4
            acc = 0
            for t in range(n):
                acc += wit[rd(c, o, 4)] * rd(c, o + 4, 32); o += 36
            vals.append(acc % P)
        if (vals[0] * vals[1] - vals[2]) % P: bad += 1
    check(bad == 0, "constraints in circuit.r1cs violated by witness.wtns:", bad)
    check(rd(c, o, 4) == 3, "r1cs section 3 follows the constraints")

    # the value-level clauses once more without a constraint-recording backend
    env2 = dict(os.environ); env2.pop("PYSNARK_BACKEND", None)
    sub = subprocess.run([sys.executable, os.path.abspath(__file__), "nobackend"], env=env2, cwd=tempfile.gettempdir(),
                         capture_output=True, text=True)
    print(sub.stdout.strip())
    check(sub.returncode == 0, "nobackend run failed", sub.stderr[-500:])

print("[%s] calls=%d outputs=%d (in guard/branch context: %d) perturbations=%d; guard-off outputs still tied: %d/%d; failures=%d"
      % (MODE, stats["calls"], stats["outputs"], stats["guarded_outputs"], stats["perturb"], stats["off_tied"],
         stats["off_outputs"], len(failures)))
sys.exit(1 if failures else 0)
