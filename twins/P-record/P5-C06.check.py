# Check for change P (one-hot selection bits for secret array indices).
#
# Property C06: the constraint system does not depend on the values processed.
# We record every call the runtime makes to the backend (variable allocations
# and constraints, in order, with all coefficients) and compare the recordings
# of many runs of the same program on different inputs:
#   1. valid/valid pairs, exhaustively over all indices of arrays of length 1..5
#      (1-D and 2-D, get and set, int / LinComb / Fxp / Bool contents, public
#      and secret indices, ArrayRow, inside branches for both outcomes of the
#      secret condition, at several bitlengths);
#   2. valid/invalid pairs with error checks disabled (index out of range);
#   3. the recorded witness of every valid run satisfies every recorded
#      constraint and gives the right answer;
#   4. brute force: for the gadget on its own, the assignments of the selection
#      witnesses over {0,1,2,p-1} that satisfy the recorded constraints are
#      exactly the one-hot vector of the index (none if the index is out of
#      range), i.e. the new encoding accepts what the old one accepted.
# Exits 0 iff everything was observed to hold.

import itertools
import os
import sys

os.environ["PYSNARK_BACKEND"] = "snarkjs"

import pysnark.runtime as rt
rt.autoprove = False
import pysnark.snarkjsbackend as be

from pysnark.runtime import PrivVal, PubVal, LinComb, ignore_errors
from pysnark.boolean import PrivValBool, LinCombBool
from pysnark.fixedpoint import PrivValFxp, LinCombFxp
from pysnark.array import Array, ArrayRow
from pysnark.branching import if_then_else

assert rt.backend is be, "wrong backend in effect"
P = be.get_modulus()

# ---------------------------------------------------------------- recording

events = []
_privval, _pubval, _add_constraint = be.privval, be.pubval, be.add_constraint

def lcfp(lc):
    """ exact content of a backend linear combination: variables in order, coefficients mod p """
    return tuple((k, v % P) for (k, v) in lc.lc.items())

def privval(val):
    events.append(("priv",))
    return _privval(val)

def pubval(val):
    events.append(("pub",))
    return _pubval(val)

def add_constraint(v, w, y):
    events.append(("con", lcfp(v), lcfp(w), lcfp(y)))
    return _add_constraint(v, w, y)

be.privval, be.pubval, be.add_constraint = privval, pubval, add_constraint

def resfp(x):
    """ wire expressions of a result """
    if isinstance(x, LinComb): return ("lc", lcfp(x.lc))
    if isinstance(x, LinCombBool): return ("bool", lcfp(x.lc.lc))
    if isinstance(x, LinCombFxp): return ("fxp", lcfp(x.lc.lc))
    if isinstance(x, ArrayRow): return ("row", tuple(resfp(y) for y in x.arr))
    if isinstance(x, Array): return ("arr", tuple(resfp(y) for y in x.arr))
    if isinstance(x, (list, tuple)): return ("list", tuple(resfp(y) for y in x))
    if isinstance(x, int): return ("int", x)
    raise TypeError("unexpected result " + repr(x))

def resval(x):
    if isinstance(x, LinComb): return x.value
    if isinstance(x, (LinCombBool, LinCombFxp)): return x.lc.value
    if isinstance(x, Array): return [resval(y) for y in x.arr]
    if isinstance(x, (list, tuple)): return [resval(y) for y in x]
    return x

class Run:
    pass

def run(prog, args, ignore=False):
    """ run prog(*args) on a fresh constraint system, return what the backend saw """
    del events[:], be.privvals[:], be.pubvals[:], be.constraints[:]
    rt.guard = None
    LinComb.ONE = LinComb.ONE_SAFE
    rt.num_constraints = 0
    ignore_errors(ignore)
    try:
        res = prog(*args)
    finally:
        ignore_errors(False)
    assert rt.guard is None and LinComb.ONE is LinComb.ONE_SAFE, "guard left behind"
    r = Run()
    r.events = list(events)
    r.res = resfp(res)
    r.val = resval(res)
    r.pub = list(be.pubvals)
    r.priv = list(be.privvals)
    r.args = args
    r.ignore = ignore
    return r

def evallc(fp, pub, priv):
    tot = 0
    for (k, c) in fp:
        tot += c * (1 if k == 0 else pub[k-1] if k > 0 else priv[-k-1])
    return tot % P

def violated(r, pub=None, priv=None):
    """ indices of the recorded constraints the given witness does not satisfy """
    pub = r.pub if pub is None else pub
    priv = r.priv if priv is None else priv
    cons = [e for e in r.events if e[0] == "con"]
    return [i for (i, (_, a, b, c)) in enumerate(cons)
            if (evallc(a, pub, priv) * evallc(b, pub, priv) - evallc(c, pub, priv)) % P != 0]

failures = []
nruns = 0
ncompared = 0

def fail(msg):
    failures.append(msg)
    if len(failures) <= 25: print("FAIL:", msg)

def describe_difference(a, b):
    if len(a.events) != len(b.events):
        return "%d vs %d backend calls" % (len(a.events), len(b.events))
    for (i, (x, y)) in enumerate(zip(a.events, b.events)):
        if x != y: return "backend call #%d differs: %r vs %r" % (i, x, y)
    if a.res != b.res: return "result wires differ: %r vs %r" % (a.res, b.res)
    return "no difference"

def same_system(name, runs):
    """ all runs must have produced the identical constraint system and result wires """
    global ncompared
    ref = runs[0]
    for r in runs[1:]:
        ncompared += 1
        if r.events != ref.events or r.res != ref.res:
            fail("%s: inputs %r%s vs %r%s: %s" % (name, ref.args, " (ignore_errors)" if ref.ignore else "",
                 r.args, " (ignore_errors)" if r.ignore else "", describe_difference(ref, r)))

def family(name, prog, valid, invalid=(), expect=None):
    """
    prog run on all valid inputs (errors checked) and all invalid inputs (errors
    ignored) must give one and the same constraint system; valid runs must have a
    satisfying witness and, if given, the expected result value
    """
    global nruns
    runs = []
    for args in valid:
        try:
            r = run(prog, args)
        except Exception as e:
            fail("%s: valid input %r did not complete: %r" % (name, args, e))
            continue
        nruns += 1
        runs.append(r)
        bad = violated(r)
        if bad: fail("%s: witness of valid input %r violates constraints %r" % (name, args, bad))
        if expect is not None and r.val != expect(*args):
            fail("%s: input %r gave %r, expected %r" % (name, args, r.val, expect(*args)))
        # also with errors ignored the same system should come out
        r2 = run(prog, args, ignore=True)
        nruns += 1
        runs.append(r2)
    for args in invalid:
        try:
            run(prog, args)
            fail("%s: invalid input %r was accepted" % (name, args))
        except (IndexError, AssertionError, ValueError):
            pass
        try:
            r = run(prog, args, ignore=True)
        except Exception as e:
            fail("%s: invalid input %r did not complete with errors ignored: %r" % (name, args, e))
            continue
        nruns += 1
        runs.append(r)
        if not violated(r): fail("%s: invalid input %r has a satisfying witness" % (name, args))
    if runs: same_system(name, runs)
    return runs

# ----------------------------------------------------------------- programs

def outside(n):
    return [-n-1, -2, -1, n, n+1, 2*n+3, 1000]

def check_all(tag):
    for n in range(1, 6):
        ints = [10 + 3*i for i in range(n)]
        alts = [-7 + 5*i*i for i in range(n)]

        # read from an array of public constants
        family("%s get/int n=%d" % (tag, n), lambda i: Array(ints)[PrivVal(i)],
               [(i,) for i in range(n)], [(i,) for i in outside(n)], expect=lambda i: ints[i])

        # read with a one-element tuple and with a public-input index
        family("%s get/int/tuple n=%d" % (tag, n), lambda i: Array(ints)[(PrivVal(i),)],
               [(i,) for i in range(n)], [(i,) for i in outside(n)], expect=lambda i: ints[i])
        family("%s get/int/pubidx n=%d" % (tag, n), lambda i: Array(ints)[PubVal(i)],
               [(i,) for i in range(n)], [(i,) for i in outside(n)], expect=lambda i: ints[i])

        # read from an array of witnesses, two different contents
        def get_lc(i, vals): return Array([PrivVal(v) for v in vals])[PrivVal(i)]
        family("%s get/lc n=%d" % (tag, n), get_lc,
               [(i, v) for i in range(n) for v in (ints, alts)], [(i, ints) for i in outside(n)],
               expect=lambda i, v: v[i])

        # fixed-point and boolean contents
        def get_fxp(i, vals): return Array([PrivValFxp(float(v)) for v in vals])[PrivVal(i)]
        family("%s get/fxp n=%d" % (tag, n), get_fxp,
               [(i, v) for i in range(n) for v in (ints, alts)], [(i, ints) for i in outside(n)],
               expect=lambda i, v: v[i] << 8)

        # write a witness / a constant, return the whole array
        def set_lc(i, vals, nw):
            arr = Array([PrivVal(v) for v in vals])
            arr[PrivVal(i)] = PrivVal(nw)
            return arr
        family("%s set/lc n=%d" % (tag, n), set_lc,
               [(i, v, nw) for i in range(n) for v in (ints, alts) for nw in (0, 99)],
               [(i, ints, 5) for i in outside(n)],
               expect=lambda i, v, nw: [nw if j == i else v[j] for j in range(n)])

        def set_int(i):
            arr = Array(ints)
            arr[PrivVal(i)] = 7
            return arr
        family("%s set/int n=%d" % (tag, n), set_int, [(i,) for i in range(n)], [(i,) for i in outside(n)],
               expect=lambda i: [7 if j == i else ints[j] for j in range(n)])

        # write and read back at another secret position
        def set_get(i, j, nw):
            arr = Array(ints)
            arr[PrivVal(i)] = PrivVal(nw)
            return [arr[PrivVal(j)], arr[n-1]]
        family("%s set+get n=%d" % (tag, n), set_get,
               [(i, j, nw) for i in range(n) for j in range(n) for nw in (0, 99)],
               [(i, j, 1) for (i, j) in ((0, n), (n, 0), (-1, -1))],
               expect=lambda i, j, nw: [nw if j == i else ints[j], nw if n-1 == i else ints[n-1]])

        # the secret condition of a branch: the index in the branch not taken may be anything
        def branch(c, i, j):
            arr = Array(ints)
            return if_then_else(PrivValBool(c), lambda: arr[PrivVal(i)], lambda: arr[PrivVal(j)])
        anyix = list(range(n)) + [-1, n, 77]
        family("%s branch n=%d" % (tag, n), branch,
               [(1, i, j) for i in range(n) for j in anyix] + [(0, i, j) for i in anyix for j in range(n)],
               [(1, n, 0), (0, 0, -1)],
               expect=lambda c, i, j: ints[i] if c else ints[j])

        # writing inside a branch
        def branch_set(c, i, nw):
            arr = Array([PrivVal(v) for v in ints])
            def wr():
                cp = Array(arr.arr)
                cp[PrivVal(i)] = PrivVal(nw)
                return cp.arr
            return if_then_else(PrivValBool(c), wr, list(arr.arr))
        family("%s branch/set n=%d" % (tag, n), branch_set,
               [(1, i, nw) for i in range(n) for nw in (3, -3)] + [(0, i, 3) for i in anyix],
               [(1, n, 3), (1, -1, 3)],
               expect=lambda c, i, nw: [nw if (c and j == i) else ints[j] for j in range(n)])

    # nested branches (guards are combined)
    ints = [4, 5, 6]
    def nested(c, d, i):
        arr = Array(ints)
        return if_then_else(PrivValBool(c), lambda: if_then_else(PrivValBool(d), lambda: arr[PrivVal(i)], 1), 2)
    family("%s nested" % tag, nested,
           [(1, 1, i) for i in range(3)] + [(c, d, i) for (c, d) in ((0, 0), (0, 1), (1, 0)) for i in (-1, 0, 1, 2, 3)],
           [(1, 1, 3)], expect=lambda c, d, i: (ints[i] if d else 1) if c else 2)

    # matrices
    for (n, m) in ((1, 1), (2, 3), (3, 2), (4, 4)):
        rows = [[100*i + j for j in range(m)] for i in range(n)]
        def mat(): return Array([Array(list(r)) for r in rows])
        cells = [(i, j) for i in range(n) for j in range(m)]
        badcells = [(n, 0), (0, m), (-1, 0), (0, -1), (n, m)]

        family("%s mat/get %dx%d" % (tag, n, m), lambda i, j: mat()[PrivVal(i), PrivVal(j)],
               cells, badcells, expect=lambda i, j: rows[i][j])
        family("%s mat/get/chained %dx%d" % (tag, n, m), lambda i, j: mat()[PrivVal(i)][PrivVal(j)],
               cells, badcells, expect=lambda i, j: rows[i][j])
        family("%s mat/getrow %dx%d" % (tag, n, m), lambda i: mat()[PrivVal(i)],
               [(i,) for i in range(n)], [(n,), (-1,)], expect=lambda i: rows[i])
        family("%s mat/get/pubrow %dx%d" % (tag, n, m), lambda j: mat()[n-1, PrivVal(j)],
               [(j,) for j in range(m)], [(m,), (-1,)], expect=lambda j: rows[n-1][j])
        family("%s mat/get/pubcol %dx%d" % (tag, n, m), lambda i: mat()[PrivVal(i), m-1],
               [(i,) for i in range(n)], [(n,), (-1,)], expect=lambda i: rows[i][m-1])

        def mat_set(i, j, nw):
            a = mat()
            a[PrivVal(i), PrivVal(j)] = PrivVal(nw)
            return a
        family("%s mat/set %dx%d" % (tag, n, m), mat_set,
               [(i, j, nw) for (i, j) in cells for nw in (0, -8)], [(i, j, 1) for (i, j) in badcells],
               expect=lambda i, j, nw: [[nw if (a, b) == (i, j) else rows[a][b] for b in range(m)] for a in range(n)])

        def row_set(i, nw):
            a = mat()
            a[PrivVal(i)] = Array([PrivVal(nw + k) for k in range(m)])
            return a
        family("%s mat/setrow %dx%d" % (tag, n, m), row_set,
               [(i, nw) for i in range(n) for nw in (0, 50)], [(n, 0), (-1, 0)],
               expect=lambda i, nw: [[nw + b if a == i else rows[a][b] for b in range(m)] for a in range(n)])

for bl in (16, 4, 40):
    rt.bitlength = bl
    check_all("bitlength=%d" % bl)
rt.bitlength = 16

# ------------------------------------------------- brute force on the gadget

def brute(n):
    """
    Array(ints)[PrivVal(i)] allocates the index and then only the n selection
    bits. For every index (in and out of range) try all assignments of the bits
    over {0,1,2,p-1}: the satisfying ones must be exactly one-hot(i).
    """
    global nruns
    ints = [10 + 3*i for i in range(n)]
    for i in range(-2, n + 2):
        r = run(lambda i: Array(ints)[PrivVal(i)], (i,), ignore=True)
        nruns += 1
        if len(r.priv) != n + 1 or r.priv[0] != i:
            fail("brute n=%d: unexpected witness layout %r" % (n, r.priv))
            continue
        if sum(1 for e in r.events if e[0] == "con") != n + 2:
            fail("brute n=%d: gadget does not cost n+2 constraints" % n)
        sat = []
        for bits in itertools.product((0, 1, 2, P - 1), repeat=n):
            if not violated(r, priv=[i] + list(bits)): sat.append(bits)
        want = [tuple(1 if j == i else 0 for j in range(n))] if 0 <= i < n else []
        if sat != want:
            fail("brute n=%d index %d: satisfying selections %r, expected %r" % (n, i, sat, want))
        for bits in sat:
            if evallc(r.res[1], r.pub, [i] + list(bits)) != ints[i] % P:
                fail("brute n=%d index %d: selected value is wrong" % (n, i))

for n in range(1, 6):
    brute(n)

print("%d runs, %d pairwise comparisons of constraint systems, %d failures" % (nruns, ncompared, len(failures)))
sys.exit(1 if failures else 0)
