# Check for C07 ("a false guard makes code inert; a true guard is transparent") on a tree in which
# guarded linear / nonzero assertions are encoded with the guard multiplied into the constraint.
#
# Phase A  runs many bodies (every operator and assertion, composed and nested) on a grid of operand
#          values (valid and invalid ones) unguarded, under true guards, under false guards and under
#          all mixtures at nesting depth 2, with the snarkjs backend recording the constraints:
#            - all guards true : same values / same error type and message as the unguarded run
#            - some guard false: no exception, recorded witness satisfies every recorded constraint
#            - the guard state is restored, the circuit does not depend on the operand values
# Phase B  takes the recorded circuits (constraints only), reduces them modulo a small prime q and
#          brute-forces ALL witnesses:
#            - all guards true : the set of (inputs, outputs) that can be completed to a satisfying
#                                assignment is exactly that of the unguarded circuit (same enforcement)
#            - some guard false: every input can be completed to a satisfying assignment
# Phase C  same brute force for if_then_else(c, <lazy body>, z) and if_then_else(c, z, <lazy body>):
#          in every satisfying assignment where the lazy branch is not selected the output is z, and
#          where it is selected the outputs are those of the unguarded body.
#
# Division by a zero-valued divisor is not exercised: the library raises for it before looking at the
# guard (unchanged, not part of the mechanism this check is about).  This also excludes x >> y with a
# secret y, whose divisor 2**y is computed as guard**... = 0 under a false guard.
#
# exit 0: property observed everywhere; 1 otherwise

import os, sys, itertools

os.environ["PYSNARK_BACKEND"] = "snarkjs"

import pysnark.snarkjsbackend as be
import pysnark.runtime as rt

rt.autoprove = False

from pysnark.runtime import PrivVal, LinComb, guarded
from pysnark.boolean import PrivValBool, LinCombBool
import pysnark.fixedpoint
from pysnark.fixedpoint import LinCombFxp
from pysnark.branching import if_then_else

assert rt.backend is be, "snarkjs backend expected"
P = be.get_modulus()

failures = []
def fail(*args):
    msg = " ".join(str(a) for a in args)
    if len(failures) < 40: print("FAIL:", msg)
    failures.append(msg)

# ---------------------------------------------------------------------------------------------
# recording

def reset():
    del be.constraints[:]
    del be.privvals[:]
    del be.pubvals[:]
    rt.guard = None
    rt._ignore_errors = False
    LinComb.ONE = LinComb.ONE_SAFE

def lcdict(obj):
    if isinstance(obj, (LinCombBool, LinCombFxp)): obj = obj.lc
    return dict(obj.lc.lc)

def flat(res):
    """ list of the wires in a result """
    if res is None: return []
    if isinstance(res, (list, tuple)): return [w for r in res for w in flat(r)]
    if isinstance(res, (LinComb, LinCombBool, LinCombFxp)): return [res]
    raise TypeError("unexpected result " + repr(res))

def value(w):
    if isinstance(w, (LinCombBool, LinCombFxp)): w = w.lc
    return w.value

def ev(d, priv, pub, q):
    return sum(co * (1 if k == 0 else (pub[k-1] if k > 0 else priv[-k-1])) for (k, co) in d.items()) % q

def unsatisfied(q=None):
    q = P if q is None else q
    return [i for (i, (a, b, c)) in enumerate(be.constraints)
            if (ev(a.lc, be.privvals, be.pubvals, q) * ev(b.lc, be.privvals, be.pubvals, q) - ev(c.lc, be.privvals, be.pubvals, q)) % q != 0]

def structure():
    return [tuple(tuple(sorted((k, co % P) for (k, co) in part.lc.items() if co % P != 0)) for part in con) for con in be.constraints]

def run(body, operands, guards, check_state=True):
    """ Run body(*wires) with the given operand values under guards (outermost first; () = unguarded).
        Returns (outcome, circuit) where outcome = ('ok', values) / ('err', type, message) """
    reset()
    gs = [PrivValBool(g) for g in guards]
    ws = [PrivVal(v) for v in operands]
    nin = len(be.privvals)
    f = lambda: body(*ws)
    for g in reversed(gs): f = guarded(g.lc)(f)
    outs = None
    try:
        res = flat(f())
        outcome = ('ok', [value(w) for w in res])
        outs = [lcdict(w) for w in res]
    except Exception as e:
        outcome = ('err', type(e).__name__, str(e))
    if check_state and (rt.guard is not None or rt._ignore_errors or LinComb.ONE is not LinComb.ONE_SAFE):
        fail("guard state not restored after", body.__name__, operands, guards)
    circuit = dict(cons=[tuple(dict(p.lc) for p in c) for c in be.constraints], nin=nin, npriv=len(be.privvals),
                   npub=len(be.pubvals), outs=outs, nguards=len(guards))
    return outcome, circuit

# ---------------------------------------------------------------------------------------------
# bodies

def seq(*args): return args[-1]

def fx(x): return LinCombFxp(x)

BODIES = [
    ("assert_zero",      lambda x, y: x.assert_zero()),
    ("assert_zero_lin",  lambda x, y: (2 * x - y + 1).assert_zero()),
    ("assert_nonzero",   lambda x, y: x.assert_nonzero()),
    ("assert_nonzero_d", lambda x, y: (x - y).assert_nonzero()),
    ("assert_eq",        lambda x, y: x.assert_eq(y)),
    ("assert_eq_const",  lambda x, y: x.assert_eq(3)),
    ("assert_ne",        lambda x, y: x.assert_ne(y)),
    ("assert_ne_const",  lambda x, y: x.assert_ne(2)),
    ("assert_lt",        lambda x, y: x.assert_lt(y)),
    ("assert_le",        lambda x, y: x.assert_le(y)),
    ("assert_gt",        lambda x, y: x.assert_gt(y)),
    ("assert_ge",        lambda x, y: x.assert_ge(y)),
    ("assert_positive",  lambda x, y: x.assert_positive()),
    ("assert_range",     lambda x, y: x.assert_range(1, y)),
    ("to_bits",          lambda x, y: x.to_bits()),
    ("truediv",          lambda x, y: x / y),
    ("truediv_int",      lambda x, y: x / 3),
    ("floordiv",         lambda x, y: x // y),
    ("mod",              lambda x, y: x % y),
    ("divmod_int",       lambda x, y: divmod(x, 3)),
    ("eq",               lambda x, y: x == y),
    ("ne",               lambda x, y: x != y),
    ("lt",               lambda x, y: x < y),
    ("le",               lambda x, y: x <= y),
    ("gt",               lambda x, y: x > y),
    ("ge",               lambda x, y: x >= y),
    ("check_positive",   lambda x, y: x.check_positive()),
    ("mul",              lambda x, y: x * y),
    ("and",              lambda x, y: x & y),
    ("or",               lambda x, y: x | y),
    ("xor",              lambda x, y: x ^ y),
    ("invert",           lambda x, y: ~x),
    ("abs",              lambda x, y: abs(x)),
    ("pow_int",          lambda x, y: [x ** 0, x ** 3]),
    ("pow_lc",           lambda x, y: x ** y),
    ("lshift",           lambda x, y: x << y),
    ("rshift_int",       lambda x, y: x >> 1),
    ("bool_ops",         lambda x, y: [(x < y) & (x != y), (x < y) | (y == 2), ~(x == y), (x < y) ^ (x <= y)]),
    ("bool_asserts",     lambda x, y: seq((x < y).assert_eq(y == 3), (x == y).assert_zero(), (x != y).assert_nonzero())),
    ("composed",         lambda x, y: seq(x.assert_nonzero(), (x - y).assert_zero(), (y / (x * x + 1)) * x + (x > y))),
    ("composed2",        lambda x, y: seq((x - 1).assert_nonzero(), y.assert_nonzero(), (x + y - 4).assert_zero(), x.assert_lt(y), x * y)),
    ("ite_lazy",         lambda x, y: if_then_else(x <= y,
                                        lambda: seq(x.assert_nonzero(), (y - x).to_bits(), (y - x) / 2),
                                        lambda: seq((x - y - 2).assert_positive(), (x - y - 3).assert_nonzero(), x - y))),
    ("ite_nested",       lambda x, y: if_then_else(x != 0,
                                        lambda: if_then_else(y != x, lambda: seq((y - 1).assert_zero(), y / x), lambda: seq(x.assert_eq(2), x * x)),
                                        lambda: seq(y.assert_nonzero(), y.assert_lt(3), y + 1))),
    ("fxp_mul",          lambda x, y: fx(x) * fx(y)),
    ("fxp_div",          lambda x, y: fx(x) / fx(y)),
    ("fxp_lt",           lambda x, y: fx(x) < fx(y)),
    ("fxp_assert",       lambda x, y: seq(fx(x).assert_range(0, 2.5), fx(y).assert_nonzero(), fx(x).assert_ne(fx(y)))),
]
for (nm, fn) in BODIES: fn.__name__ = nm

ZERODIV = {"truediv": 1, "floordiv": 1, "mod": 1, "fxp_div": 1, "ite_nested": 0}  # operand that must not be 0 (see header)

# ---------------------------------------------------------------------------------------------
# Phase A

def phase_a():
    rt.bitlength = 3
    pysnark.fixedpoint.resolution = 1
    dom = list(range(-3, 10))
    nruns = 0
    for (nm, body) in BODIES:
        shapes = {}
        for (xv, yv) in itertools.product(dom, dom):
            if nm in ZERODIV and (xv, yv)[ZERODIV[nm]] == 0: continue
            if nm == "ite_nested" and xv == 0: continue
            ref, _ = run(body, (xv, yv), ())
            if ref[0] == 'ok' and unsatisfied():
                fail(nm, (xv, yv), "unguarded run without error leaves constraints unsatisfied")
            if ref[0] == 'ok':
                if shapes.setdefault((), structure()) != structure(): fail(nm, (xv, yv), "unguarded circuit depends on values")
            for guards in [(1,), (0,), (1, 1), (1, 0), (0, 1), (0, 0)]:
                out, _ = run(body, (xv, yv), guards)
                nruns += 1
                if all(guards):
                    if out != ref:
                        fail(nm, (xv, yv), guards, "true guard is not transparent:", out, "vs unguarded", ref)
                else:
                    if out[0] != 'ok':
                        fail(nm, (xv, yv), guards, "raised under a false guard:", out)
                if out[0] == 'ok':
                    bad = unsatisfied()
                    if bad: fail(nm, (xv, yv), guards, "recorded witness violates constraints", bad[:5], "of", len(be.constraints))
                    if shapes.setdefault(len(guards), structure()) != structure():
                        fail(nm, (xv, yv), guards, "guarded circuit depends on values")
    print("phase A: %d guarded runs over %d bodies" % (nruns, len(BODIES)))

# ---------------------------------------------------------------------------------------------
# brute force over a small field

def solutions(circ, inputs, q):
    """ all assignments of the private wires of circ that extend inputs and satisfy every constraint mod q """
    nin, npriv = circ["nin"], circ["npriv"]
    assert circ["npub"] == 0 and len(inputs) == nin
    levels = [[] for _ in range(npriv + 1)]
    for con in circ["cons"]:
        m = max([-k for part in con for k in part if k < 0], default=0)
        levels[max(m, nin)].append(tuple([(k, co % q) for (k, co) in part.items()] for part in con))
    vals = list(inputs) + [0] * (npriv - nin)
    def e(part): return sum(co * (1 if k == 0 else vals[-k-1]) for (k, co) in part)
    def ok(level): return all((e(a) * e(b) - e(c)) % q == 0 for (a, b, c) in levels[level])
    def rec(i):
        if i == npriv:
            yield list(vals)
            return
        for v in range(q):
            vals[i] = v
            if ok(i + 1): yield from rec(i + 1)
    if ok(nin): yield from rec(nin)

def outputs(circ, sol, q):
    return tuple(ev(d, sol, [], q) for d in circ["outs"])

def record(body, noperands, nguards):
    """ circuit of body under nguards guards; recorded under false guards / error suppression, which
        never raise and, as phase A checked, give the same circuit as any other run """
    if nguards == 0:
        reset()
        rt._ignore_errors = True
        gs = []
        ws = [PrivVal(1) for _ in range(noperands)]
        nin = len(be.privvals)
        res = flat(body(*ws))
        circ = dict(cons=[tuple(dict(p.lc) for p in c) for c in be.constraints], nin=nin, npriv=len(be.privvals),
                    npub=len(be.pubvals), outs=[lcdict(w) for w in res], nguards=0)
        reset()
        return circ
    out, circ = run(body, (1,) * noperands, (0,) * nguards)
    assert out[0] == 'ok', out
    return circ

SMALL = [
    ("assert_zero",     lambda x, y: x.assert_zero()),
    ("assert_zero_lin", lambda x, y: (2 * x - y + 1).assert_zero()),
    ("assert_nonzero",  lambda x, y: x.assert_nonzero()),
    ("assert_eq",       lambda x, y: x.assert_eq(y)),
    ("assert_ne",       lambda x, y: x.assert_ne(y)),
    ("assert_ne_const", lambda x, y: x.assert_ne(2)),
    ("assert_lt",       lambda x, y: x.assert_lt(y)),
    ("assert_positive", lambda x, y: x.assert_positive()),
    ("assert_range",    lambda x, y: x.assert_range(1, y)),
    ("to_bits",         lambda x, y: x.to_bits()),
    ("truediv",         lambda x, y: x / y),
    ("divmod",          lambda x, y: divmod(x, y)),
    ("eq",              lambda x, y: x == y),
    ("lt",              lambda x, y: x < y),
    ("mul",             lambda x, y: x * y),
    ("and",             lambda x, y: x & y),
    ("two_zero",        lambda x, y: seq(x.assert_zero(), y.assert_zero())),
    ("zero_nonzero",    lambda x, y: seq((x - y).assert_zero(), y.assert_nonzero(), x * y)),
    ("nz_nz_eq",        lambda x, y: seq(x.assert_nonzero(), (y - 1).assert_nonzero(), (x + y).assert_eq(3), x / y)),
    ("bool_asserts",    lambda x, y: seq((x == y).assert_zero(), (x != 2).assert_nonzero(), (x != y) & (y == 1))),
    ("ite_lazy",        lambda x, y: if_then_else(x == y, lambda: seq(x.assert_nonzero(), x * x), lambda: seq((x - 1).assert_zero(), y.assert_nonzero(), y / x))),
]
for (nm, fn) in SMALL: fn.__name__ = nm

def phase_b(q=7):
    rt.bitlength = 2
    nsolved = 0
    for (nm, body) in SMALL:
        cu = record(body, 2, 0)
        for nguards in (1, 2):
            cg = record(body, 2, nguards)
            for (xv, yv) in itertools.product(range(q), range(q)):
                want = set(outputs(cu, s, q) for s in solutions(cu, (xv, yv), q))
                for guards in itertools.product((0, 1), repeat=nguards):
                    nsolved += 1
                    if all(guards):
                        got = set(outputs(cg, s, q) for s in solutions(cg, guards + (xv, yv), q))
                        if got != want:
                            fail(nm, "mod", q, "x,y =", (xv, yv), "guards", guards, ": guarded circuit admits outputs", sorted(got), "but unguarded circuit", sorted(want))
                    else:
                        if next(solutions(cg, guards + (xv, yv), q), None) is None:
                            fail(nm, "mod", q, "x,y =", (xv, yv), "guards", guards, ": no witness satisfies the circuit although a guard is false")
    print("phase B: %d input assignments solved exhaustively mod %d" % (nsolved, q))

LAZY = [
    ("nz_sq",   lambda x, y: seq(x.assert_nonzero(), x * x)),
    ("z_add",   lambda x, y: seq((x - y).assert_zero(), x + 1)),
    ("div",     lambda x, y: x / y),
    ("ne_eq",   lambda x, y: seq(x.assert_ne(y), (x + y).assert_eq(5), y - x)),
    ("bits",    lambda x, y: seq(x.to_bits(), x + y)),
    ("eqz",     lambda x, y: (x == y) * 1),
]
for (nm, fn) in LAZY: fn.__name__ = nm

def phase_c(q=5):
    rt.bitlength = 2
    nsolved = 0
    for (nm, body) in LAZY:
        cu = record(body, 2, 0)
        for lazy_is_true in (True, False):
            if lazy_is_true:
                sel = lambda c, x, y, z: if_then_else(LinCombBool(c), lambda: body(x, y), z)
            else:
                sel = lambda c, x, y, z: if_then_else(LinCombBool(c), z, lambda: body(x, y))
            sel.__name__ = "select_" + nm
            reset()
            rt._ignore_errors = True
            ws = [PrivVal(0), PrivVal(1), PrivVal(1), PrivVal(0)]
            res = sel(*ws)
            circ = dict(cons=[tuple(dict(p.lc) for p in c) for c in be.constraints], nin=4, npriv=len(be.privvals),
                        npub=len(be.pubvals), outs=[lcdict(res)], nguards=0)
            reset()
            for (cv, xv, yv, zv) in itertools.product((0, 1), range(q), range(q), range(q)):
                nsolved += 1
                got = set(outputs(circ, s, q) for s in solutions(circ, (cv, xv, yv, zv), q))
                if bool(cv) == lazy_is_true:
                    want = set(outputs(cu, s, q) for s in solutions(cu, (xv, yv), q))
                    if got != want: fail(sel.__name__, "lazy branch selected,", (cv, xv, yv, zv), ": outputs", sorted(got), "but unguarded body gives", sorted(want))
                else:
                    if got != {(zv,)}: fail(sel.__name__, "lazy branch not selected,", (cv, xv, yv, zv), ": outputs", sorted(got), "instead of exactly", zv)
    print("phase C: %d selections solved exhaustively mod %d" % (nsolved, q))

phase_a()
phase_b()
phase_c()

if failures:
    print("%d FAILURES" % len(failures))
    sys.exit(1)
print("OK: property C07 observed to hold everywhere")
sys.exit(0)
