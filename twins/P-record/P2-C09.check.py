#!/usr/bin/env python
"""
Evidence program for change P (nested guards are products, pysnark/runtime.py add_guard).

Checks property C09 on the part of the library that change touches: selection with lazily
evaluated branches (if_then_else with callables) and runtime.guarded blocks, nested up to three
deep, for every combination of the secret conditions, with values in the branches that are NOT
taken that are out of range / negative / would fail an assertion / are not divisible.

For every program and every input it checks
  1. the resulting values equal what the same program gives with native `if` on plain ints;
  2. the guard in force inside every block has value 1 exactly when native Python would have
     executed that block, and 0 otherwise (i.e. nested guard == AND of the enclosing conditions);
  3. EVERY constraint emitted (recorded by the snarkjs backend) holds, modulo the field prime,
     on the recorded witness;
  4. the emitted constraint system (all coefficients of all constraints, wire numbering included)
     is identical for all inputs of the program, i.e. independent of the branches taken;
  5. a violated assertion in a block that IS taken (traced with ignore_errors) leaves at least
     one constraint violated, while the same assertion in a block that is not taken does not:
     the cheaper guard still switches constraints on and off correctly;
  6. circuit.r1cs / witness.wtns as written by the backend decode to a satisfied system;
  7. the values (1, 2) are the same under the nobackend backend (run in a subprocess) and with
     ignore_errors(True) set by the caller.
Exit status 0 iff everything held.
"""
import os, sys, itertools, subprocess, tempfile, shutil, struct

NOBACKEND = "--nobackend" in sys.argv
os.environ["PYSNARK_BACKEND"] = "nobackend" if NOBACKEND else "snarkjs"

import pysnark.runtime as rt
rt.autoprove = False
from pysnark.runtime import PrivVal, PubVal, LinComb, guarded, ignore_errors
from pysnark.boolean import LinCombBool
from pysnark.branching import if_then_else

if not NOBACKEND:
    import pysnark.snarkjsbackend as be
    P = be.snarkjsp

failures = []
def fail(msg):
    failures.append(msg)
    if len(failures) <= 25: print("FAIL:", msg)

# ---------------------------------------------------------------- constraint evaluation
def ev(lc):
    s = 0
    for k, c in lc.lc.items():
        v = 1 if k == 0 else (be.pubvals[k-1] if k > 0 else be.privvals[-k-1])
        s += c*v
    return s % P

def violated():
    return [i for i, (v, w, y) in enumerate(be.constraints) if (ev(v)*ev(w) - ev(y)) % P]

def signature():
    def norm(lc): return tuple(sorted((k, c % P) for k, c in lc.lc.items() if c % P))
    return (len(be.privvals), len(be.pubvals), tuple((norm(v), norm(w), norm(y)) for v, w, y in be.constraints))

def reset():
    if NOBACKEND: return
    be.constraints.clear(); be.privvals.clear(); be.pubvals.clear()

# ---------------------------------------------------------------- block log (guard values)
LOG = []
def mark(tag):
    """ called at the start of a block: oblivious version logs the guard value, native logs 1 """
    g = rt.guard
    LOG.append((tag, 1 if g is None else g.value, rt.is_guard()))

class Native:
    """ native runs log which blocks were executed """
    def __init__(self): self.seen = []
    def mark(self, tag): self.seen.append(tag)

def popcount(v, n): return sum((v >> i) & 1 for i in range(n))

# ---------------------------------------------------------------- programs
# each program: (name, domain, oblivious(fn of LinCombs), native(fn of ints, Native))
def o_two(x, y):
    def t():
        mark("T")
        def tt(): mark("TT"); return sum(x.to_bits(3))
        def tf(): mark("TF"); return LinComb.from_bits(x.to_bits(3)[1:])
        return if_then_else(y == 0, tt, tf)
    def f():
        mark("F"); return x - 8
    return if_then_else(x <= 7, t, f)
def n_two(N, x, y):
    if x <= 7:
        N.mark("T")
        if y == 0: N.mark("TT"); return popcount(x, 3)
        else: N.mark("TF"); return x >> 1
    else:
        N.mark("F"); return x - 8

def o_three(a, b, c):
    # three levels; exact division, floor division, comparison, assertions and bit
    # decompositions that only make sense in the block they are in
    def l1():
        mark("A")
        def l2():
            mark("AB")
            def l3():
                mark("ABC")
                c.assert_lt(4)
                (a*a).assert_ne(0)
                return 336/(b+5) + c.to_bits(2)[1]
            def l3e():
                mark("ABc")
                c.assert_ge(4)
                return (c + 100)//(b+b+1)
            return if_then_else(c <= 3, l3, l3e)
        def l2e():
            mark("Ab")
            b.assert_le(0)
            return [0 - b, if_then_else(c == 5, lambda: (mark("Ab5"), a*b)[1], lambda: (mark("Ab!5"), a+b)[1])][1]
        return if_then_else(b > 0, l2, l2e)
    def l1e():
        mark("a")
        a.assert_eq(0)
        return if_then_else(b > 2, lambda: (mark("aB"), b.to_bits(4)[2] + 40)[1], 7)
    return if_then_else(a != 0, l1, l1e)
def n_three(N, a, b, c):
    if a != 0:
        N.mark("A")
        if b > 0:
            N.mark("AB")
            if c <= 3:
                N.mark("ABC"); assert c < 4 and a*a != 0
                assert 336 % (b+5) == 0; return 336//(b+5) + ((c >> 1) & 1)
            else:
                N.mark("ABc"); assert c >= 4
                return (c + 100)//(b+b+1)
        else:
            N.mark("Ab"); assert b <= 0
            if c == 5: N.mark("Ab5"); return a*b
            else: N.mark("Ab!5"); return a+b
    else:
        N.mark("a"); assert a == 0
        if b > 2: N.mark("aB"); return ((b >> 2) & 1) + 40
        else: return 7

def o_list(x, y):
    # list-valued lazy branches, one branch plain
    def t():
        mark("T")
        return [x*x, if_then_else(y >= 2, lambda: (mark("TT"), (y-2).to_bits(2))[1], [PrivVal(9), 9]), 5]
    return if_then_else(x >= 0, t, [x, [0, 1], 6])
def n_list(N, x, y):
    if x >= 0:
        N.mark("T")
        if y >= 2: N.mark("TT"); inner = [(y-2) & 1, ((y-2) >> 1) & 1]
        else: inner = [9, 9]
        return [x*x, inner, 5]
    return [x, [0, 1], 6]

def o_guarded(c1, c2, c3, v):
    # runtime.guarded used directly, three deep; the body asserts something about v that is
    # only true when all conditions hold (v == 0 is promised only then)
    out = []
    b1 = (c1 != 0); b2 = (c2 != 0); b3 = (c3 != 0)
    def body3(): mark("123"); v.assert_zero(); (v+1).assert_nonzero(); out.append(1/(v+1))
    def body2(): mark("12"); guarded(b3.lc)(body3)(); (v*c3).assert_zero()
    def body1(): mark("1"); guarded(b2.lc)(body2)(); mark("1'")
    guarded(b1.lc)(body1)()
    mark("0")
    return if_then_else(b1 & b2 & b3, out[0], 0)
def n_guarded(N, c1, c2, c3, v):
    r = 0
    if c1:
        N.mark("1")
        if c2:
            N.mark("12")
            if c3:
                N.mark("123"); assert v == 0; r = 1
            assert v*c3 == 0
        N.mark("1'")
    N.mark("0")
    return r

def dom_guarded():
    for c1, c2, c3 in itertools.product((0, 1), repeat=3):
        for v in (0, 3, -2, 70000):
            if c1 and c2 and c3 and v != 0: continue       # promise: v==0 when all hold
            yield (c1, c2, c3, v)

PROGRAMS = [
    ("two-level", [(x, y) for x in (0, 1, 3, 6, 7, 8, 9, 100, 65535) for y in (0, 1, 5)], o_two, n_two),
    ("three-level", [(a, b, c) for a in (0, 1, -3, 7) for b in (-4, 0, 1, 3, 9) for c in (0, 3, 4, 5, 11)], o_three, n_three),
    ("lists", [(x, y) for x in (-5, -1, 0, 4) for y in (-3, 0, 1, 2, 3, 5)], o_list, n_list),
    ("guarded", list(dom_guarded()), o_guarded, n_guarded),
]

def plain(r):
    if isinstance(r, (list, tuple)): return [plain(x) for x in r]
    if isinstance(r, LinCombBool): return r.lc.value
    if isinstance(r, LinComb): return r.value
    return r

def run_all(label):
    for name, dom, obl, nat in PROGRAMS:
        sig0 = None
        for inp in dom:
            N = Native(); want = nat(N, *inp)
            reset(); del LOG[:]
            try:
                got = plain(obl(*[PrivVal(v) for v in inp]))
            except Exception as e:
                fail("%s %s %s: raised %r" % (label, name, inp, e)); continue
            if got != want:
                fail("%s %s %s: value %r, native %r" % (label, name, inp, got, want))
            # guard values: active exactly in the blocks native executed
            for tag, gval, active in LOG:
                exp = 1 if tag in N.seen else 0
                if gval != exp or active != bool(exp):
                    fail("%s %s %s: block %s has guard value %r (is_guard %r), native executed it: %r" % (label, name, inp, tag, gval, active, bool(exp)))
            if set(N.seen) - set(t for t, _, _ in LOG):
                fail("%s %s %s: blocks not traced" % (label, name, inp))
            if NOBACKEND: continue
            bad = violated()
            if bad: fail("%s %s %s: %d of %d constraints violated (first %d)" % (label, name, inp, len(bad), len(be.constraints), bad[0]))
            sig = signature()
            if sig0 is None: sig0 = (sig, inp)
            elif sig != sig0[0]:
                fail("%s %s: constraint system for %s differs from the one for %s (%d vs %d constraints)" % (label, name, inp, sig0[1], len(sig[2]), len(sig0[0][2])))
        if not NOBACKEND:
            print("%-12s %-12s %3d inputs, %4d constraints each" % (label, name, len(dom), len(sig0[0][2]) if sig0 else -1))

run_all("nobackend" if NOBACKEND else "snarkjs")

# same with errors suppressed by the caller (valid inputs: same values, same satisfied system)
ignore_errors(True)
run_all("ignore_errors")
ignore_errors(False)

if NOBACKEND:
    print("nobackend: %d failures" % len(failures))
    sys.exit(1 if failures else 0)

# ---------------------------------------------------------------- 5. guards still enforce
def enforce(c1, c2, v):
    reset()
    ignore_errors(True)
    try:
        b1 = PrivVal(c1) != 0; b2 = PrivVal(c2) != 0; x = PrivVal(v)
        guarded(b1.lc)(lambda: guarded(b2.lc)(lambda: x.assert_lt(8))())()
        if_then_else(b1, lambda: if_then_else(b2, lambda: x.to_bits(3)[0], 0), 0)
    finally:
        ignore_errors(False)
    return len(violated())
for c1, c2 in itertools.product((0, 1), repeat=2):
    for v in (0, 7, 8, 200, -1):
        nbad = enforce(c1, c2, v)
        should = bool(c1 and c2 and not (0 <= v < 8))
        if bool(nbad) != should:
            fail("enforcement: conds %d,%d value %d: %d violated constraints, expected %s" % (c1, c2, v, nbad, "some" if should else "none"))
print("enforcement   checked")

# ---------------------------------------------------------------- 6. written files
def decode_and_check(d):
    w = open(os.path.join(d, "witness.wtns"), "rb").read()
    assert w[:4] == b"wtns"
    n8 = struct.unpack("<I", w[24:28])[0]; prime = int.from_bytes(w[28:28+n8], "little")
    nw = struct.unpack("<I", w[28+n8:32+n8])[0]
    off = 32 + n8 + 12
    wit = [int.from_bytes(w[off+i*n8:off+(i+1)*n8], "little") for i in range(nw)]
    r = open(os.path.join(d, "circuit.r1cs"), "rb").read()
    assert r[:4] == b"r1cs"
    pos = 12 + 12                        # magic, version, nsections, section 1 header
    fs = struct.unpack("<I", r[pos:pos+4])[0]; pos += 4
    assert int.from_bytes(r[pos:pos+fs], "little") == prime; pos += fs
    nvars, nout, npub, nprv = struct.unpack("<IIII", r[pos:pos+16]); pos += 16
    pos += 8
    ncons = struct.unpack("<I", r[pos:pos+4])[0]; pos += 4
    pos += 12                            # section 2 header
    assert nvars == nw and wit[0] == 1
    nbad = 0
    for _ in range(ncons):
        vals = []
        for _ in range(3):
            n = struct.unpack("<I", r[pos:pos+4])[0]; pos += 4
            s = 0
            for _ in range(n):
                k = struct.unpack("<I", r[pos:pos+4])[0]; pos += 4
                c = int.from_bytes(r[pos:pos+fs], "little"); pos += fs
                s += c*wit[k]
            vals.append(s % prime)
        if (vals[0]*vals[1] - vals[2]) % prime: nbad += 1
    return ncons, nbad

tmp = tempfile.mkdtemp(prefix="r6-C09-", dir="/tmp")
cwd = os.getcwd()
try:
    os.chdir(tmp)
    for inp in [(0, 3, 5), (7, 3, 2), (-3, -4, 5), (1, 9, 11)]:
        reset(); del LOG[:]
        o_three(*[PrivVal(v) for v in inp]).val()
        be.prove()
        ncons, nbad = decode_and_check(tmp)
        if nbad or ncons != len(be.constraints):
            fail("files for three-level %s: %d constraints, %d violated" % (inp, ncons, nbad))
    print("files         decoded, %d constraints" % ncons)
finally:
    os.chdir(cwd); shutil.rmtree(tmp)

# ---------------------------------------------------------------- 7. nobackend
env = dict(os.environ); env["PYSNARK_BACKEND"] = "nobackend"
r = subprocess.run([sys.executable, os.path.abspath(__file__), "--nobackend"], env=env, capture_output=True, text=True)
print(r.stdout.strip().splitlines()[-1] if r.stdout.strip() else r.stderr[-400:])
if r.returncode != 0:
    fail("nobackend run failed:\n" + r.stdout[-1500:] + r.stderr[-1500:])

print("P.check: %d failures" % len(failures))
sys.exit(1 if failures else 0)
