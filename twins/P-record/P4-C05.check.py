# Evidence program for P (three-argument pow on LinComb: pow(x, n, m), public n and m).
#
# Run as:  PYTHONPATH=<tree> /venv/bin/python P.check.py      (from an empty directory; writes nothing)
#
# For every case it checks the PROPERTY C05 itself:
#   * the call either raises or returns an object whose .value equals Python's pow(x, n, m) on plain ints
#     (it never returns a different value);
#   * inside the documented domain (|x| < 2^(bitlength-1), 0 < m < 2^(bitlength-1), n >= 0) it does not raise;
#   * (snarkjs backend) every constraint emitted during the call is satisfied by the recorded witness, and
#     the returned linear combination evaluates, on that witness, to the returned value (mod p), so the
#     value reported is the value the circuit carries;
#   * the same under an enabled guard, a disabled guard (lazy if_then_else branches), and ignore_errors;
#   * two-argument pow is unchanged (value and constraint count n-1), and pow(x, secret, m) / pow(x, n, secret)
#     raise instead of returning anything.
# The whole run is repeated in a child process on the nobackend backend (values only).
#
# On a tree without P, pow(x, n, m) always raises ValueError("Cannot provide modulus"): the first clause of the
# property then holds trivially, and the program reports that the feature is absent and skips the in-domain
# "does not raise" clause for the three-argument form.

import os, sys, subprocess

BACKEND = os.environ.get("C05_CHECK_BACKEND", "snarkjs")
os.environ["PYSNARK_BACKEND"] = BACKEND

import pysnark.runtime as rt
from pysnark.runtime import PrivVal, PubVal, ConstVal, LinComb, ignore_errors
from pysnark.boolean import PrivValBool, LinCombBool
from pysnark.branching import if_then_else

rt.autoprove = False
be = rt.backend
RECORD = (BACKEND == "snarkjs")
if RECORD:
    P = be.snarkjsp

failures = []
ncases = 0
nraised = 0


def fail(msg):
    failures.append(msg)
    if len(failures) <= 25:
        print("VIOLATION:", msg)


def wire(ix):
    if ix == 0: return 1
    if ix > 0: return be.pubvals[ix - 1]
    return be.privvals[-ix - 1]


def ev(lc):
    return sum(c * wire(ix) for ix, c in lc.lc.items()) % P


def constraints_ok(start):
    """ every constraint emitted since `start` holds on the recorded witness """
    for k in range(start, len(be.constraints)):
        v, w, y = be.constraints[k]
        if (ev(v) * ev(w) - ev(y)) % P != 0:
            return k
    return None


def mark():
    return len(be.constraints) if RECORD else 0


def check_result(tag, res, expected, start, must_hold=True):
    lc = res.lc if isinstance(res, LinCombBool) else res
    if not isinstance(lc, LinComb):
        fail("%s: returned %r, not a LinComb" % (tag, res)); return
    if lc.value != expected:
        fail("%s: returned value %d, Python gives %d" % (tag, lc.value, expected)); return
    if RECORD:
        if ev(lc.lc) != expected % P:
            fail("%s: returned wire carries %d, value says %d" % (tag, ev(lc.lc), expected))
        if must_hold:
            bad = constraints_ok(start)
            if bad is not None:
                fail("%s: emitted constraint #%d is not satisfied by the witness" % (tag, bad - start))


MAKERS = [("priv", PrivVal), ("pub", PubVal), ("const", ConstVal), ("lin", lambda v: PrivVal(v - 3) * 1 + 3)]

feature_present = True
try:
    pow(PrivVal(2), 2, 3)
except ValueError as e:
    if "Cannot provide modulus" in str(e):
        feature_present = False
        print("note: this tree has no three-argument pow (always raises); only the 'or raises' clause applies")


def one_case(bl, mk, x, n, m):
    global ncases, nraised
    ncases += 1
    rt.bitlength = bl
    tag = "bitlength=%d pow(%s(%d), %d, %d)" % (bl, mk[0], x, n, m)
    in_domain = (-(1 << (bl - 1)) <= x < (1 << (bl - 1))) and 0 < m < (1 << (bl - 1)) and n >= 0
    try:
        expected = pow(x, n, m) if (m > 0 and n >= 0) else None
    except Exception:
        expected = None
    start = mark()
    try:
        res = pow(mk[1](x), n, m)
    except (ValueError, AssertionError, ZeroDivisionError, TypeError) as e:
        nraised += 1
        if in_domain and feature_present:
            fail("%s: raised %r inside the documented domain" % (tag, e))
        return
    if expected is None:
        fail("%s: returned %r where only raising is acceptable" % (tag, res)); return
    check_result(tag, res, expected, start)


def guarded_case(bl, x, n, m, condval, ign=False):
    """ pow inside a lazy if_then_else branch; the overall selection must equal Python's """
    global ncases, nraised
    ncases += 1
    rt.bitlength = bl
    tag = "bitlength=%d if_then_else(%d, lambda: pow(%d, %d, %d), lambda: pow(%d, %d, %d)+1)%s" % (
        bl, condval, x, n, m, x, n, m, " [ignore_errors]" if ign else "")
    in_domain = (-(1 << (bl - 1)) <= x < (1 << (bl - 1))) and 0 < m < (1 << (bl - 1))
    t = pow(x, n, m)
    expected = t if condval else t + 1
    old = ignore_errors()
    ignore_errors(ign)
    start = mark()
    try:
        xs = PrivVal(x)
        cond = PrivValBool(condval)
        res = if_then_else(cond, lambda: pow(xs, n, m), lambda: pow(xs, n, m) + 1)
    except (ValueError, AssertionError) as e:
        nraised += 1
        if in_domain and feature_present:
            fail("%s: raised %r inside the documented domain" % (tag, e))
        return
    finally:
        ignore_errors(old)
        # a raise inside a guarded function restores the guard itself
    if rt.guard is not None or LinComb.ONE is not LinComb.ONE_SAFE:
        fail("%s: guard state not restored" % tag)
    # with error suppression and operands outside the domain the constraints need not hold; the value must
    check_result(tag, res, expected, start, must_hold=(in_domain or not ign))


def main():
    global ncases
    for bl in (5, 8, 16):
        lim = 1 << (bl - 1)
        xs = sorted(set([0, 1, -1, 2, -2, 3, 7, -7, 10, -10, lim - 1, -lim, lim, -lim - 1, (1 << bl) - 1, 1 << bl,
                         -(1 << bl), (1 << bl) + 5, 3 * (1 << bl) + 1, -(5 << bl) - 3, 1 << 40]))
        ms = sorted(set([1, 2, 3, 4, 5, 7, 10, lim - 1, lim, lim + 1, (1 << bl) - 1, 1 << bl, (1 << bl) + 1, 3 << bl,
                         0, -1, -3, -lim]))
        ns = [0, 1, 2, 3, 4, 5, 6, 7, 8, 9, 13, 16, 31, 100, -1, -2]
        for mk in MAKERS:
            for x in xs:
                for n in ns:
                    for m in ms:
                        if mk[0] in ("pub", "const", "lin") and (n > 9 or abs(x) > (4 << bl)):
                            continue  # keep the run short; the full grid is run for PrivVal
                        one_case(bl, mk, x, n, m)
        if feature_present:
            for x in (0, 1, -1, 3, -7, lim - 1, -lim, lim + 3, (1 << bl) + 5):
                for n in (0, 1, 2, 5, 8):
                    for m in (1, 2, 7, lim - 1, lim + 1, (1 << bl) + 1):
                        for condval in (0, 1):
                            guarded_case(bl, x, n, m, condval)
                            guarded_case(bl, x, n, m, condval, ign=True)

    # Booleans as modulus / exponent are Python ints
    rt.bitlength = 16
    if feature_present:
        s = mark(); check_result("pow(5, True, 3)", pow(PrivVal(5), True, 3), pow(5, True, 3), s)
        s = mark(); check_result("pow(5, 3, True)", pow(PrivVal(5), 3, True), pow(5, 3, True), s)
        s = mark(); check_result("pow(5, False, 1)", pow(PrivVal(5), False, 1), pow(5, False, 1), s)

    # secret exponent / secret modulus / secret Boolean / other types: must raise, never return
    for tag, fn in [("pow(x, secret, 5)", lambda: pow(PrivVal(3), PrivVal(2), 5)),
                    ("pow(x, 2, secret)", lambda: pow(PrivVal(3), 2, PrivVal(5))),
                    ("pow(x, secret, secret)", lambda: pow(PrivVal(3), PrivVal(2), PrivVal(5))),
                    ("pow(3, secret, 5)", lambda: pow(3, PrivVal(2), 5)),
                    ("pow(3, 2, secret)", lambda: pow(3, 2, PrivVal(5))),
                    ("pow(x, 2, 2.5)", lambda: pow(PrivVal(3), 2, 2.5)),
                    ("pow(x, 1.5, 5)", lambda: pow(PrivVal(3), 1.5, 5)),
                    ("pow(x, secret bool, 5)", lambda: pow(PrivVal(3), PrivValBool(1), 5)),
                    ("pow(x, 2, secret bool)", lambda: pow(PrivVal(3), 2, PrivValBool(1)))]:
        ncases += 1
        try:
            r = fn()
        except (ValueError, TypeError, AssertionError, RuntimeError):
            continue
        fail("%s: returned %r instead of raising" % (tag, r))

    # two-argument pow: value, wire, constraints and the constraint count are as before
    for bl in (8, 16):
        rt.bitlength = bl
        for x in (0, 1, -1, 2, -3, 7, (1 << bl) + 1, -(1 << bl)):
            for n in range(0, 12):
                ncases += 1
                s = mark(); c0 = rt.num_constraints
                r = PrivVal(x) ** n
                check_result("bitlength=%d PrivVal(%d)**%d" % (bl, x, n), r, x ** n, s)
                if rt.num_constraints - c0 != max(n - 1, 0):
                    fail("PrivVal(%d)**%d cost %d constraints, expected %d" % (x, n, rt.num_constraints - c0, max(n - 1, 0)))

    print("%s backend: %d cases, %d raised, %d violations" % (BACKEND, ncases, nraised, len(failures)))
    if failures:
        sys.exit(1)

    if BACKEND == "snarkjs":
        env = dict(os.environ); env["C05_CHECK_BACKEND"] = "nobackend"
        rc = subprocess.call([sys.executable, os.path.abspath(__file__)], env=env)
        if rc != 0:
            sys.exit(rc)
    if BACKEND == "snarkjs":
        print("OK: property C05 held in all cases")


main()
