#!/usr/bin/env python
"""
Evidence program for change P (LinCombFxp._rescale: multiplication by a float constant
rescales with a resolution-bit decomposition of the remainder).

Run from an empty directory:   PYTHONPATH=<tree> /venv/bin/python P.check.py

What is checked (property C14, for the code P touches and its neighbours):
  1. For every resolution / bitlength / representation a / float constant c (negative, fractional,
     not representable, zero, large) and both operand orders, the wire of  x * c  carries
     floor(a * C / 2^r)  (C = representation of c), val() returns wire / 2^r, and EVERY constraint
     emitted by the operation (and by val()) holds on the recorded witness (snarkjs backend,
     evaluated modulo the field prime).
  2. The same inside guards: lazy if_then_else branches (taken and not taken), nested, with
     ignore_errors and with representations far outside the bitlength.
  3. For small resolutions, the emitted constraints of one product are brute-forced over all
     assignments of the wires the operation allocated (quotient in an integer window, every bit
     wire in {-1,0,1,2}): the honest assignment is the ONLY solution, i.e. the constraints pin the
     result to floor(a*C/2^r).
  4. Multiplication with every other operand kind on either side (int, bool, LinComb, LinCombBool,
     LinCombFxp) against plain Python.
  5. At the end the snarkjs files are written, decoded again, and every constraint in circuit.r1cs is
     evaluated on the witness in witness.wtns.
Exit status 0 iff the property held everywhere.
"""
import os, sys, itertools, random, warnings

os.environ["PYSNARK_BACKEND"] = "snarkjs"
warnings.simplefilter("ignore")

import pysnark.runtime as rt
rt.autoprove = False
import pysnark.snarkjsbackend as be
import pysnark.fixedpoint as fx
from pysnark.runtime import PrivVal, PubVal, LinComb
from pysnark.boolean import PrivValBool, LinCombBool
from pysnark.fixedpoint import LinCombFxp, PrivValFxp, PubValFxp
from pysnark.branching import if_then_else

P = be.snarkjsp
HAVE_P = hasattr(LinCombFxp, "_rescale")
failures = []
stats = {"cases": 0, "constraints": 0, "raised": 0, "rejected": 0, "bruteforced": 0}


def fail(msg):
    failures.append(msg)
    if len(failures) <= 25:
        print("FAIL:", msg)


def wire(ix):
    if ix == 0: return 1
    return be.pubvals[ix - 1] if ix > 0 else be.privvals[-ix - 1]


def ev(lc):
    """ value modulo the prime of a backend LinearCombination (or of a runtime LinComb) on the recorded witness """
    if isinstance(lc, LinComb): lc = lc.lc
    return sum(c * wire(k) for (k, c) in lc.lc.items()) % P


def holds(con):
    return (ev(con[0]) * ev(con[1]) - ev(con[2])) % P == 0


def check_constraints(start, what, tolerate=False):
    """
    tolerate: the operation ran with ignore_errors, where "the operation raises" takes the form of an emitted
    constraint that does not hold (the proof is rejected). That outcome is within the property; it is counted,
    and not accepted at all on the tree with P, whose claim is that these products never fail.
    """
    bad = [i for i in range(start, len(be.constraints)) if not holds(be.constraints[i])]
    stats["constraints"] += len(be.constraints) - start
    if bad and tolerate and not HAVE_P:
        stats["rejected"] += len(bad)
        return False
    if bad:
        fail("%s: %d emitted constraint(s) do not hold on the recorded witness (first: #%d)" % (what, len(bad), bad[0]))
    return not bad


def setup(res, bl, ign=False):
    fx.resolution = res
    rt.bitlength = bl
    rt.ignore_errors(ign)


def scaled(c, res):
    """ representation of the float constant, as the library documents it (truncation, with a warning) """
    return int(c * (1 << res))


def wire_is(lc, expect, what):
    """ the LinComb's value is expect AND its linear combination evaluates to expect on the witness """
    if lc.value != expect:
        fail("%s: value %d, expected %d" % (what, lc.value, expect))
        return False
    if ev(lc) != expect % P:
        fail("%s: wire evaluates to something else than its value %d" % (what, expect))
        return False
    return True


# ---------------------------------------------------------------- 1. x * c, c * x
def one_product(res, bl, a, c, order, mk):
    setup(res, bl)
    C = scaled(c, res)
    expect = (a * C) // (1 << res)          # Python floor division = floor(a*C/2^r)
    what = "res=%d bl=%d a=%d c=%r (%s, %s)" % (res, bl, a, c, order, mk.__name__)
    x = mk(a, False)
    c0 = len(be.constraints)
    try:
        y = x * c if order == "x*c" else c * x
    except (AssertionError, ValueError) as e:
        stats["raised"] += 1
        if HAVE_P: fail(what + ": raised " + repr(e))
        return
    ncon = len(be.constraints) - c0
    if not isinstance(y, LinCombFxp): return fail(what + ": result is not a LinCombFxp")
    wire_is(y.lc, expect, what)
    if HAVE_P and ncon != res + 1: fail("%s: %d constraints, documented resolution + 1 = %d" % (what, ncon, res + 1))
    v = y.val()
    if v != expect / (1 << res): fail("%s: val() = %r, expected %r" % (what, v, expect / (1 << res)))
    check_constraints(c0, what)
    stats["cases"] += 1


consts = [0.0, 1.0, -1.0, 2.0, 0.5, -0.5, 0.25, 1.5, -1.5, 3.125, -3.125, 0.3, -0.3, 3.14159, -2.71828,
          0.001, -0.001, 100.0, -100.75, 1e-9, 12345.678]
for res, bl in [(0, 8), (1, 4), (2, 8), (3, 16), (4, 4), (8, 16), (8, 10), (12, 8), (20, 16), (16, 32)]:
    reps = sorted(set([0, 1, -1, 2, -2, 3, -3, 5, -5, 7, -7, (1 << res), -(1 << res), (1 << res) + 1, -(1 << res) - 1,
                       (1 << res) - 1, 1 - (1 << res), 3 * (1 << res) // 2, -3 * (1 << res) // 2,
                       (1 << (bl - 1)) - 1, -(1 << (bl - 1))] + [random.Random(res * 100 + bl).randrange(-(1 << bl), 1 << bl) for _ in range(6)]))
    for a in reps:
        for c in consts:
            for order in ("x*c", "c*x"):
                for mk in (PrivValFxp, PubValFxp):
                    one_product(res, bl, a, c, order, mk)

# fractional inputs given as floats, derived (non-wire) operands, chains
setup(8, 16)
for xv in (0.5, -0.5, 1.75, -1.75, 3.00390625, -3.00390625, 100.99609375):
    for c in (0.3, -0.3, 2.5, -2.5, 0.00390625):
        c0 = len(be.constraints)
        x = PrivValFxp(xv)
        a = int(xv * 256)
        y = (x * c) * c
        e1 = (a * scaled(c, 8)) >> 8
        e2 = (e1 * scaled(c, 8)) >> 8
        wire_is(y.lc, e2, "chain %r*%r*%r" % (xv, c, c))
        z = (x + 1 - PrivVal(2)) * c + (-x) * c            # linear combinations as operand
        ez = ((a + 256 - 512) * scaled(c, 8) >> 8) + ((-a * scaled(c, 8)) >> 8)
        wire_is(z.lc, ez, "lincomb operand %r,%r" % (xv, c))
        if z.val() != ez / 256: fail("val of lincomb operand")
        check_constraints(c0, "chain/lincomb %r,%r" % (xv, c))
        stats["cases"] += 1


# ---------------------------------------------------------------- 2. guards, ignore_errors, out of range
def guarded_case(res, bl, a, c1, c2, condv, ign):
    setup(res, bl, ign)
    what = "guard res=%d bl=%d a=%d c=%r/%r cond=%d ign=%s" % (res, bl, a, c1, c2, condv, ign)
    c0 = len(be.constraints)
    x = PrivValFxp(a, False)
    cond = PrivValBool(condv)
    try:
        y = if_then_else(cond, lambda: x * c1, lambda: if_then_else(cond, lambda: x * c2, lambda: (c2 * x) * c1))
    except (AssertionError, ValueError) as e:
        stats["raised"] += 1
        if HAVE_P: fail(what + ": raised " + repr(e))
        rt.ignore_errors(False)
        return
    C1, C2 = scaled(c1, res), scaled(c2, res)
    expect = (a * C1) >> res if condv else (((a * C2) >> res) * C1) >> res
    rt.ignore_errors(False)
    if not check_constraints(c0, what, tolerate=ign): return
    wire_is(y.lc, expect, what)
    c0 = len(be.constraints)
    if y.val() != expect / (1 << res): fail(what + ": val()")
    check_constraints(c0, what)
    stats["cases"] += 1


for res, bl in [(0, 8), (2, 4), (8, 16), (12, 8)]:
    for a in (0, 1, -1, 77, -77, (1 << bl) - 1, -(1 << bl), (1 << 40) + 12345, -(1 << 40) - 12345):
        for (c1, c2) in ((0.3, -1.5), (-0.75, 2.0), (3.125, 0.001)):
            for condv in (0, 1):
                for ign in (False, True):
                    guarded_case(res, bl, a, c1, c2, condv, ign)


# ---------------------------------------------------------------- 3. brute force of the emitted constraints
def brute(res, a, c):
    setup(res, 8)
    C = scaled(c, res)
    x = PrivValFxp(a, False)
    p0, c0 = len(be.privvals), len(be.constraints)
    y = x * c
    p1, c1 = len(be.privvals), len(be.constraints)
    nw = p1 - p0
    if nw != res + 1: return      # only the layout of P is small enough to enumerate (quotient + res bits)
    honest = be.privvals[p0:p1]
    expect = (a * C) // (1 << res)
    # the first allocated wire is the quotient, the others are bits
    window = range(expect - 12, expect + 13)
    sols = []
    for cand in itertools.product(window, *[(-1, 0, 1, 2)] * res):
        be.privvals[p0:p1] = list(cand)
        if all(holds(be.constraints[i]) for i in range(c0, c1)):
            sols.append(cand)
    be.privvals[p0:p1] = honest
    if sols != [tuple(honest)]:
        fail("brute force res=%d a=%d c=%r: solutions %r, honest %r" % (res, a, c, sols[:4], honest))
    if honest[0] != expect: fail("brute force: honest quotient wrong")
    stats["bruteforced"] += 1


if HAVE_P:
    for res in (0, 1, 2, 3):
        for a in range(-9, 10):
            for c in (0.5, -0.5, 1.0, 1.5, -1.5, 2.75, -2.75, 0.0):
                brute(res, a, c)


# ---------------------------------------------------------------- 4. the other operand kinds, either side
setup(8, 16)
for a in (0, 1, -1, 384, -384, 777, -777):
    for k in (0, 1, -1, 3, -3):
        c0 = len(be.constraints)
        x = PrivValFxp(a, False)
        for (y, e, nm) in ((x * k, a * k, "x*int"), (k * x, a * k, "int*x"),
                           (x * PrivVal(k), a * k, "x*LinComb"), (PrivVal(k) * x, a * k, "LinComb*x"),
                           (x * PrivValFxp(k), (a * k * 256) >> 8, "x*fxp(int)"),
                           (x * PrivValFxp(k * 1.5), (a * int(k * 384)) >> 8, "x*fxp"),
                           (x * True, a, "x*True"), (False * x, 0, "False*x")):
            wire_is(y.lc, e, "%s a=%d k=%d" % (nm, a, k))
            if y.val() != e / 256: fail("%s val()" % nm)
        for bv in (0, 1):
            for (y, nm) in ((x * PrivValBool(bv), "x*bool"), (PrivValBool(bv) * x, "bool*x")):
                if isinstance(y, LinCombFxp): wire_is(y.lc, a * bv, nm)
                else: fail(nm + " is not fixed point")
        check_constraints(c0, "operand kinds a=%d k=%d" % (a, k))
        stats["cases"] += 1


# ---------------------------------------------------------------- 5. decode the files the backend writes
def rd(b, pos, n): return int.from_bytes(b[pos:pos + n], "little"), pos + n


def decode_and_check():
    be.prove()
    w = open("witness.wtns", "rb").read()
    assert w[:4] == b"wtns"
    pos = 12
    _, pos = rd(w, pos, 4); _, pos = rd(w, pos, 8)
    n8, pos = rd(w, pos, 4); mod, pos = rd(w, pos, n8); nw, pos = rd(w, pos, 4)
    _, pos = rd(w, pos, 4); _, pos = rd(w, pos, 8)
    wit = []
    for _ in range(nw):
        v, pos = rd(w, pos, n8); wit.append(v)
    c = open("circuit.r1cs", "rb").read()
    assert c[:4] == b"r1cs"
    pos = 12
    _, pos = rd(c, pos, 4); _, pos = rd(c, pos, 8)
    n8, pos = rd(c, pos, 4); mod2, pos = rd(c, pos, n8)
    nvars, pos = rd(c, pos, 4); pos += 4 + 4 + 4 + 8
    ncon, pos = rd(c, pos, 4)
    _, pos = rd(c, pos, 4); _, pos = rd(c, pos, 8)
    assert mod == mod2 == P and nvars == nw == len(wit) and wit[0] == 1
    bad = 0
    for _ in range(ncon):
        vals = []
        for _ in range(3):
            n, pos = rd(c, pos, 4)
            s = 0
            for _ in range(n):
                k, pos = rd(c, pos, 4); f, pos = rd(c, pos, n8)
                s += f * wit[k]
            vals.append(s % mod)
        if (vals[0] * vals[1] - vals[2]) % mod: bad += 1
    if bad != stats["rejected"]: fail("decoded circuit.r1cs / witness.wtns: %d of %d constraints do not hold" % (bad, ncon))
    return ncon


ncon = decode_and_check()
for f in ("witness.wtns", "circuit.r1cs"):
    try: os.remove(f)
    except OSError: pass

print("change P present:", HAVE_P)
print("cases: %(cases)d   constraints evaluated: %(constraints)d   raised: %(raised)d   "
      "rejected under ignore_errors: %(rejected)d   brute-forced systems: %(bruteforced)d" % stats)
print("constraints decoded from circuit.r1cs and evaluated on witness.wtns:", ncon)
if failures:
    print("PROPERTY VIOLATED in %d case(s)" % len(failures))
    sys.exit(1)
print("OK: property C14 held in all cases")
sys.exit(0)
