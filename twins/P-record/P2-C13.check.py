# Evidence program for change P (gmpy stub: invert() by extended Euclid instead of Fermat's little theorem).
# Run from an empty directory:  PYTHONPATH=<tree> /venv/bin/python P.check.py
# Checks property C13:
#   (a) for every proof-producing backend / field configuration the reported modulus is the prime scalar-field order
#       of its curve and fieldinverse(v) is THE inverse of v modulo that prime for every non-zero v (negative,
#       unreduced, huge ... included), an int in [0, p);  zero (mod p) arguments keep raising ZeroDivisionError;
#   (b) the stub itself agrees with brute force on all small moduli (prime and composite) and all residues,
#       in both of its code paths (pow-based and hand-written Euclid);
#   (c) linear-combination algebra of every backend evaluates like the field expression and leaves operands untouched,
#       including scalars that are field inverses (the way runtime uses fieldinverse);
#   (d) circuits built through pysnark.runtime that use inverses (division by public ints, == / != tests,
#       assert_nonzero, guarded and ignore_errors variants) satisfy every emitted constraint on the recorded
#       witness, also after decoding the files written by prove().
import os, sys, types, random, math, struct, shutil

os.environ["PYSNARK_BACKEND"] = "snarkjs"
sys.argv = sys.argv[:1]
random.seed(13)

FAILS = []
NCHK = [0]
def check(cond, msg):
    NCHK[0] += 1
    if not cond:
        FAILS.append(msg)
        if len(FAILS) <= 25: print("VIOLATION:", msg)

# ---------------------------------------------------------------------------------------------------------------------
# load the runtime first (so that it binds the snarkjs backend), then the other backends directly
import pysnark.runtime as rt
import pysnark.snarkjsbackend as sj
assert rt.backend is sj, "runtime did not pick the snarkjs backend"
rt.autoprove = False

import pysnark.gmpy as G
USING_STUB = G.invert.__module__ == "pysnark.gmpy"

if "flatbuffers" not in sys.modules:
    try:
        import flatbuffers                                   # noqa
    except ImportError:
        fb = types.ModuleType("flatbuffers"); fb.__path__ = []          # only prove() needs the real thing
        fbc = types.ModuleType("flatbuffers.compat"); fbc.import_numpy = lambda: None; fb.compat = fbc
        sys.modules["flatbuffers"] = fb; sys.modules["flatbuffers.compat"] = fbc
import pysnark.zkinterface.backend as zk

_which = shutil.which
shutil.which = lambda exe, *a, **k: exe                      # qaptools executables are not needed for the algebra
try:
    import pysnark.qaptools.backend as qt
    import pysnark.qaptools.options as qopt
finally:
    shutil.which = _which

BN254_R   = 21888242871839275222246405745257275088548364400416034343698204186575808495617
BLS381_R  = 52435875175126190479447740508185965837690552500527637822603658699938581184513
ED25519_L = 7237005577332262213973186563042994240857116359379907606001950938285454250989
check(ED25519_L == 2**252 + 27742317777372353535851937790883648493, "ed25519 group order constant")

def is_prime_mr(n):
    """Deterministic-enough Miller-Rabin, independent of pysnark.gmpy."""
    if n < 2: return False
    for q in (2, 3, 5, 7, 11, 13, 17, 19, 23, 29, 31, 37):
        if n % q == 0: return n == q
    d, s = n - 1, 0
    while d % 2 == 0: d //= 2; s += 1
    for a in list(range(2, 60)) + [random.randrange(2, n - 1) for _ in range(20)]:
        x = pow(a, d, n)
        if x in (1, n - 1): continue
        for _ in range(s - 1):
            x = x * x % n
            if x == n - 1: break
        else:
            return False
    return True

# field configurations: (name, backend module, function that selects it, expected curve order)
def cfg_zk(mod):
    def sel(): zk.set_modulus(mod)
    return sel
CONFIGS = [
    ("snarkjs (bn254)",           sj, lambda: None,       BN254_R),
    ("qaptools (bn254)",          qt, lambda: None,       BN254_R),
    ("zkinterface (bn254)",       zk, cfg_zk(BN254_R),    BN254_R),
    ("zkifbellman (bls12-381)",   zk, cfg_zk(BLS381_R),   BLS381_R),
    ("zkifbulletproofs (25519)",  zk, cfg_zk(ED25519_L),  ED25519_L),
]
# the two derived zkinterface back-ends really select those moduli
for fn, want in (("backendbellman.py", BLS381_R), ("backendbulletproofs.py", ED25519_L)):
    src = open(os.path.join(os.path.dirname(zk.__file__), fn)).read()
    live = [l for l in src.splitlines() if l.strip() and not l.strip().startswith("#")]
    check(live == ["from pysnark.zkinterface.backend import *", "set_modulus(%d)" % want], fn + " selects another modulus")
check(qopt.vc_p == BN254_R, "qaptools options.vc_p")

def interesting_args(p):
    small = list(range(1, 70)) + [2**k for k in range(1, 300, 7)] + [2**k - 1 for k in range(2, 300, 11)] + [10**k for k in range(1, 90, 5)]
    edge = [p - 1, p - 2, p + 1, p + 2, 2*p - 1, 2*p + 1, (p - 1)//2, (p + 1)//2, p//3, 3*p + 5, p*p + 1, p*p - 1, p**3 + 7,
            (1 << 256) - 1, 1 << 256, (1 << 512) + 1]
    rnd = [random.randrange(1, p) for _ in range(150)] + [random.randrange(1, p) + random.randrange(1, 50)*p for _ in range(50)] \
        + [random.getrandbits(random.randrange(1, 700)) | 1 for _ in range(80)]
    pos = [v for v in small + edge + rnd if v % p]
    return pos + [-v for v in pos] + [True]

# ---------------------------------------------------------------------------------------------------------------------
# (a) modulus and fieldinverse of every configuration
for name, be, select, order in CONFIGS:
    select()
    p = be.get_modulus()
    check(type(p) is int and p == order, "%s: get_modulus() = %r is not the scalar field order of the curve" % (name, p))
    check(is_prime_mr(p), "%s: reported modulus is not prime" % name)
    for v in interesting_args(p):
        try:
            r = be.fieldinverse(v)
        except Exception as e:
            check(False, "%s: fieldinverse(%d) raised %r" % (name, v, e)); continue
        check(type(r) is int, "%s: fieldinverse(%d) returned a %s" % (name, v, type(r).__name__))
        check(0 <= r < p, "%s: fieldinverse(%d) = %d outside [0,p)" % (name, v, r))
        check(r * v % p == 1, "%s: fieldinverse(%d) = %d is not the inverse (product = %d mod p)" % (name, v, r, r*v % p))
        check(r == pow(int(v) % p, p - 2, p), "%s: fieldinverse(%d) differs from Fermat inverse" % (name, v))
    for z in (0, p, -p, 2*p, -7*p, p*p, False):
        try:
            r = be.fieldinverse(z)
            check(False, "%s: fieldinverse(%d) returned %r instead of raising ZeroDivisionError" % (name, z, r))
        except ZeroDivisionError:
            check(True, "")
        except Exception as e:
            check(False, "%s: fieldinverse(%d) raised %r instead of ZeroDivisionError" % (name, z, e))
zk.set_modulus(BN254_R)

# ---------------------------------------------------------------------------------------------------------------------
# (b) the stub against brute force, all residues of all small moduli, both code paths
impls = [("invert", G.invert)]
for extra in ("_invert_pow", "_invert_euclid"):
    if hasattr(G, extra): impls.append((extra, getattr(G, extra)))
PRIMES = [q for q in range(2, 200) if is_prime_mr(q)]
for iname, inv in impls:
    mods = PRIMES if not hasattr(G, "_invert_euclid") else list(range(2, 130))   # the old stub assumed a prime modulus
    for m in mods:
        for x in range(-2*m - 1, 3*m + 2):
            brute = [y for y in range(m) if x * y % m == 1]
            try:
                y = inv(x, m)
                check(len(brute) == 1 and int(y) == brute[0], "%s(%d, %d) = %r, brute force says %r" % (iname, x, m, y, brute))
            except ZeroDivisionError:
                check(brute == [], "%s(%d, %d) raised ZeroDivisionError although %r is an inverse" % (iname, x, m, brute))
    # big primes, both implementations must agree with Fermat
    for p in (BN254_R, BLS381_R, ED25519_L, 2**255 - 19, 2**127 - 1, 2**521 - 1):
        for v in interesting_args(p)[::3]:
            check(int(inv(v, p)) == pow(int(v) % p, p - 2, p), "%s(%d, %d) differs from Fermat inverse" % (iname, v, p))
        for z in (0, p, -3*p):
            try: inv(z, p); check(False, "%s(%d, p) did not raise" % (iname, z))
            except ZeroDivisionError: check(True, "")
    if hasattr(G, "_invert_euclid"):
        for m in (0,):
            try: inv(5, m); check(False, "%s(5, 0) did not raise" % iname)
            except ZeroDivisionError: check(True, "")
        # random composite moduli: inverse exists iff coprime
        for _ in range(1500):
            m = random.getrandbits(random.randrange(2, 200)) + 2
            x = random.getrandbits(random.randrange(1, 260)) * random.choice((1, -1))
            try:
                y = inv(x, m)
                check(math.gcd(x, m) == 1 and 0 <= y < m and x * y % m == 1 % m, "%s(%d, %d) = %d wrong" % (iname, x, m, y))
            except ZeroDivisionError:
                check(math.gcd(x, m) != 1, "%s(%d, %d) raised although coprime" % (iname, x, m))

# ---------------------------------------------------------------------------------------------------------------------
# (c) linear-combination algebra of each backend, with inverse scalars; evaluation on random assignments
class DictBackendAdapter:
    """variables, evaluation and snapshots for the dict based LinearCombination of snarkjs / zkinterface"""
    def __init__(self, be): self.be = be
    def var(self, i): return self.be.LinearCombination({(i + 1) if i % 2 else -(i + 1): 1})
    def one(self): return self.be.one()
    def zero(self): return self.be.zero()
    def keyof(self, i): return (i + 1) if i % 2 else -(i + 1)
    def ev(self, lc, asg, p): return sum(c * (1 if k == 0 else asg[k]) for k, c in lc.lc.items()) % p
    def snap(self, lc): return (id(lc.lc), tuple(lc.lc.items()))
class SigAdapter:
    def __init__(self, be): self.be = be
    def var(self, i): return self.be.Sig([(1, "f/%d" % i)])
    def one(self): return self.be.Sig([(1, "f/onex")])
    def zero(self): return self.be.zero()
    def keyof(self, i): return "f/%d" % i
    def ev(self, lc, asg, p): return sum(c * (1 if k == "f/onex" else asg[k]) for c, k in lc.sig) % p
    def snap(self, lc): return (id(lc.sig), tuple(lc.sig))

NV = 5
def scalars(be, p):
    s = [0, 1, -1, 2, -2, 3, 7, p - 1, p, p + 1, -p, 2*p + 3, -(p + 5), p*p + 2, 1 << 300, -(1 << 270)]
    s += [be.fieldinverse(v) for v in (2, -2, 3, 1 << 16, -(1 << 40), p - 2, p + 2, 10**30)]
    s += [random.randrange(-3*p, 3*p) for _ in range(6)]
    return s
def gen(ad, sc, depth, p):
    """returns (lc object, python function asg -> field value)"""
    r = random.random()
    if depth == 0 or r < 0.18:
        c = random.randrange(4)
        if c == 0: return ad.zero(), (lambda asg: 0)
        if c == 1: return ad.one(), (lambda asg: 1)
        i = random.randrange(NV); k = ad.keyof(i)
        return ad.var(i), (lambda asg, k=k: asg[k])
    if r < 0.40:
        a, fa = gen(ad, sc, depth - 1, p); b, fb = gen(ad, sc, depth - 1, p)
        sa, sb = ad.snap(a), ad.snap(b); res = a + b
        check(ad.snap(a) == sa and ad.snap(b) == sb, "operand altered by +"); return res, (lambda asg: fa(asg) + fb(asg))
    if r < 0.62:
        a, fa = gen(ad, sc, depth - 1, p); b, fb = gen(ad, sc, depth - 1, p)
        sa, sb = ad.snap(a), ad.snap(b); res = a - b
        check(ad.snap(a) == sa and ad.snap(b) == sb, "operand altered by -"); return res, (lambda asg: fa(asg) - fb(asg))
    if r < 0.74:
        a, fa = gen(ad, sc, depth - 1, p); sa = ad.snap(a); res = -a
        check(ad.snap(a) == sa, "operand altered by unary -"); return res, (lambda asg: -fa(asg))
    a, fa = gen(ad, sc, depth - 1, p); s = random.choice(sc); sa = ad.snap(a); res = a * s
    check(ad.snap(a) == sa, "operand altered by *"); return res, (lambda asg: fa(asg) * s)

for name, be, select, order in CONFIGS:
    select(); p = be.get_modulus()
    ad = SigAdapter(be) if be is qt else DictBackendAdapter(be)
    sc = scalars(be, p)
    for t in range(400):
        lc, f = gen(ad, sc, random.randrange(1, 6), p)
        for _ in range(3):
            asg = {ad.keyof(i): random.choice([0, 1, p - 1, random.randrange(p), random.randrange(-p, 2*p)]) for i in range(NV)}
            check(ad.ev(lc, asg, p) == f(asg) % p, "%s: linear combination evaluates to %d, field expression is %d"
                  % (name, ad.ev(lc, asg, p), f(asg) % p))
    # x * inv(k) * k == x  as linear combinations (how runtime divides by public integers)
    for k in (2, -2, 3, -7, 1 << 20, p - 1, p + 4, -(p*p + 1)):
        x = ad.var(1) * 5 + ad.one() * 3
        y = x * be.fieldinverse(k) * k
        asg = {ad.keyof(i): random.randrange(p) for i in range(NV)}
        check(ad.ev(y, asg, p) == ad.ev(x, asg, p), "%s: (x/k)*k != x for k=%d" % (name, k))
zk.set_modulus(BN254_R)

# ---------------------------------------------------------------------------------------------------------------------
# (d) circuits through pysnark.runtime (snarkjs backend); every constraint evaluated on the recorded witness
P = sj.get_modulus()
def sj_eval(lc):
    return sum(c * (1 if k == 0 else (sj.pubvals[k - 1] if k > 0 else sj.privvals[-k - 1])) for k, c in lc.lc.items()) % P
def check_constraints(start, what):
    for n, (a, b, c) in enumerate(sj.constraints[start:]):
        check(sj_eval(a) * sj_eval(b) % P == sj_eval(c), "%s: constraint #%d does not hold on the witness" % (what, start + n))
def check_lc(x, what):
    check(sj_eval(x.lc) == x.value % P, "%s: wire expression evaluates to %d, tracked value is %d" % (what, sj_eval(x.lc), x.value % P))

from pysnark.runtime import PrivVal, PubVal, LinComb
from pysnark.branching import if_then_else
VALS = [0, 1, -1, 2, -2, 6, -6, 12, 255, -256, 32767, -32768, 30030]
DIVS = [1, -1, 2, -2, 3, -3, 4, 6, -6, 255, 1 << 14, -(1 << 15), P - 1, P + 2, -(P + 3), 5 - P]
for v in VALS:
    for d in DIVS:
        for mk in (PrivVal, PubVal):
            start = len(sj.constraints)
            x = mk(v)
            if v % d == 0:
                q = x / d
                check(q.value == v // d, "runtime: %d / %d gave value %d" % (v, d, q.value))
                check_lc(q, "runtime: %d / %d" % (v, d))
                check_lc(q * d - x + 0, "runtime: (%d / %d) * d - x" % (v, d))
            else:
                try:
                    x / d; check(False, "runtime: inexact %d / %d accepted" % (v, d))
                except ValueError: check(True, "")
                rt.ignore_errors(True)
                try:
                    q = x / d
                    check(q.value * d % P == v % P, "runtime(ignore_errors): %d / %d gave value %d" % (v, d, q.value))
                    check_lc(q, "runtime(ignore_errors): %d / %d" % (v, d))
                finally:
                    rt.ignore_errors(False)
            check_constraints(start, "division %d / %d" % (v, d))
for v in VALS:
    for w in VALS[:9]:
        start = len(sj.constraints)
        x, y = PrivVal(v), PubVal(w)
        e = (x == y); n = (x != y)
        check(e.lc.value == int(v == w) and n.lc.value == int(v != w), "runtime: %d == %d / != gave %d / %d" % (v, w, e.lc.value, n.lc.value))
        check_lc(e.lc, "runtime: %d == %d" % (v, w)); check_lc(n.lc, "runtime: %d != %d" % (v, w))
        if v != w: (x - y).assert_nonzero()
        else:
            try: (x - y).assert_nonzero(); check(False, "assert_nonzero accepted zero")
            except AssertionError: check(True, "")
        z = if_then_else(e, x * 3, y - 4)
        check(z.value == (v * 3 if v == w else w - 4), "runtime: if_then_else value"); check_lc(z, "runtime: if_then_else")
        # lazy (guarded) branches: inverses inside a branch that is / is not taken
        rt.ignore_errors(True)
        try:
            def br_ne():
                d = x - y
                d.assert_nonzero()
                return (d * 6) / 3 + (d * 5) / -5
            def br_eq():
                return (x + y) / 2 + (x - y).check_zero().lc
            g = if_then_else(n, br_ne, br_eq)
        finally:
            rt.ignore_errors(False)
        check(g.value % P == ((v - w) if v != w else v + 1) % P, "runtime: guarded branches gave %d for %d,%d" % (g.value, v, w))
        check_lc(g, "runtime: guarded branches %d,%d" % (v, w))
        check_constraints(start, "comparisons %d ? %d" % (v, w))
# ignore_errors: assert_nonzero on zero emits an unsatisfiable constraint by design; everything else must hold
start = len(sj.constraints)
rt.ignore_errors(True)
try:
    for v in (5, -5, 123456789, -(1 << 40)):
        PrivVal(v).assert_nonzero(); (PubVal(v) * 3 - 1).assert_nonzero()
finally:
    rt.ignore_errors(False)
check_constraints(start, "assert_nonzero (ignore_errors)")

# decode what prove() writes and check the constraint system on the written witness
sj.prove()
def rd(f, n): return int.from_bytes(f.read(n), "little")
with open("witness.wtns", "rb") as f:
    check(f.read(4) == b"wtns", "wtns magic"); rd(f, 4); rd(f, 4)
    rd(f, 4); rd(f, 8); fs = rd(f, 4); prime = rd(f, fs); nw = rd(f, 4)
    rd(f, 4); rd(f, 8)
    W = [rd(f, fs) for _ in range(nw)]
    check(prime == P and f.read() == b"", "wtns header / trailing bytes")
with open("circuit.r1cs", "rb") as f:
    check(f.read(4) == b"r1cs", "r1cs magic"); rd(f, 4); rd(f, 4)
    rd(f, 4); rd(f, 8); fs = rd(f, 4); prime = rd(f, fs)
    nvars = rd(f, 4); nout = rd(f, 4); rd(f, 4); rd(f, 4); rd(f, 8); ncons = rd(f, 4)
    check(prime == P and nvars == len(W) and ncons == len(sj.constraints), "r1cs header")
    rd(f, 4); rd(f, 8)
    bad = 0
    for _ in range(ncons):
        ev = []
        for _ in range(3):
            n = rd(f, 4); s = 0
            for _ in range(n):
                w = rd(f, 4); c = rd(f, fs); s += c * W[w]
            ev.append(s % P)
        if ev[0] * ev[1] % P != ev[2]: bad += 1
    check(bad == 0, "written files: %d constraints fail on the written witness" % bad)

print("%d checks, %d violations (stub in use: %s)" % (NCHK[0], len(FAILS), USING_STUB))
sys.exit(1 if FAILS else 0)
