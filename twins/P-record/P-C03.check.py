#!/usr/bin/env python
"""
Evidence program for change P (C03): assert_range with constant integer bounds
decomposes the distances to the bounds into only as many bits as the width of
the range needs (one decomposition if the width is a power of two);
LinCombFxp.assert_range hands int/float bounds on as scaled integer constants.

The program checks the PROPERTY, not equality with the old behaviour:

 for every scenario (assertion kind, bounds, width/bitlength, guard, operand)
  (A) without ignore_errors the call is accepted iff the asserted relation
      holds in plain Python semantics (guard value 1 / no guard), and is always
      accepted under a guard with value 0;
  (B) whenever the call is accepted, every emitted R1CS constraint holds on
      the recorded witness;
  (C) whenever the relation is false (traced with ignore_errors), there is NO
      assignment of the auxiliary witness wires that satisfies the emitted
      constraints for the given operand values (exhaustive search: the solver
      below only prunes with necessary conditions);
  (D) on the constraint system emitted for one operand value, re-assigning
      the operand wire to other field elements (all of them for small test
      primes) gives a satisfiable system iff the relation holds for that
      element - i.e. the relation enforced in-circuit is exactly the one the
      run-time check applies;
  (E) the emitted constraint system does not depend on the operand value.

Run:  PYTHONPATH=<tree> /venv/bin/python P.check.py     (exit code 0 = held)
"""
import itertools
import os
import random
import sys
import warnings

os.environ["PYSNARK_BACKEND"] = "snarkjs"

import pysnark.runtime as rt
rt.autoprove = False                                   # never write files
import pysnark.snarkjsbackend as be
from pysnark.runtime import LinComb, PrivVal, PubVal, guarded
from pysnark.boolean import LinCombBool
from pysnark.fixedpoint import LinCombFxp, PrivValFxp
import pysnark.fixedpoint as fxpmod
from pysnark.branching import if_then_else

assert rt.backend is be
BIGP = be.snarkjsp
random.seed(20261004)

failures = []
stats = {"traces": 0, "accepted": 0, "unsat_proved": 0, "sat_found": 0, "refix": 0}


def fail(msg):
    failures.append(msg)
    if len(failures) <= 40:
        print("FAIL:", msg)


# --------------------------------------------------------------------------
# tracing

def reset(p, bl):
    be.constraints.clear()
    be.privvals.clear()
    be.pubvals.clear()
    be.snarkjsp = p
    rt.bitlength = bl
    rt.guard = None
    rt._ignore_errors = False
    LinComb.ONE = LinComb.ONE_SAFE


def trace(make_inputs, run, p, bl, ignore):
    """ returns (raised, constraints, witness, fixed wires, aux wires) """
    reset(p, bl)
    rt.ignore_errors(ignore)
    inputs = make_inputs()
    n0 = len(be.privvals)
    assert len(be.constraints) == 0, "inputs must not emit constraints"
    raised = None
    try:
        run(*inputs)
    except AssertionError as e:
        raised = e
    finally:
        rt.guard = None
        rt._ignore_errors = False
        LinComb.ONE = LinComb.ONE_SAFE
    stats["traces"] += 1
    cons = [tuple({k: v % p for (k, v) in l.lc.items() if v % p} for l in c) for c in be.constraints]
    wit = {0: 1}
    for (i, v) in enumerate(be.pubvals): wit[i + 1] = v % p
    for (i, v) in enumerate(be.privvals): wit[-(i + 1)] = v % p
    fixed = {0: 1}
    for i in range(n0): fixed[-(i + 1)] = wit[-(i + 1)]
    for i in range(len(be.pubvals)): fixed[i + 1] = wit[i + 1]
    aux = [-(i + 1) for i in range(n0, len(be.privvals))]
    return raised, cons, wit, fixed, aux


def holds(cons, wit, p):
    def ev(lc): return sum(c * wit[k] for (k, c) in lc.items()) % p
    return all((ev(a) * ev(b) - ev(c)) % p == 0 for (a, b, c) in cons)


# --------------------------------------------------------------------------
# exhaustive satisfiability of an R1CS in the auxiliary wires

class CannotDecide(Exception):
    pass


def satisfiable(cons, fixed, aux, p):
    """
    Is there an assignment of the wires in `aux` (over GF(p)) satisfying all
    constraints, with the other wires as in `fixed`?  Exhaustive: candidate
    values of a wire are only removed if a constraint in that wire alone
    excludes them, or if a linear constraint with super-increasing
    coefficients over 0/1 wires determines them.
    """
    assign = dict(fixed)
    dom = {w: None for w in aux}

    def red(lc):
        const = 0
        rest = {}
        for (k, c) in lc.items():
            if k in assign: const = (const + c * assign[k]) % p
            else: rest[k] = c
        return const, rest

    def setdom(w, s):
        s = set(s) if dom[w] is None else dom[w] & set(s)
        changed = (dom[w] is None) or (s != dom[w])
        dom[w] = s
        if len(s) == 1:
            assign[w] = next(iter(s))
        return changed

    changed = True
    while changed:
        changed = False
        for (a, b, c) in cons:
            (a0, ar), (b0, br), (c0, cr) = red(a), red(b), red(c)
            unknown = set(ar) | set(br) | set(cr)
            if not unknown:
                if (a0 * b0 - c0) % p != 0: return False
                continue
            if len(unknown) == 1:
                w = next(iter(unknown))
                a1, b1, c1 = ar.get(w, 0), br.get(w, 0), cr.get(w, 0)
                q2, q1, q0 = (a1 * b1) % p, (a1 * b0 + a0 * b1 - c1) % p, (a0 * b0 - c0) % p
                poly = lambda r: (q2 * r * r + q1 * r + q0) % p
                if q2 == 0 and q1 == 0:
                    if q0 != 0: return False
                    continue
                if q2 == 0:
                    roots = {(-q0 * pow(q1, -1, p)) % p}
                elif p < 1000:
                    roots = {r for r in range(p) if poly(r) == 0}
                elif poly(0) == 0 and poly(1) == 0:
                    roots = {0, 1}          # a non-zero quadratic has at most two roots
                else:
                    continue                # no pruning from this constraint
                if setdom(w, roots): changed = True
                if not dom[w]: return False
                continue
            if not ar or not br:
                # linear constraint: k0 + sum k_i w_i = 0
                lin = {}
                k0 = (a0 * b0 - c0) % p
                for (src, mul) in ((ar, b0), (br, a0)):
                    for (w, cf) in src.items(): lin[w] = (lin.get(w, 0) + cf * mul) % p
                for (w, cf) in cr.items(): lin[w] = (lin.get(w, 0) - cf) % p
                lin = {w: cf for (w, cf) in lin.items() if cf}
                if not lin or any(dom[w] != {0, 1} for w in lin): continue
                cent = {w: (cf if cf <= p // 2 else cf - p) for (w, cf) in lin.items()}
                sign = 1 if all(v > 0 for v in cent.values()) else -1 if all(v < 0 for v in cent.values()) else 0
                if sign == 0: continue
                items = sorted(((sign * v, w) for (w, v) in cent.items()))
                run, ok = 0, True
                for (v, w) in items:
                    if v <= run: ok = False
                    run += v
                if not ok or run >= p: continue
                # sum of chosen items ranges over [0, run] without wrap-around and
                # has a unique representation: greedy from the largest item
                target = (-sign * k0) % p
                if target > run: return False
                for (v, w) in reversed(items):
                    bit = 1 if target >= v else 0
                    target -= v * bit
                    setdom(w, {bit})
                if target != 0: return False
                changed = True

    rest = [w for w in aux if w not in assign]
    doms = []
    size = 1
    for w in rest:
        if dom[w] is None:
            if p >= 1000: raise CannotDecide("wire %d unbounded" % w)
            dom[w] = set(range(p))
        doms.append(sorted(dom[w]))
        size *= len(dom[w])
        if size > (1 << 18): raise CannotDecide("search space too large")
    for vals in itertools.product(*doms):
        wit = dict(assign)
        wit.update(zip(rest, vals))
        if holds(cons, wit, p): return True
    return False


# --------------------------------------------------------------------------
# generic scenario check

def check(name, p, bl, make_inputs, run, rel, guardval=1, refix=None):
    """
    make_inputs() creates the operand wires (first one: wire -1), run(*inputs)
    performs the assertion, rel is the truth value of the asserted relation
    for these operands, guardval the value of the enclosing guard (1 if none).
    refix: None or (candidates, relx) to re-assign wire -1 (property D)
    """
    tag = "%s p=%d bl=%d" % (name, p if p < 1000 else 0, bl)
    raised, cons, wit, fixed, aux = trace(make_inputs, run, p, bl, False)
    accepted = raised is None
    expected = bool(rel) or guardval == 0
    if accepted != expected:
        fail("%s: (A) accepted=%s but relation=%s guard=%s (%r)" % (tag, accepted, rel, guardval, raised))
    if accepted:
        stats["accepted"] += 1
        if not holds(cons, wit, p):
            fail("%s: (B) recorded witness violates an emitted constraint" % tag)
    # trace again with errors ignored: same circuit expected, whatever the values
    raised2, cons2, wit2, fixed2, aux2 = trace(make_inputs, run, p, bl, True)
    if raised2 is not None:
        fail("%s: raised under ignore_errors: %r" % (tag, raised2))
        return None
    if accepted and cons2 != cons:
        fail("%s: (E) constraints differ between ignore_errors and normal run" % tag)
    if guardval == 0:
        if not holds(cons2, wit2, p):
            fail("%s: guard 0 but recorded witness does not satisfy" % tag)
        return cons2
    try:
        sat = satisfiable(cons2, fixed2, aux2, p)
    except CannotDecide as e:
        fail("%s: solver could not decide: %s" % (tag, e))
        return cons2
    if sat != bool(rel):
        fail("%s: (C) relation is %s but constraint system satisfiable=%s" % (tag, bool(rel), sat))
    stats["sat_found" if sat else "unsat_proved"] += 1
    if refix is not None:
        cands, relx = refix
        for xv in cands:
            f = dict(fixed2)
            f[-1] = xv % p
            s = satisfiable(cons2, f, aux2, p)
            stats["refix"] += 1
            if s != bool(relx(xv % p)):
                fail("%s: (D) operand wire := %d: relation %s, satisfiable %s" % (tag, xv, relx(xv % p), s))
    return cons2


def range_rel(x, a, b, bl):
    """ relation enforced by assert_range with bitlength bl: the run-time check
        a <= x < b, and (only relevant for ranges wider than 2**bl, where the
        nested run-time checks of assert_positive reject) both distances to the
        bounds are bl-bit values """
    return a <= x < b and (x - a) < (1 << bl) and (b - 1 - x) < (1 << bl)


def range_rel_mod(xm, a, b, bl, p):
    """ the same for a field element xm: is there an integer x = xm (mod p) in the range """
    w = b - a
    if w <= 0: return False
    lo = max(0, w - (1 << bl))             # u=x-a with u<2**bl and w-1-u<2**bl
    hi = min(w - 1, (1 << bl) - 1)
    u = (xm - a) % p
    return lo <= u <= hi


shape = {}      # (kind, p, bl, a, b) -> constraints, for (E) across operand values


def same_shape(key, cons):
    if cons is None: return
    if key in shape:
        if shape[key] != cons: fail("%r: (E) constraint system depends on the operand value" % (key,))
    else:
        shape[key] = cons


# --------------------------------------------------------------------------
# scenarios

def scen_const_range(p, bl, a, b, x, refix=False, counts=None):
    mk = lambda: (PrivVal(x),)
    run = lambda X: X.assert_range(a, b)
    rf = None
    if refix:
        cands = range(p) if p < 1000 else sample_field(a, b, bl, p)
        rf = (cands, lambda xm: range_rel_mod(xm, a, b, bl, p))
    cons = check("assert_range(%d,%d) x=%d" % (a, b, x), p, bl, mk, run, range_rel(x, a, b, bl), refix=rf)
    same_shape(("const", p, bl, a, b), cons)
    if counts is not None and cons is not None: counts[(bl, b - a)] = len(cons)


def sample_field(a, b, bl, p):
    s = set()
    for base in (a, b, 0, a + (1 << bl), b - (1 << bl), a + (1 << (b - a - 1).bit_length() if b > a else 0)):
        for d in (-2, -1, 0, 1, 2): s.add((base + d) % p)
    s.update(((a + b) // 2 % p, (a - 1 + p) % p, p - 1, p // 2, p // 2 + 1))
    s.update(random.randrange(p) for _ in range(4))
    return sorted(s)


def scen_pub_operand(p, bl, a, b, x):
    mk = lambda: (PubVal(x),)
    run = lambda X: (X * 1 + 0).assert_range(a, b)
    check("assert_range(%d,%d) pub x=%d" % (a, b, x), p, bl, mk, run, range_rel(x, a, b, bl))


def scen_lc_range(p, bl, a, b, x, mode):
    if mode == "both":
        mk = lambda: (PrivVal(x), PrivVal(a), PrivVal(b))
        run = lambda X, A, B: X.assert_range(A, B)
    elif mode == "lo":
        mk = lambda: (PrivVal(x), PrivVal(a))
        run = lambda X, A: X.assert_range(A, b)
    else:
        mk = lambda: (PrivVal(x), PrivVal(b))
        run = lambda X, B: X.assert_range(a, B)
    cons = check("assert_range lc-%s (%d,%d) x=%d" % (mode, a, b, x), p, bl, mk, run, range_rel(x, a, b, bl))
    # bounds that are wires do not influence the shape either
    same_shape(("lc" + mode, p, bl, b if mode == "lo" else 0, a if mode == "hi" else 0), cons)


def scen_guarded(p, bl, a, b, x, g, how):
    mk = lambda: (PrivVal(x), PrivVal(g))
    if how == "guarded":
        run = lambda X, G: guarded(G)(lambda: X.assert_range(a, b))()
    elif how == "ite":
        def run(X, G):
            def branch():
                X.assert_range(a, b)
                return X
            if_then_else(LinCombBool(G, False), branch, X + 1)
    elif how == "ite-else":
        def run(X, G):
            def branch():
                X.assert_range(a, b)
                return X
            # assertion in the else-branch of the condition 1-G: active iff G == 1
            if_then_else(LinCombBool(1 - G, False), X + 1, branch)
    else:
        raise ValueError(how)
    cons = check("%s g=%d assert_range(%d,%d) x=%d" % (how, g, a, b, x), p, bl, mk, run,
                 range_rel(x, a, b, bl), guardval=g)
    same_shape((how, p, bl, a, b), cons)


def scen_nested(p, bl, a, b, x, g1, g2):
    mk = lambda: (PrivVal(x), PrivVal(g1), PrivVal(g2))
    run = lambda X, G1, G2: guarded(G1)(lambda: guarded(G2)(lambda: X.assert_range(a, b))())()
    check("nested g=%d,%d assert_range(%d,%d) x=%d" % (g1, g2, a, b, x), p, bl, mk, run,
          range_rel(x, a, b, bl), guardval=g1 & g2)


def scen_positive(p, bl, k, x):
    mk = lambda: (PrivVal(x),)
    run = lambda X: X.assert_positive(k)
    rf = None
    if p < 1000: rf = (range(p), lambda xm: xm < (1 << k))
    cons = check("assert_positive(bits=%d) x=%d" % (k, x), p, bl, mk, run, 0 <= x < (1 << k), refix=rf if x == 0 else None)
    same_shape(("pos", p, bl, k, 0), cons)


def scen_fxp(p, bl, lo, hi, xf, kinds, g=None):
    """ kinds: how the bounds are passed: 'c' python number, 'f' LinCombFxp wire, 'l' integer LinComb wire
        g: None or the value of a guard wire around the assertion (lazy if_then_else branch) """
    def bound(v, kind):
        if kind == "c": return v
        if kind == "f": return PrivValFxp(v)
        return PrivVal(v)
    def mk():
        X = PrivValFxp(xf)
        return (X.lc, bound(lo, kinds[0]), bound(hi, kinds[1])) + (() if g is None else (PrivVal(g),))
    def run(Xlc, L, H, G=None):
        X = LinCombFxp(Xlc, False)
        if G is None: return X.assert_range(L, H)
        def branch():
            X.assert_range(L, H)
            return X
        if_then_else(LinCombBool(G, False), branch, X + 1)
    s = 1 << fxpmod.resolution
    # all test values are multiples of 2**-resolution, so plain float comparison is exact;
    # width condition in scaled units
    X, A, B = int(xf * s), int(lo * s), int(hi * s)
    assert X == xf * s and A == lo * s and B == hi * s
    rel = (lo <= xf < hi) and (X - A) < (1 << bl) and (B - 1 - X) < (1 << bl)
    check("fxp assert_range[%s](%r,%r) x=%r g=%r" % (kinds, lo, hi, xf, g), p, bl, mk, run, rel, guardval=1 if g is None else g)


# --------------------------------------------------------------------------

def main():
    warnings.filterwarnings("error", message="Potential data loss")   # test values are exact at every resolution used
    counts = {}

    # 1. small primes, everything exhaustive (all field elements for property D)
    for (p, bls) in ((97, (1, 2, 3)), (257, (4,))):
        for bl in bls:
            top = 1 << bl
            for a in (-3, -1, 0, 1, 2, 5):
                for w in range(-2, top + 4):
                    b = a + w
                    xs = sorted(set(range(a - 2, a + 3)) | set(range(b - 3, b + 2)) | {a + top - 1, a + top, b - top - 1, b - top})
                    did_refix = False
                    for x in xs:
                        rf = (not did_refix) and (range_rel(x, a, b, bl) or w <= 0)
                        did_refix = did_refix or rf
                        scen_const_range(p, bl, a, b, x, refix=rf)
            for k in range(0, bl + 2):
                for x in range(-2, (1 << k) + 3):
                    scen_positive(p, bl, k, x)

    # guards / lazy branches / nesting on a small prime
    p, bl = 97, 3
    for (a, b) in ((0, 1), (-1, 3), (2, 5), (0, 8), (1, 8), (3, 3), (4, 2), (-2, 9)):
        for x in range(a - 2, max(a, b) + 3):
            for g in (0, 1):
                for how in ("guarded", "ite", "ite-else"):
                    scen_guarded(p, bl, a, b, x, g, how)
    for (a, b) in ((0, 4), (1, 4), (2, 3)):
        for x in range(a - 1, b + 2):
            for g1 in (0, 1):
                for g2 in (0, 1):
                    scen_nested(p, 2, a, b, x, g1, g2)

    # 2. the real field
    p = BIGP
    for bl in (1, 2, 3, 5, 8, 16, 32):
        top = 1 << bl
        widths = sorted({1, 2, 3, 4, 5, 7, 8, 9, 255, 256, 257, 1000, top - 1, top, top + 1, top // 2, top // 2 + 1, 2 * top, 0, -1})
        for w in widths:
            if w > 1 << 33: continue
            for a in (0, -7, 12345, -top, top - 1):
                b = a + w
                xs = sorted({a - 1, a, a + 1, b - 2, b - 1, b, b + 1, (a + b) // 2,
                             a + (1 << max(w - 1, 0).bit_length()) - 1, a + (1 << max(w - 1, 0).bit_length()),
                             b - 1 - (1 << max(w - 1, 0).bit_length()), a - top, b + top, a + top, b - top - 1})
                first = True
                for x in xs:
                    rf = first and range_rel(x, a, b, bl) and bl <= 16
                    first = first and not rf
                    scen_const_range(p, bl, a, b, x, refix=rf, counts=counts)
        for (a, b) in ((0, 2), (1, 2), (-5, 5), (3, 3 + top), (0, top + 1), (7, 6)):
            for x in (a - 1, a, b - 1, b, (a + b) // 2):
                for mode in ("both", "lo", "hi"):
                    scen_lc_range(p, bl, a, b, x, mode)
                scen_pub_operand(p, bl, a, b, x)
                if bl <= 8:
                    for g in (0, 1):
                        for how in ("guarded", "ite", "ite-else"):
                            scen_guarded(p, bl, a, b, x, g, how)
        for k in sorted({0, 1, 2, bl - 1, bl, bl + 1, 2 * bl}):
            if k < 0: continue
            for x in (-1, 0, 1, (1 << k) - 1, (1 << k), (1 << k) + 1, -(1 << k)):
                scen_positive(p, bl, k, x)

    # 3. fixed point
    for bl in (8, 16):
        for res in (0, 4, 8):
            fxpmod.resolution = res
            s = 1 << res
            vals = sorted({0.0, 1.0 / s, -1.0 / s, 0.5 if res else 1.0, 1.0, 1.0 - 1.0 / s, 2.0, -1.0, 3.0, 2.75 if res >= 2 else 2.0})
            bounds = ((0, 1), (0.0, 1.0), (-1, 1), (-1.0, 2.0), (0.5 if res else 0.0, 2.75 if res >= 2 else 3.0), (1, 1), (2.0, 1.0), (0, 3), (True, 2))
            for (lo, hi) in bounds:
                for xf in vals:
                    for kinds in ("cc", "cf", "fc", "ff", "cl", "lc"):
                        if "l" in kinds:
                            # integer LinComb bound: must be a python int value
                            v = lo if kinds[0] == "l" else hi
                            if isinstance(v, float) or isinstance(v, bool): continue
                        scen_fxp(p, bl, lo, hi, xf, kinds)
                        if kinds in ("cc", "cf") and bl == 8:
                            scen_fxp(p, bl, lo, hi, xf, kinds, g=0)
                            scen_fxp(p, bl, lo, hi, xf, kinds, g=1)
    fxpmod.resolution = 8

    # error text of the run-time check
    reset(BIGP, 16)
    for call in (lambda: PrivVal(9).assert_range(0, 8, err="custom"), lambda: PrivValFxp(9.0).assert_range(0, 8.0, err="custom")):
        try:
            call()
            fail("out-of-range value accepted")
        except AssertionError as e:
            if str(e) != "custom": fail("err= not used: %r" % e)
        except TypeError:
            pass    # unchanged tree: LinCombFxp.assert_range has no err parameter
    try:
        PrivVal(9).assert_range(0, 8)
        fail("out-of-range value accepted")
    except AssertionError as e:
        if str(e) != "9 is not in the range [0,8)": fail("unexpected message %r" % e)

    print("informational: constraints of assert_range(const,const) by (bitlength, width):")
    print("  ", ", ".join("bl=%d w=%d: %d" % (bl, w, n) for ((bl, w), n) in sorted(counts.items()) if bl in (8, 16) and 0 < w <= 1000))
    print("stats:", stats)
    if failures:
        print("%d FAILURES" % len(failures))
        return 1
    print("OK: property C03 held in all cases")
    return 0


if __name__ == "__main__":
    rc = main()
    sys.stdout.flush()
    os._exit(rc)        # skip atexit hooks: no backend output files
