#!/usr/bin/env python
"""
Evidence program for property C15 (secret-index array access reads and writes
exactly one element), aimed at the code changed by P: Array._onehot / _select /
_assign and the multi-dimensional write that builds the selector of a secret
leading index once.

Run from an empty directory:   PYTHONPATH=<tree> /venv/bin/python P.check.py

For every case (array shape x contents x index kinds x index values inside and
outside the bounds x operation x mode) the program records the R1CS emitted by
the snarkjs backend and checks the PROPERTY, not the implementation:

  1. every emitted constraint holds on the recorded witness;
  2. the values carried by the output wires (linear combinations evaluated on
     the witness, not the Python-side .value) equal plain Python list semantics:
     the read returns the element, the write replaces exactly that element and
     leaves all others as they were;
  3. soundness by propagation: taking only the input wires (array contents,
     index, written value, guard bit) as known, the constraints determine
     every wire the outputs depend on, and to the right value (so no other
     witness can make the circuit output something else);
  4. an index outside the array raises IndexError; with ignore_errors(True)
     (a prover who does not stop) some constraint is violated by the witness
     and the propagation derives a contradiction from the inputs alone, i.e.
     the statement cannot be proven; under a guard that is off nothing is
     raised, everything is satisfiable and nothing is changed;
  5. the list of constraints (every coefficient of every linear combination)
     is identical for all values of the secret indices, inside or outside the
     bounds, and for guard on / guard off.

Exit status 0 iff the property held in all cases.
"""
import itertools
import os
import random
import sys

os.environ["PYSNARK_BACKEND"] = "snarkjs"

import pysnark.runtime as rt
rt.autoprove = False
import pysnark.snarkjsbackend as be
from pysnark.runtime import PrivVal, PubVal, LinComb, ignore_errors
from pysnark.boolean import LinCombBool, PrivValBool
from pysnark.branching import if_then_else
from pysnark.array import Array

P = be.snarkjsp
problems = []
ncases = 0


def problem(case, msg):
    problems.append((case, msg))
    if len(problems) <= 25:
        print("PROPERTY VIOLATED", case, "::", msg)


# ---------------------------------------------------------------- R1CS helpers

def reset():
    be.constraints.clear()
    be.privvals.clear()
    be.pubvals.clear()
    ignore_errors(False)
    assert rt.guard is None and LinComb.ONE is LinComb.ONE_SAFE


def assignment():
    asg = {0: 1}
    for k, v in enumerate(be.pubvals): asg[k + 1] = v % P
    for k, v in enumerate(be.privvals): asg[-(k + 1)] = v % P
    return asg


def ev(lc, asg):
    return sum(c * asg[w] for w, c in lc.lc.items()) % P


def failing(asg):
    return [n for n, (a, b, c) in enumerate(be.constraints) if (ev(a, asg) * ev(b, asg) - ev(c, asg)) % P]


def structure():
    return tuple(tuple(tuple(sorted((w, c % P) for w, c in x.lc.items())) for x in con) for con in be.constraints)


def propagate(known):
    """ Unit propagation over the recorded constraints.  `known` maps the input
        wires to their values; a wire becomes known when some constraint is,
        after substituting the known wires, linear in it with a non-zero
        coefficient.  Returns ("contradiction", n) or ("ok", values). """
    vals = dict(known)

    def split(lc):
        a, unk = 0, {}
        for w, c in lc.lc.items():
            c %= P
            if c == 0: continue
            if w in vals: a = (a + c * vals[w]) % P
            else: unk[w] = (unk.get(w, 0) + c) % P
        return a, {w: c for w, c in unk.items() if c}

    pending = list(range(len(be.constraints)))
    progress = True
    while progress:
        progress = False
        rest = []
        for n in pending:
            A, B, C = be.constraints[n]
            (a1, u1), (a2, u2), (a3, u3) = split(A), split(B), split(C)
            if (not u1 and a1 == 0) or (not u2 and a2 == 0):
                a1, u1, a2, u2 = 0, {}, 0, {}       # product is 0 whatever the other factor: C == 0
            unk = set(u1) | set(u2) | set(u3)
            if not unk:
                if (a1 * a2 - a3) % P: return ("contradiction", n)
                continue
            if len(unk) == 1:
                (u,) = unk
                b1, b2, b3 = u1.get(u, 0), u2.get(u, 0), u3.get(u, 0)
                quad, lin, const = b1 * b2 % P, (a1 * b2 + a2 * b1 - b3) % P, (a1 * a2 - a3) % P
                if quad == 0:
                    if lin:
                        vals[u] = (-const * pow(lin, -1, P)) % P
                        progress = True
                        continue
                    if const: return ("contradiction", n)
                    continue
            rest.append(n)
        pending = rest
    return ("ok", vals)


# ------------------------------------------------------------- building arrays

def dims_of(shape): return len(shape)


def mk_elem(kind, v, pos):
    if kind == "mixed": kind = ("const", "secret", "public")[pos % 3]
    if kind == "const": return v
    if kind == "secret": return PrivVal(v)
    return PubVal(v)


def build(shape, kind, ctr=None, base=-7, step=10):
    """ nested Array of the given shape plus its plain-Python model (nested lists of ints) """
    if ctr is None: ctr = [0]
    if len(shape) == 1:
        els, model = [], []
        for _ in range(shape[0]):
            v = base + step * ctr[0]
            els.append(mk_elem(kind, v, ctr[0])); model.append(v)
            ctr[0] += 1
        return Array(els), model
    subs = [build(shape[1:], kind, ctr, base, step) for _ in range(shape[0])]
    return Array([s[0] for s in subs]), [s[1] for s in subs]


def const_array(shape, v):
    if len(shape) == 0: return v
    return Array([const_array(shape[1:], v) for _ in range(shape[0])])


def const_model(shape, v):
    if len(shape) == 0: return v
    return [const_model(shape[1:], v) for _ in range(shape[0])]


def clone(x):
    return Array([clone(e) for e in x.arr]) if isinstance(x, Array) else x


def clone_model(m):
    return [clone_model(e) for e in m] if isinstance(m, list) else m


def out_lcs(x, acc=None):
    """ flatten an output (int / LinComb / LinCombBool / Array) into a list of ints and backend lcs """
    if acc is None: acc = []
    if isinstance(x, Array):
        for e in x.arr: out_lcs(e, acc)
    elif isinstance(x, LinCombBool): acc.append(x.lc.lc)
    elif isinstance(x, LinComb): acc.append(x.lc)
    elif isinstance(x, int): acc.append(x)
    else: raise TypeError("unexpected output " + repr(x))
    return acc


def flat(m, acc=None):
    if acc is None: acc = []
    if isinstance(m, list):
        for e in m: flat(e, acc)
    else: acc.append(m)
    return acc


def shape_of_obj(x):
    return (len(x.arr),) + shape_of_obj(x.arr[0]) if isinstance(x, Array) else ()


def model_get(m, idx):
    for i in idx: m = m[i]
    return m


def model_set(m, idx, v):
    for i in idx[:-1]: m = m[i]
    m[idx[-1]] = v


# --------------------------------------------------------------- one operation

def apply_op(arr, op, idx, value):
    """ performs the operation on arr (in place for writes); returns the read result or None """
    if op == "get":
        return arr[idx if len(idx) > 1 else idx[0]]
    if op == "getchain":
        r = arr
        for i in idx: r = r[i]
        return r
    if op == "set":
        arr[idx if len(idx) > 1 else idx[0]] = value
        return None
    raise ValueError(op)


groups = {}   # structure of the constraint list per configuration, over all secret index values


def run_case(shape, kind, op, idxspec, vkind, mode):
    """ idxspec: tuple of ("s"|"p", value) per indexed dimension (may be shorter than shape)
        vkind  : kind of the written value ("const"/"secret"/"mixed"/"alias"), ignored for reads
        mode   : plain / ignore (ignore_errors) / guard_on / guard_off """
    global ncases
    ncases += 1
    case = (shape, kind, op, idxspec, vkind, mode)
    reset()
    arr, model = build(shape, kind)
    idx = tuple(PrivVal(v) if k == "s" else v for k, v in idxspec)
    midx = tuple(v for k, v in idxspec)
    oob = any(k == "s" and not 0 <= v < d for (k, v), d in zip(idxspec, shape))
    rest = shape[len(idxspec):]
    value = vmodel = None
    if op == "set":
        if vkind == "alias":     # the very object stored at position 0...0
            value = arr
            for _ in idxspec: value = value.arr[0]
            vmodel = clone_model(model_get(model, (0,) * len(idxspec)))
        elif rest:
            value, vmodel = build(rest, vkind, base=1001, step=3)
        else:
            value, vmodel = mk_elem(vkind, 555, 1), 555
    guardbit = None
    if mode in ("guard_on", "guard_off"):
        guardbit = PrivValBool(1 if mode == "guard_on" else 0)
    npriv0, npub0 = len(be.privvals), len(be.pubvals)

    raised = False
    result = None
    try:
        if mode == "ignore": ignore_errors(True)
        if guardbit is None:
            result = apply_op(arr, op, idx, value)
            final = arr
        elif op == "set":
            def branch():
                b = clone(arr)
                apply_op(b, op, idx, value)
                return b
            final = if_then_else(guardbit, branch, lambda: arr)
        else:
            final = arr
            result = if_then_else(guardbit, lambda: apply_op(arr, op, idx, value), lambda: const_array(rest, -1))
    except IndexError:
        raised = True
    finally:
        ignore_errors(False)
    if rt.guard is not None:
        problem(case, "guard not restored"); rt.guard = None; LinComb.ONE = LinComb.ONE_SAFE

    asg = assignment()
    known = {0: 1}
    for k in range(npub0): known[k + 1] = asg[k + 1]
    for k in range(npriv0): known[-(k + 1)] = asg[-(k + 1)]

    active = mode != "guard_off"
    if oob and mode in ("plain", "guard_on"):
        if not raised: problem(case, "index outside the array did not raise")
        return
    if raised:
        problem(case, "IndexError although " + ("index inside the array" if not oob else "errors are suppressed"))
        return

    key = (shape, kind, op, tuple((k, None if k == "s" else v) for k, v in idxspec), vkind, guardbit is not None)
    st = structure()
    if key in groups:
        if groups[key][0] != st:
            problem(case, "constraints differ from those for index values %r (%d vs %d constraints)" % (groups[key][1], len(st), len(groups[key][0])))
    else:
        groups[key] = (st, midx)

    bad = failing(asg)
    status = propagate(known)
    if oob and active:
        # mode == ignore: must be unprovable
        if not bad: problem(case, "index outside the array, yet all %d constraints hold on the witness" % len(be.constraints))
        if status[0] != "contradiction": problem(case, "index outside the array, yet the inputs do not contradict the constraints")
        return
    if bad:
        problem(case, "constraints %r violated by the witness" % bad[:5]); return
    if status[0] != "ok":
        problem(case, "inputs contradict constraint %d" % status[1]); return

    # expected outputs in plain Python
    exp_model = clone_model(model)
    exp_result = None
    if active:
        if op == "set": model_set(exp_model, midx, vmodel)
        else: exp_result = model_get(model, midx)
    elif op != "set":
        exp_result = const_model(rest, -1)

    outs = [("array", final, exp_model)]
    if op != "set": outs.append(("result", result, exp_result))
    for nm, obj, exp in outs:
        expshape = ()
        e = exp
        while isinstance(e, list): expshape += (len(e),); e = e[0]
        if shape_of_obj(obj) != expshape:
            problem(case, "%s has shape %r, expected %r" % (nm, shape_of_obj(obj), expshape)); continue
        for pos, (lc, want) in enumerate(zip(out_lcs(obj), flat(exp))):
            if isinstance(lc, int):
                if lc != want: problem(case, "%s[%d] is the constant %d, expected %d" % (nm, pos, lc, want))
                continue
            got = ev(lc, asg)
            if got != want % P:
                problem(case, "%s[%d] carries %d on the witness, expected %d" % (nm, pos, got if got < P // 2 else got - P, want))
            free = [w for w, c in lc.lc.items() if c % P and w not in status[1]]
            if free:
                problem(case, "%s[%d] depends on wires %r that the constraints do not determine" % (nm, pos, free))
            elif ev(lc, status[1]) != want % P:
                problem(case, "%s[%d] is forced to a wrong value by the constraints" % (nm, pos))


# ------------------------------------------------------------------ the sweeps

MODES = ("plain", "ignore", "guard_on", "guard_off")


def idx_values(kinds, shape):
    """ all index tuples: secret positions range over -2..dim+1, public ones over -dim..dim-1 """
    ranges = []
    for k, d in zip(kinds, shape):
        ranges.append([(k, v) for v in (range(-2, d + 2) if k == "s" else range(-d, d))])
    return itertools.product(*ranges)


def sweep_1d():
    for n in range(1, 6):
        for kind in ("const", "secret", "mixed"):
            for spec in idx_values("s", (n,)):
                for mode in MODES:
                    run_case((n,), kind, "get", spec, None, mode)
                    for vkind in ("const", "secret", "alias"):
                        run_case((n,), kind, "set", spec, vkind, mode)


def sweep_2d():
    for shape in ((1, 1), (2, 3), (3, 2), (1, 3), (3, 1)):
        for kind in ("const", "mixed"):
            for kinds in ("ss", "sp", "ps", "s"):
                for spec in idx_values(kinds, shape):
                    for mode in MODES:
                        run_case(shape, kind, "get", spec, None, mode)
                        if len(kinds) == 2:
                            run_case(shape, kind, "getchain", spec, None, mode)
                        for vkind in ("const", "secret") + (("alias",) if kind != "const" else ()):
                            run_case(shape, kind, "set", spec, vkind, mode)


def sweep_3d():
    for shape in ((2, 2, 2), (2, 1, 3)):
        for kinds in ("sss", "sps", "pss", "ssp", "ss", "sp"):
            for spec in idx_values(kinds, shape):
                for mode in MODES:
                    run_case(shape, "mixed", "get", spec, None, mode)
                    run_case(shape, "mixed", "set", spec, "mixed", mode)
    # one 4-dimensional array, indices inside the bounds and one outside
    shape = (2, 2, 1, 2)
    for vals in list(itertools.product(range(2), range(2), range(1), range(2))) + [(1, 2, 0, 0), (0, 0, 0, -1), (2, 0, 0, 0)]:
        for mode in MODES:
            spec = tuple(("s", v) for v in vals)
            run_case(shape, "mixed", "get", spec, None, mode)
            run_case(shape, "mixed", "set", spec, "secret", mode)


def sequences(rounds=60):
    """ random sequences of reads and writes on one array, checked against a list model at the end """
    global ncases
    rnd = random.Random(15)
    for r in range(rounds):
        ncases += 1
        shape = rnd.choice(((4,), (3, 3), (2, 3, 2), (3, 1, 2)))
        reset()
        arr, model = build(shape, rnd.choice(("const", "secret", "mixed")))
        case = ("sequence", r, shape)
        log = []
        poison = rnd.random() < 0.3     # one access outside the bounds under ignore_errors
        steps = rnd.randint(3, 7)
        poisoned_at = rnd.randrange(steps) if poison else None
        reads = []
        for s in range(steps):
            depth = rnd.randint(1, len(shape))
            kinds = [rnd.choice("ssp") for _ in range(depth)]
            vals = [rnd.randrange(d) for d in shape[:depth]]
            if s == poisoned_at:
                kinds[0] = "s"; vals[0] = rnd.choice((-1, shape[0], shape[0] + 3))
                ignore_errors(True)
            idx = tuple(PrivVal(v) if k == "s" else v for k, v in zip(kinds, vals))
            key = idx if depth > 1 else idx[0]
            log.append((kinds, vals))
            if rnd.random() < 0.5:
                got = arr[key]
                if s != poisoned_at: reads.append((got, clone_model(model_get(model, vals))))
            else:
                rest = shape[depth:]
                if rest: value, vmodel = build(rest, rnd.choice(("const", "secret")), base=5000 + 100 * s, step=1)
                else: value, vmodel = mk_elem(rnd.choice(("const", "secret")), 5000 + s, 1), 5000 + s
                arr[key] = value
                if s != poisoned_at: model_set(model, vals, vmodel)
        ignore_errors(False)
        asg = assignment()
        bad = failing(asg)
        if poison:
            if not bad: problem(case, "sequence with an index outside the array is satisfiable: %r" % log)
            continue
        if bad: problem(case, "constraints %r violated: %r" % (bad[:5], log)); continue
        for pos, (lc, want) in enumerate(zip(out_lcs(arr), flat(model))):
            got = lc if isinstance(lc, int) else ev(lc, asg)
            if got % P != want % P: problem(case, "after %r element %d carries %d, expected %d" % (log, pos, got, want))
        for got, want in reads:
            for lc, w in zip(out_lcs(got), flat(want)):
                g = lc if isinstance(lc, int) else ev(lc, asg)
                if g % P != w % P: problem(case, "read in %r returned %d, expected %d" % (log, g, w))


def nested_guards():
    """ access inside two nested lazy branches (guard = c1 & c2), witness evaluation only """
    global ncases
    for c1, c2 in itertools.product((0, 1), repeat=2):
        for i, j in itertools.product(range(-1, 4), range(-1, 3)):
            ncases += 1
            case = ("nested guards", c1, c2, i, j)
            reset()
            arr, model = build((3, 2), "mixed")
            b1, b2 = PrivValBool(c1), PrivValBool(c2)
            si, sj = PrivVal(i), PrivVal(j)
            oob = not (0 <= i < 3 and 0 <= j < 2)

            def inner():
                b = clone(arr)
                b[si, sj] = 77
                return b
            try:
                res = if_then_else(b1, lambda: if_then_else(b2, inner, lambda: arr), lambda: arr)
            except IndexError:
                if not (c1 and c2 and oob): problem(case, "unexpected IndexError")
                continue
            if c1 and c2 and oob: problem(case, "no IndexError"); continue
            asg = assignment()
            if failing(asg): problem(case, "constraints violated"); continue
            exp = clone_model(model)
            if c1 and c2: exp[i][j] = 77
            for lc, want in zip(out_lcs(res), flat(exp)):
                g = lc if isinstance(lc, int) else ev(lc, asg)
                if g % P != want % P: problem(case, "element carries %d, expected %d" % (g, want))


def counts():
    """ informational: cost of a[i,j]=v on an n x m constant array (selector of i built once or twice?) """
    for n, m in ((2, 3), (4, 4), (5, 2)):
        reset()
        arr, _ = build((n, m), "const")
        i, j = PrivVal(1), PrivVal(1)
        before = len(be.constraints)
        arr[i, j] = 9
        cost = len(be.constraints) - before
        once = (2 * n + 1) + (2 * m + 1) + m + n * m
        twice = once + (2 * n + 1)
        which = "selector of the leading index built once" if cost == once else "built twice" if cost == twice else "UNEXPECTED"
        print("a[i,j]=v on %dx%d constants: %d constraints (%s)" % (n, m, cost, which))
        if cost not in (once, twice):
            problem(("counts", n, m), "cost %d is neither %d nor %d" % (cost, once, twice))


if __name__ == "__main__":
    counts()
    sweep_1d()
    sweep_2d()
    sweep_3d()
    nested_guards()
    sequences()
    print("%d cases, %d constraint-list groups compared over all index values" % (ncases, len(groups)))
    if problems:
        print("FAILED: %d violations of C15" % len(problems))
        sys.exit(1)
    print("C15 held in all cases")
    sys.exit(0)
