# Evidence program for change P (nested guards combined by one multiplication,
# add_guard accepts LinCombBool).
#
# Run as:  PYTHONPATH=<tree> /venv/bin/python P.check.py      (from an empty directory)
#
# Property checked (C04): every LinComb object that exists at any point of a run
# reports a Python value that is congruent, modulo the field prime, to its linear
# combination evaluated on the recorded witness - in live regions, in regions whose
# guard is false, under nested guards, and with error checking on or off.
#
# How: the snarkjs backend is used in-process (it records the witness and every
# constraint in Python lists). LinComb.__init__ is wrapped so that EVERY LinComb that
# is ever constructed (intermediate or final, including the guards themselves and
# whatever LinComb.ONE is bound to) is remembered; after each scenario all of them are
# evaluated on the witness. In addition
#   - every emitted constraint is evaluated on the witness (must hold whenever the
#     program ran without a suppressed error in a live region),
#   - results in live regions are compared with plain Python semantics,
#   - the guard in force equals the product of the conditions, and entering a nested
#     guard costs exactly one constraint (only asserted when P is detected).

import itertools
import os
import random
import sys
import warnings

os.environ["PYSNARK_BACKEND"] = "snarkjs"
warnings.simplefilter("ignore")

import pysnark.runtime as rt
from pysnark.runtime import LinComb, PrivVal, PubVal, ConstVal, add_guard, restore_guard, guarded, ignore_errors
from pysnark.boolean import LinCombBool, PrivValBool, PubValBool
from pysnark.fixedpoint import LinCombFxp, PrivValFxp, PubValFxp
from pysnark.branching import if_then_else
import pysnark.snarkjsbackend as be

rt.autoprove = False          # nothing is written at exit
assert rt.backend is be, "this check needs the snarkjs backend"
P = be.get_modulus()

# ------------------------------------------------------------------ recording
created = []
_orig_init = LinComb.__init__
def _init(self, value, lc):
    _orig_init(self, value, lc)
    created.append(self)
LinComb.__init__ = _init

def reset():
    del created[:]
    del be.privvals[:]
    del be.pubvals[:]
    del be.constraints[:]
    rt.guard = None
    rt._ignore_errors = False
    LinComb.ONE = LinComb.ONE_SAFE
    rt.bitlength = 16

def ev(lc):
    tot = 0
    for k, c in lc.lc.items():
        if k == 0: w = 1
        elif k > 0: w = be.pubvals[k-1]
        else: w = be.privvals[-k-1]
        tot += c*w
    return tot % P

failures = []
stats = {"scenarios": 0, "objects": 0, "constraints": 0, "semantic": 0, "guardcost": 0}

def fail(msg):
    failures.append(msg)
    if len(failures) <= 20:
        print("VIOLATION:", msg)

def check_objects(tag, extra=()):
    """ the property itself: value == wire expression on the witness, mod p """
    for o in list(created) + list(extra):
        stats["objects"] += 1
        if not isinstance(o.value, int):
            fail("%s: non-integer value %r" % (tag, o.value)); continue
        if (o.value - ev(o.lc)) % P != 0:
            fail("%s: object reports %d but its wire expression evaluates to %d" % (tag, o.value, ev(o.lc)))

def check_constraints(tag):
    for i, (v, w, y) in enumerate(be.constraints):
        stats["constraints"] += 1
        if (ev(v)*ev(w) - ev(y)) % P != 0:
            fail("%s: constraint %d does not hold on the witness" % (tag, i))
            return

def lcs_of(x):
    if isinstance(x, LinComb): return [x]
    if isinstance(x, (LinCombBool, LinCombFxp)): return [x.lc]
    if isinstance(x, (list, tuple)): return [l for xi in x for l in lcs_of(xi)]
    return []

# ------------------------------------------------------------------ bodies
EXC = (ValueError, AssertionError, ZeroDivisionError, RuntimeError, TypeError, NotImplementedError, OverflowError)

def body(a, b, caught):
    """ a mixed bag of operations on secret values a, b (Python ints); every
        returned secret object is kept so that it is checked afterwards """
    out = []
    def run(f):
        try:
            r = f()
            out.append(r)
            return r
        except EXC as e:
            caught.append(e)
            return None
    x = PrivVal(a); y = PrivVal(b); z = PubVal(a)
    ops = [
        lambda: x+y, lambda: x-y, lambda: x*y, lambda: x*3-y*2+7, lambda: -x, lambda: 5-x,
        lambda: x/3, lambda: x/y, lambda: 12/x, lambda: x//y, lambda: x%y, lambda: divmod(x, 5), lambda: 7//x,
        lambda: x**3, lambda: x**0, lambda: x**(y*0+2), lambda: x<<2, lambda: x>>1, lambda: x>>y, lambda: x<<y,
        lambda: x&y, lambda: x|y, lambda: x^y, lambda: x&5, lambda: ~x, lambda: abs(x), lambda: abs(x-y),
        lambda: x<y, lambda: x<=y, lambda: x>y, lambda: x>=3, lambda: x==y, lambda: x!=y, lambda: x==a, lambda: 3<x,
        lambda: x.check_positive(), lambda: (x-y).check_positive(), lambda: x.check_zero(), lambda: x.check_nonzero(),
        lambda: x.to_bits(), lambda: x.to_bits(4), lambda: LinComb.from_bits(x.to_bits()[2:]),
        lambda: x.assert_positive(), lambda: x.assert_lt(y), lambda: x.assert_le(b), lambda: x.assert_eq(z),
        lambda: x.assert_ne(y), lambda: x.assert_gt(y), lambda: x.assert_ge(y), lambda: x.assert_range(0, 10),
        lambda: x.assert_zero(), lambda: x.assert_nonzero(), lambda: (x-z).assert_zero(),
        lambda: LinComb._ensurelc(5), lambda: LinComb._ensurelc(5)*x, lambda: LinComb.ONE*7+x, lambda: LinComb.ONE**0,
        lambda: x.if_else(y, z), lambda: x.val(), lambda: (x+y).val(),
        # Booleans
        lambda: LinCombBool(x), lambda: LinCombBool(x) & LinCombBool(y), lambda: LinCombBool(x) | y,
        lambda: LinCombBool(x) ^ LinCombBool(y), lambda: ~LinCombBool(x), lambda: LinCombBool(x) & 1,
        lambda: LinCombBool(x) ^ 1, lambda: LinCombBool(x) | 0, lambda: LinCombBool(x) == LinCombBool(y),
        lambda: LinCombBool(x) != 1, lambda: PrivValBool(a & 1) & PrivValBool(b & 1), lambda: PrivValBool(a & 1) + x,
        lambda: PrivValBool(a & 1) * y, lambda: PubValBool(b & 1).if_else(x, y), lambda: (x < y) & (y < 9),
        lambda: PrivValBool(a & 1).val(), lambda: LinCombBool(x) ** 3,
        # fixed point
        lambda: PrivValFxp(a) + PrivValFxp(b), lambda: PrivValFxp(a) * PrivValFxp(b), lambda: PrivValFxp(a) * 1.5,
        lambda: PrivValFxp(a) / PrivValFxp(b), lambda: PrivValFxp(a) / 2, lambda: PrivValFxp(a) / y, lambda: LinCombFxp(x) - 0.25,
        lambda: PrivValFxp(a) < PrivValFxp(b), lambda: PrivValFxp(a) == x, lambda: x < PrivValFxp(b), lambda: abs(PrivValFxp(a) - 2.5),
        lambda: PrivValFxp(a) ** 2, lambda: PrivValFxp(a) // PrivValFxp(b), lambda: PrivValFxp(a) % 3, lambda: PrivValFxp(a).val(),
        lambda: LinCombFxp(x) * y, lambda: LinCombFxp(x) >> 1, lambda: LinCombFxp(x) << 1,
        # nested lazy branches inside the body
        lambda: if_then_else(x < y, lambda: x/y if b else x, lambda: (y+1)*x),
        lambda: if_then_else(LinCombBool(x), lambda: if_then_else(x == y, lambda: x*x, lambda: 100//y), lambda: x**2),
    ]
    for f in ops:
        run(f)
    return out

def small_body(a, b, caught):
    """ operations that are well-defined for 0 <= a, b < 2**15 with b > 0: the program
        must run without any exception and agree with plain Python """
    x = PrivVal(a); y = PrivVal(b)
    res = {}
    res["add"] = (x+y, a+b); res["mul"] = (x*y, a*b); res["fdiv"] = (x//y, a//b); res["mod"] = (x%y, a%b)
    res["and"] = (x&y, a&b); res["or"] = (x|y, a|b); res["xor"] = (x^y, a^b); res["shr"] = (x>>3, a>>3)
    res["lt"] = (x<y, int(a<b)); res["le"] = (x<=y, int(a<=b)); res["eq"] = (x==y, int(a==b)); res["ne"] = (x!=y, int(a!=b))
    res["abs"] = (abs(x-y), abs(a-b)); res["pow"] = (x**2, a*a); res["exdiv"] = ((x*y)/y, a)
    res["ite"] = (if_then_else(x<y, lambda: y-x, lambda: x-y), abs(a-b))
    res["bool"] = ((x<y) & ~(x==y) | (x>y), int(a!=b))
    res["fxp"] = (PrivValFxp(a % 64) * PrivValFxp(1.5), None)
    return res

# ------------------------------------------------------------------ guard plumbing
P_detected = True
try:
    reset()
    bak = add_guard(PrivValBool(1)); restore_guard(bak)
except TypeError:
    P_detected = False
print("change P detected (add_guard accepts LinCombBool):", P_detected)

def mkcond(kind, v):
    """ a guard condition with value v """
    if kind == "lc":   return PrivVal(v)
    if kind == "pub":  return PubVal(v)
    if kind == "bool": return PrivValBool(v) if P_detected else PrivValBool(v).lc
    if kind == "notb": return (~PrivValBool(1-v)) if P_detected else (~PrivValBool(1-v)).lc
    if kind == "cmp":
        c = (PrivVal(3) < PrivVal(4 if v else 2))
        return c if P_detected else c.lc
    if kind == "expr": return PrivVal(v)*2 - PrivVal(v)      # a linear combination, not a single wire
    raise AssertionError(kind)

def condvalue(c): return c.lc.value if isinstance(c, LinCombBool) else c.value

def enter_nested(kinds, values, inner, tag):
    """ enters len(kinds) nested guards, runs inner() inside, checks the guard stack """
    baks = []
    prod = 1
    try:
        for k, v in zip(kinds, values):
            c = mkcond(k, v)             # computed under the enclosing guards
            n0 = rt.num_constraints
            depth_before = rt.guard is not None
            baks.append(add_guard(c))
            cost = rt.num_constraints - n0
            prod *= v
            g = rt.guard
            if g.value % P != prod % P and all(vv in (0, 1) for vv in values):
                fail("%s: guard reports %d, product of conditions is %d" % (tag, g.value, prod))
            if LinComb.ONE is not g:
                fail("%s: LinComb.ONE is not the guard in force" % tag)
            if (rt.ignore_errors() is not True) and prod == 0:
                fail("%s: error checking still on under a false guard" % tag)
            if P_detected:
                stats["guardcost"] += 1
                want = 1 if depth_before else 0
                if cost != want:
                    fail("%s: entering guard at depth %d cost %d constraints, expected %d" % (tag, len(baks), cost, want))
        return inner()
    finally:
        for bak in reversed(baks):
            restore_guard(bak)
        if rt.guard is not None or LinComb.ONE is not LinComb.ONE_SAFE or rt.ignore_errors():
            fail("%s: guard state not restored" % tag)

# ------------------------------------------------------------------ scenario families
rnd = random.Random(20240)
KINDS = ["lc", "pub", "bool", "notb", "cmp", "expr"]
NASTY = [0, 1, 2, 3, 5, 7, 12, 255, 256, 65535, 65536, 70000, -1, -2, -7, -65536, 1 << 40, -(1 << 40), P-1, P, P+1, 2*P+3]

def family_nested_bodies():
    """ all guard-value vectors up to depth 4, mixed condition kinds, nasty inputs """
    for depth in range(1, 5):
        for values in itertools.product((0, 1), repeat=depth):
            for rep in range(3 if depth < 4 else 2):
                kinds = [rnd.choice(KINDS) for _ in range(depth)]
                live = all(values)
                a, b = (rnd.choice(NASTY), rnd.choice(NASTY))
                if rep == 0: a, b = rnd.randrange(0, 200), rnd.randrange(1, 200)
                tag = "nested depth=%d values=%s kinds=%s a=%d b=%d" % (depth, values, kinds, a, b)
                reset()
                rt.bitlength = rnd.choice([8, 16])
                caught = []
                outs = []
                # also run a body at every intermediate level
                def inner():
                    outs.extend(body(a, b, caught))
                try:
                    enter_nested(kinds, values, inner, tag)
                except EXC as e:
                    caught.append(e)
                stats["scenarios"] += 1
                check_objects(tag, lcs_of(outs))
                if not (live and caught):
                    # dead regions: whatever went on inside, the proof must still go through
                    check_constraints(tag)

def family_levels():
    """ a body at every nesting level, on the way in and on the way out """
    for values in itertools.product((0, 1), repeat=3):
        for a, b in [(6, 3), (-5, 70000), (P+1, 0), (1, 1)]:
            tag = "levels values=%s a=%d b=%d" % (values, a, b)
            reset()
            caught = []
            outs = []
            def level(i):
                if i == len(values): return
                c = mkcond(KINDS[(i+a) % len(KINDS)], values[i])
                @guarded(c)
                def f():
                    outs.extend(body(a, b, caught))
                    level(i+1)
                    outs.extend(body(b, a, caught))
                f()
            outs.extend(body(a, b, caught))
            try: level(0)
            except EXC as e: caught.append(e)
            stats["scenarios"] += 1
            check_objects(tag, lcs_of(outs))

def family_semantics():
    """ valid inputs: no exception anywhere, constraints hold, results as in plain Python
        when the region is live; value == wire also when it is dead """
    for depth in range(0, 4):
        for values in itertools.product((0, 1), repeat=depth):
            for rep in range(4):
                a, b = rnd.randrange(0, 1 << 15), rnd.randrange(1, 1 << 15)
                if rep == 1: a, b = rnd.randrange(0, 50), rnd.randrange(1, 50)
                if rep == 2: a = b
                kinds = [rnd.choice(KINDS) for _ in range(depth)]
                tag = "semantics values=%s kinds=%s a=%d b=%d" % (values, kinds, a, b)
                reset()
                box = {}
                def inner(): box.update(small_body(a, b, []))
                try:
                    enter_nested(kinds, values, inner, tag) if depth else inner()
                except EXC as e:
                    fail("%s: unexpected %s: %s" % (tag, type(e).__name__, e)); continue
                stats["scenarios"] += 1
                check_objects(tag, lcs_of([r for r, _ in box.values()]))
                check_constraints(tag)
                if all(values):
                    for nm, (r, want) in box.items():
                        if want is None: continue
                        stats["semantic"] += 1
                        got = lcs_of(r)[0].value
                        if got != want:
                            fail("%s: %s gives %d, plain Python gives %d" % (tag, nm, got, want))

def family_lazy_branches():
    """ nested lazy if_then_else: nested guards are entered by the library itself """
    def prog(xs, cs):
        x = [PrivVal(v) for v in xs]
        c = [PrivValBool(v) for v in cs]
        return if_then_else(c[0],
            lambda: if_then_else(c[1],
                lambda: if_then_else(c[2], lambda: x[0]/x[1], lambda: x[0]*x[1]),
                lambda: if_then_else(~c[2], lambda: x[0]//x[1], lambda: (x[0] < x[1]) + x[2])),
            lambda: if_then_else(c[1] & c[2], lambda: x[2]**2, lambda: abs(x[0]-x[2]) + (x[1] >> 1)))
    def plain(xs, cs):
        if cs[0]:
            if cs[1]: return xs[0]//xs[1] if cs[2] else xs[0]*xs[1]
            return xs[0]//xs[1] if not cs[2] else int(xs[0] < xs[1]) + xs[2]
        return xs[2]**2 if (cs[1] and cs[2]) else abs(xs[0]-xs[2]) + (xs[1] >> 1)
    for cs in itertools.product((0, 1), repeat=3):
        for xs in [(12, 4, 7), (100, 5, 3), (7, 7, 0), (60, 1, 200), (11, 4, 9), (0, 3, 1)]:
            tag = "lazy cs=%s xs=%s" % (cs, xs)
            reset()
            try:
                r = prog(xs, cs)
            except EXC as e:
                # 11/4 in the taken branch is a user error; in a branch not taken it must not raise
                if cs[0] and cs[1] and cs[2] and xs[0] % xs[1]:
                    stats["scenarios"] += 1; check_objects(tag); continue
                fail("%s: unexpected %s: %s" % (tag, type(e).__name__, e)); continue
            stats["scenarios"] += 1
            check_objects(tag, [r])
            check_constraints(tag)
            stats["semantic"] += 1
            if r.value != plain(xs, cs):
                fail("%s: result %d, plain Python %d" % (tag, r.value, plain(xs, cs)))
            if rt.guard is not None: fail("%s: guard left behind" % tag)

def family_ignore_errors():
    """ error checking switched off by the user: guard conditions may be anything """
    for depth in range(1, 4):
        for rep in range(40):
            values = [rnd.choice([0, 1, 1, 2, -1, 3, P, P+1, 65536, -(1 << 20)]) for _ in range(depth)]
            kinds = [rnd.choice(["lc", "pub", "expr"]) for _ in range(depth)]
            a, b = rnd.choice(NASTY), rnd.choice(NASTY)
            tag = "ignore_errors values=%s kinds=%s a=%d b=%d" % (values, kinds, a, b)
            reset()
            rt.ignore_errors(True)
            caught = []
            outs = []
            baks = []
            try:
                for k, v in zip(kinds, values):
                    baks.append(add_guard(mkcond(k, v)))
                    outs.extend(body(a, b, caught))
            except EXC as e:
                caught.append(e)
            finally:
                for bak in reversed(baks): restore_guard(bak)
            rt.ignore_errors(False)
            stats["scenarios"] += 1
            check_objects(tag, lcs_of(outs))

def family_special_guards():
    """ guarded(LinComb.ONE) as in examples/bench.py, the same condition twice, int 1,
        rejected conditions """
    for v in (0, 1):
        for w in (0, 1):
            tag = "special v=%d w=%d" % (v, w)
            reset()
            caught = []
            outs = []
            c = PrivVal(v); d = PrivValBool(w)
            @guarded(c)
            def f():
                @guarded(LinComb.ONE)
                def g():
                    n0 = rt.num_constraints
                    @guarded(c)
                    def h():
                        @guarded(1)
                        def i():
                            @guarded(d if P_detected else d.lc)
                            def j():
                                outs.extend(body(9, 4, caught))
                                return rt.guard
                            return j()
                        return i()
                    return h()
                return g()
            gd = f()
            outs.append(gd)
            if gd.value != v*w: fail("%s: innermost guard reports %d" % (tag, gd.value))
            stats["scenarios"] += 1
            check_objects(tag, lcs_of(outs))
            check_constraints(tag)
    # conditions that must be refused with error checking on
    for bad in (2, -1, P+1):
        reset()
        try:
            bak = add_guard(PrivVal(bad)); restore_guard(bak)
            fail("guard value %d accepted with error checking on" % bad)
        except RuntimeError:
            pass
        if rt.guard is not None or LinComb.ONE is not LinComb.ONE_SAFE: fail("state changed by a refused guard")
    for bad in (0, 2):
        reset()
        try:
            add_guard(bad); fail("integer guard %d accepted" % bad)
        except RuntimeError: pass
    for bad in (1.0, "1", None, PrivValFxp(1)):
        reset()
        try:
            add_guard(bad); fail("guard of type %s accepted" % type(bad).__name__)
        except TypeError: pass
    # exception inside a guarded function restores the state
    reset()
    try:
        guarded(PrivVal(1))(lambda: guarded(PrivVal(1))(lambda: PrivVal(3)/PrivVal(2))())()
        fail("3/2 in a live region did not raise")
    except ValueError: pass
    if rt.guard is not None or LinComb.ONE is not LinComb.ONE_SAFE or rt.ignore_errors(): fail("state not restored after exception")
    check_objects("exception")

def family_bruteforce_guard_witness():
    """ the constraint entering a nested guard pins the new guard wire: for every
        assignment of small field elements to the new wire, the constraint holds iff the
        wire is the product of outer guard and condition """
    if not P_detected: return
    for gv in (0, 1):
        for cv in (0, 1):
            reset()
            bak1 = add_guard(PrivVal(gv))
            n0 = len(be.constraints)
            bak2 = add_guard(PrivVal(cv))
            new = be.constraints[n0:]
            g = rt.guard
            restore_guard(bak2); restore_guard(bak1)
            if len(new) != 1: fail("bruteforce: %d constraints" % len(new)); continue
            (idx, coef), = g.lc.lc.items()
            assert idx < 0 and coef == 1
            sat = []
            for cand in list(range(-3, 6)) + [P-1]:
                save = be.privvals[-idx-1]
                be.privvals[-idx-1] = cand
                v, w, y = new[0]
                if (ev(v)*ev(w) - ev(y)) % P == 0: sat.append(cand % P)
                be.privvals[-idx-1] = save
            if sat != [gv*cv]:
                fail("bruteforce gv=%d cv=%d: satisfying values for the guard wire %s" % (gv, cv, sat))
            stats["scenarios"] += 1

for fam in (family_special_guards, family_bruteforce_guard_witness, family_lazy_branches, family_semantics,
            family_levels, family_nested_bodies, family_ignore_errors):
    fam()
    print("%-36s done; totals so far: %s" % (fam.__name__, stats))

reset()
if failures:
    print("FAILED: %d violations" % len(failures))
    sys.exit(1)
print("OK: value == wire expression on the recorded witness for all %d objects in %d scenarios" % (stats["objects"], stats["scenarios"]))
sys.exit(0)
