#!/usr/bin/env python
"""
Evidence program for change P (secret booleans as shift counts / exponents of integers).

Run as   PYTHONPATH=<tree> /venv/bin/python P.check.py   from an empty directory.

It re-runs itself once per backend (nobackend, snarkjs) and checks property C05 for the new code paths

    LinComb << LinCombBool     LinComb >> LinCombBool     LinComb ** LinCombBool
    int     << LinCombBool     int     >> LinCombBool     int     ** LinCombBool

  1. VALUES: for every bitlength setting, operand kind, operand value (negative, zero, boundary of the
     bitlength range, beyond it), kind of boolean and execution mode (plain, ignore_errors, active guard,
     inactive guard, nested guards, lazy if_then_else branches) the result either equals what Python
     computes on plain integers or the operation raises; inside the documented domain it does not raise.
  2. WITNESS (snarkjs backend): every constraint emitted by the operation is evaluated on the recorded
     witness and must hold (also in inactive guarded branches, where the guard dummies absorb it).
  3. CIRCUIT (snarkjs backend, small bitlengths): the circuit emitted for one input is re-solved for every
     other input by brute force over all boolean wires plus propagation; exactly one output value may be
     consistent with the constraints and it must be the Python value (so the result is not only computed
     correctly by the honest prover, it is also pinned down by the constraints).

Exit status 0 iff the property held in all cases. On a tree without P the operations raise TypeError
(unsupported operand), which the property allows ("or raises"); the program then only reports that.
"""
import os, sys, subprocess

BACKENDS = ["nobackend", "snarkjs"]

if "P_CHECK_CHILD" not in os.environ:
    bad = 0
    for be in BACKENDS:
        env = dict(os.environ); env["P_CHECK_CHILD"] = "1"; env["PYSNARK_BACKEND"] = be
        r = subprocess.run([sys.executable, os.path.abspath(__file__)], env=env)
        if r.returncode != 0:
            print("*** backend %s: FAILED (exit %d)" % (be, r.returncode)); bad = 1
    print("P.check: " + ("PROPERTY VIOLATED" if bad else "property held in all cases"))
    sys.exit(bad)

# ---------------------------------------------------------------------------------------------- child
import pysnark.runtime as rt
rt.autoprove = False
from pysnark.runtime import PrivVal, PubVal, ConstVal, LinComb, guarded, ignore_errors
from pysnark.boolean import LinCombBool, PrivValBool, PubValBool
from pysnark.branching import if_then_else

BE = rt.backend_name
SNARKJS = BE == "snarkjs"
if SNARKJS:
    import pysnark.snarkjsbackend as sj
    P_MOD = sj.snarkjsp

failures = []
stats = {"values": 0, "raised": 0, "unsupported": 0, "constraints": 0, "circuits": 0}

def fail(msg):
    failures.append(msg)
    if len(failures) <= 25: print("  VIOLATION [%s]: %s" % (BE, msg))

# ------------------------------------------------------------------ witness evaluation (snarkjs only)
def wire(ix):
    if ix == 0: return 1
    return sj.pubvals[ix-1] if ix > 0 else sj.privvals[-ix-1]

def lcval(lc, assign=None):
    tot = 0
    for k, c in lc.lc.items():
        v = wire(k) if assign is None or k not in assign else assign[k]
        if v is None: return None
        tot += c*v
    return tot % P_MOD

def mark(reset=False):
    if not SNARKJS: return 0
    if reset: del sj.constraints[:]       # wires stay recorded, only the constraint list is recycled
    return len(sj.constraints)

def check_new_constraints(start, what):
    if not SNARKJS: return
    for (a, b, c) in sj.constraints[start:]:
        stats["constraints"] += 1
        if (lcval(a)*lcval(b) - lcval(c)) % P_MOD != 0:
            fail("%s: emitted constraint does not hold on the recorded witness" % what); return

# ------------------------------------------------------------------ operand factories
def x_kinds(x):
    yield "priv",  lambda: PrivVal(x)
    yield "pub",   lambda: PubVal(x)
    yield "const", lambda: ConstVal(x)
    yield "expr",  lambda: PrivVal(x-3)*1 + PubVal(1)*3
    yield "int",   lambda: x

def b_kinds(b):
    yield "privbool", lambda: PrivValBool(b)
    yield "pubbool",  lambda: PubValBool(b)
    yield "cmp",      lambda: PrivVal(7) == (7 if b else 8)
    yield "not",      lambda: ~PrivValBool(1-b)
    yield "and",      lambda: PrivValBool(1) & PrivValBool(b)

OPS = {
    "<<": (lambda X, B: X << B, lambda x, b: x << b),
    ">>": (lambda X, B: X >> B, lambda x, b: x >> b),
    "**": (lambda X, B: X ** B, lambda x, b: x ** b),
}

def in_domain(op, xkind, x, bl):
    # '>>' on a secret integer decomposes it into bitlength bits: non-negative bitlength-bit values only
    if op == ">>" and xkind != "int": return 0 <= x < (1 << bl)
    return True

def value_of(res):
    if isinstance(res, LinComb): return res.value
    if isinstance(res, LinCombBool): return res.lc.value
    if isinstance(res, int): return res
    raise RuntimeError("unexpected result type " + str(type(res)))

supported = None
def probe():
    global supported
    try:
        PrivVal(1) << PrivValBool(1); supported = True
    except TypeError:
        supported = False
        print("  [%s] this tree has no LinCombBool shift counts / exponents: only 'or raises' is checked" % BE)

def run_case(op, xk, mkx, bk, mkb, x, b, bl, mode):
    """ one evaluation of  X op B  in the given mode; returns nothing, records failures """
    what = "bitlength=%d mode=%s  %s(%d) %s %s(%d)" % (bl, mode, xk, x, op, bk, b)
    fn, ref = OPS[op]
    expect = ref(x, b)
    start = mark(reset=True)
    relaxed = False          # '>>' on out-of-range operands with errors ignored: same value as the existing x >> 1
    try:
        if mode == "plain":
            res = fn(mkx(), mkb())
        elif mode == "ignore":
            old = ignore_errors(); ignore_errors(True)
            try:
                X = mkx(); res = fn(X, mkb())
                if not in_domain(op, xk, x, bl):
                    relaxed = True
                    expect = x if b == 0 else value_of(X >> 1)
            finally: ignore_errors(old)
        elif mode in ("guard1", "guard0", "nested"):
            g = PrivValBool(0 if mode == "guard0" else 1)
            def body():
                X = mkx(); r = fn(X, mkb())
                return r, (value_of(X >> 1) if (op == ">>" and xk != "int" and not in_domain(op, xk, x, bl)) else None)
            if mode == "nested":
                inner = guarded(PrivValBool(1).lc)(body)
                res, base = guarded(g.lc)(inner)()
            else:
                res, base = guarded(g.lc)(body)()
            if base is not None:      # only reachable when errors are ignored, i.e. in the inactive branch
                relaxed = True; expect = x if b == 0 else base
        elif mode in ("lazy1", "lazy0"):
            c = PrivValBool(1 if mode == "lazy1" else 0)
            other = 12345
            res = if_then_else(c, lambda: fn(mkx(), mkb()) + 0, lambda: PrivVal(other))
            if mode == "lazy0": expect = other
        else:
            raise RuntimeError(mode)
    except TypeError as e:
        if supported is False: stats["unsupported"] += 1; return
        fail(what + ": TypeError " + str(e)); return
    except Exception as e:
        stats["raised"] += 1
        if in_domain(op, xk, x, bl):
            fail(what + ": raised %s(%s) on operands inside the documented domain" % (type(e).__name__, e))
        elif mode in ("guard0", "ignore", "lazy0"):
            fail(what + ": raised %s(%s) although errors are to be ignored here" % (type(e).__name__, e))
        return
    got = value_of(res)
    stats["values"] += 1
    if got != expect:
        fail(what + ": returned %d, Python gives %d" % (got, expect))
    if not (mode == "ignore" and relaxed):    # with errors explicitly ignored the circuit is knowingly unsatisfied
        check_new_constraints(start, what)

def values_for(bl):
    h = 1 << (bl-1); f = 1 << bl
    vs = {0, 1, 2, 3, -1, -2, -3, h-1, h, h+1, -h, -h-1, -h+1, f-1, f, f+1, -f, -f+1, 3*f+5, -(3*f+5), 1 << 40, -(1 << 40)+1}
    return sorted(vs)

def value_checks():
    for bl in (1, 2, 3, 8, 16, 33):
        rt.bitlength = bl
        for x in values_for(bl):
            for b in (0, 1):
                for op in OPS:
                    for xk, mkx in x_kinds(x):
                        for bk, mkb in b_kinds(b):
                            # all modes for the principal kinds, the plain mode for every combination
                            modes = ["plain"]
                            if bk in ("privbool", "cmp") and xk in ("priv", "expr", "int"):
                                modes += ["ignore", "guard1", "guard0", "nested", "lazy1", "lazy0"]
                            for mode in modes:
                                run_case(op, xk, mkx, bk, mkb, x, b, bl, mode)
    # chains: the result of one new operation feeds the next
    if not supported: return
    rt.bitlength = 8
    for x in (0, 1, 5, 100, 127):
        for b1 in (0, 1):
            for b2 in (0, 1):
                start = mark()
                r = ((PrivVal(x) << PrivValBool(b1)) >> PrivValBool(b2)) ** PrivValBool(b1 ^ b2)
                if r.value != ((x << b1) >> b2) ** (b1 ^ b2):
                    fail("chain x=%d b1=%d b2=%d: %d" % (x, b1, b2, r.value))
                check_new_constraints(start, "chain")
                stats["values"] += 1

def cost_checks():
    if not supported: return
    rt.bitlength = 10
    def cost(fn):
        n = rt.num_constraints; fn(); return rt.num_constraints - n
    B = PrivValBool(1); X = PrivVal(5)
    exp = {"<<": 1, "**": 1, ">>": rt.bitlength + 2}
    for op in OPS:
        c = cost(lambda: OPS[op][0](X, B))
        if c != exp[op]: print("  note [%s]: LinComb %s LinCombBool costs %d constraints (documented %d)" % (BE, op, c, exp[op]))
        c = cost(lambda: OPS[op][0](5, B))
        if c != 0: print("  note [%s]: int %s LinCombBool costs %d constraints (documented 0)" % (BE, op, c))

# ------------------------------------------------------------------ circuit re-solving (snarkjs only)
def norm(lc):
    return {k: c % P_MOD for k, c in lc.lc.items() if c % P_MOD}

def is_bool_constraint(a, b, c):
    a, b, c = norm(a), norm(b), norm(c)
    if c or len(a) != 1: return None
    (w, ca), = a.items()
    if w == 0 or ca != 1: return None
    if b == {0: 1, w: P_MOD-1}: return w
    return None

def solve_outputs(cons, fixed, unknown, out_lc):
    """ all values the output can take in assignments of `unknown` wires satisfying `cons`, given `fixed` """
    boolw = sorted({w for con in cons for w in [is_bool_constraint(*con)] if w is not None and w in unknown})
    outs = set()
    for mask in range(1 << len(boolw)):
        asg = dict(fixed)
        for i, w in enumerate(boolw): asg[w] = (mask >> i) & 1
        for w in unknown:
            if w not in asg: asg[w] = None
        progress = True
        while progress:
            progress = False
            for (a, b, c) in cons:
                va, vb = lcval(a, asg), lcval(b, asg)
                if va is None or vb is None: continue
                nc = norm(c)
                unk = [w for w in nc if asg.get(w, 0) is None]
                if len(unk) == 1:
                    w = unk[0]
                    rest = sum(cf * (asg[k] if k in asg else wire(k)) for k, cf in nc.items() if k != w)
                    asg[w] = ((va*vb - rest) * pow(nc[w], -1, P_MOD)) % P_MOD
                    progress = True
        if any(v is None for v in asg.values()):
            return None                       # not determined by propagation: report as failure
        if all((lcval(a, asg)*lcval(b, asg) - lcval(c, asg)) % P_MOD == 0 for (a, b, c) in cons):
            outs.add(lcval(out_lc, asg))
    return outs

def circuit_checks():
    if not SNARKJS or not supported: return
    for bl in (1, 2, 3, 4):
        rt.bitlength = bl
        for op in OPS:
            fn, ref = OPS[op]
            for x0, b0 in ((0, 0), (1, 1), ((1 << bl) - 1, 1), ((1 << bl) - 1, 0)):
                np0 = len(sj.privvals); start = mark()
                X = PrivVal(x0); B = PrivValBool(b0)
                xw, = X.lc.lc.keys(); bw, = B.lc.lc.lc.keys()
                R = fn(X, B)
                cons = sj.constraints[start:]
                unknown = [-(i+1) for i in range(np0, len(sj.privvals)) if -(i+1) not in (xw, bw)]
                lo, hi = (0, 1 << bl) if op == ">>" else (-(1 << bl) - 2, (1 << bl) + 3)
                for x in range(lo - 2, hi + 2):
                    for b in (0, 1, 2):
                        outs = solve_outputs(cons, {xw: x % P_MOD, bw: b}, unknown, R.lc)
                        stats["circuits"] += 1
                        what = "circuit of %d %s %d at bitlength %d re-solved for x=%d b=%d" % (x0, op, b0, bl, x, b)
                        if outs is None:
                            fail(what + ": witness wires not determined"); continue
                        if b == 2:
                            if outs: fail(what + ": non-boolean count accepted")
                        elif op == ">>" and not (0 <= x < (1 << bl)):
                            if outs: fail(what + ": out-of-range operand accepted with output(s) %s" % outs)
                        elif outs != {ref(x, b) % P_MOD}:
                            fail(what + ": consistent outputs %s, Python gives %d" % (outs, ref(x, b)))

probe()
value_checks()
cost_checks()
circuit_checks()
print("  [%s] %d values compared with Python, %d raised, %d unsupported, %d constraints evaluated, %d circuits re-solved, %d violations"
      % (BE, stats["values"], stats["raised"], stats["unsupported"], stats["constraints"], stats["circuits"], len(failures)))
sys.exit(1 if failures else 0)
