# Evidence program for change P (pysnark/pack.py: strict plain inputs, zero-width fields, length checks).
# Run:  PYTHONPATH=<tree> /venv/bin/python P.check.py      (exit 0 = property C16 held in every case)
#
# Everything is checked on the recorded R1CS of the snarkjs backend: every constraint emitted by a
# pack / unpack / to_bits call is evaluated on the recorded witness, and for small widths the bit wires
# are brute-forced to show that no other assignment satisfies the constraints.
import itertools
import os
import random
import sys

os.environ["PYSNARK_BACKEND"] = "snarkjs"

import pysnark.runtime as rt
import pysnark.snarkjsbackend as be
from pysnark.runtime import PrivVal, PubVal, LinComb, guarded, ignore_errors
from pysnark.boolean import LinCombBool, PrivValBool
from pysnark.pack import PackBool, PackIntMod, PackList, PackRepeat, PackSeed

rt.autoprove = False
P = be.snarkjsp
rnd = random.Random(16)
failures = []
ncases = 0


def fail(msg):
    failures.append(msg)
    if len(failures) <= 25:
        print("FAIL:", msg)


def wire(k, priv=None, pub=None):
    if k == 0:
        return 1
    if k > 0:
        return (pub or be.pubvals)[k - 1]
    return (priv or be.privvals)[-k - 1]


def ev(lc, priv=None, pub=None):
    return sum(c * wire(k, priv, pub) for (k, c) in lc.lc.items()) % P


def holds(con, priv=None, pub=None):
    return (ev(con[0], priv, pub) * ev(con[1], priv, pub) - ev(con[2], priv, pub)) % P == 0


class Rec:
    """ records the constraints / witness wires created inside the with block """
    def __enter__(self):
        self.c0 = len(be.constraints)
        self.w0 = len(be.privvals)
        return self

    def __exit__(self, *a):
        self.cons = be.constraints[self.c0:]
        self.wires = range(self.w0, len(be.privvals))
        return False

    def allhold(self):
        return all(holds(c) for c in self.cons)


def plainval(x):
    """ plain Python structure out of whatever unpack returned """
    if isinstance(x, (list, tuple)):
        return [plainval(i) for i in x]
    if isinstance(x, LinCombBool):
        return x.lc.value
    if isinstance(x, LinComb):
        return x.value
    return int(x)


MODS = [1, 1, 2, 3, 4, 5, 7, 8, 9, 16, 17, 255, 256, 257, 1 << 16, (1 << 16) + 1, (1 << 20) + 3, 1 << 40]


def schema(depth):
    k = rnd.randrange(0, 10 if depth > 0 else 6)
    if k < 2:
        return PackBool()
    if k < 6:
        return PackIntMod(rnd.choice(MODS))
    if k < 8:
        return PackList([schema(depth - 1) for _ in range(rnd.randrange(0, 5))])
    return PackRepeat(schema(depth - 1), rnd.randrange(0, 4))


def leaves(sch, val, path=()):
    """ (path, packer, value) for every leaf """
    if isinstance(sch, PackList):
        for ix, (s, v) in enumerate(zip(sch.lst, val)):
            yield from leaves(s, v, path + (ix,))
    elif isinstance(sch, PackRepeat):
        for ix, v in enumerate(val):
            yield from leaves(sch.packer, v, path + (ix,))
    else:
        yield (path, sch, val)


def mapleaves(sch, val, fn):
    if isinstance(sch, PackList):
        return [mapleaves(s, v, fn) for (s, v) in zip(sch.lst, val)]
    if isinstance(sch, PackRepeat):
        return [mapleaves(sch.packer, v, fn) for v in val]
    return fn(sch, val)


def setpath(val, path, new):
    if not path:
        return new
    val = list(val)
    val[path[0]] = setpath(val[path[0]], path[1:], new)
    return val


def secretleaf(sch, v):
    if isinstance(sch, PackBool) and rnd.random() < 0.5:
        return PrivValBool(v)
    if isinstance(sch, PackIntMod) and v in (0, 1) and rnd.random() < 0.2:
        return PrivValBool(v)
    return PrivVal(v) if rnd.random() < 0.8 else PubVal(v)


def bitvalue(b):
    return plainval(b)


def roundtrip(sch, val, mode):
    try:
        _roundtrip(sch, val, mode)
    except Exception as e:
        fail("%s round trip of %r raises %s: %s" % (mode, val, type(e).__name__, str(e)[:80]))


def _roundtrip(sch, val, mode):
    """ mode: plain | secret | mixed | imported (plain bits turned into witnesses, as examples/secretsanta.py does) """
    global ncases
    ncases += 1
    tag = mode + " " + repr(val)[:70]
    plainbits = sch.pack(val)
    if len(plainbits) != sch.bitlen():
        return fail("plain pack gives %d bits, bitlen() says %d: %s" % (len(plainbits), sch.bitlen(), tag))
    if any(not isinstance(b, int) or b not in (0, 1) for b in plainbits):
        return fail("plain pack gives non-bits: " + tag)
    if mode == "plain":
        back = sch.unpack(plainbits, 0)
        if back != val:
            fail("plain round trip %r -> %r" % (val, back))
        # also in the middle of a longer bit string
        pad = [rnd.randrange(2) for _ in range(rnd.randrange(0, 4))]
        if sch.unpack(pad + plainbits + [1, 0, 1], len(pad)) != val:
            fail("plain round trip at an offset: " + tag)
        return
    with Rec() as r:
        if mode == "imported":
            bits = [PrivValBool(b).lc for b in plainbits]
        else:
            sval = mapleaves(sch, val, (lambda s, v: secretleaf(s, v)) if mode == "secret" else
                             (lambda s, v: secretleaf(s, v) if rnd.random() < 0.5 else v))
            bits = sch.pack(sval)
        if len(bits) != sch.bitlen():
            fail("%s pack gives %d bits, bitlen() says %d: %s" % (mode, len(bits), sch.bitlen(), tag))
            return
        if [bitvalue(b) for b in bits] != plainbits:
            fail("%s pack gives other bits than plain pack: %s" % (mode, tag))
        back = sch.unpack(bits, 0)
    if plainval(back) != val:
        fail("%s round trip %r -> %r" % (mode, val, plainval(back)))
    if not r.allhold():
        fail("%s round trip emitted a constraint its own witness violates: %s" % (mode, tag))


def expect(exc, fn, what):
    global ncases
    ncases += 1
    try:
        fn()
    except exc:
        return
    except Exception as e:
        return fail("%s: expected %s, got %s: %s" % (what, exc.__name__, type(e).__name__, e))
    fail("%s: accepted (expected %s)" % (what, exc.__name__))


# ---------------------------------------------------------------------------------------------------
# 1. round trips over random schemas, plain / secret / mixed / imported, under several global bitlengths
for it in range(400):
    sch = schema(3)
    val = sch.random()
    rt.bitlength = rnd.choice([3, 16, 40])
    roundtrip(sch, val, "plain")
    roundtrip(sch, val, "secret")
    roundtrip(sch, val, "mixed")
    rt.bitlength = 48       # unpack of LinComb bits compares with the modulus at the global bitlength
    roundtrip(sch, val, "imported")
rt.bitlength = 16

# fixed corner cases: zero-width fields everywhere, empty containers
corner = [
    (PackIntMod(1), 0), (PackList([]), []), (PackRepeat(PackBool(), 0), []), (PackRepeat(PackIntMod(1), 3), [0, 0, 0]),
    (PackList([PackIntMod(1)]), [0]), (PackList([PackBool(), PackIntMod(1)]), [1, 0]),
    (PackList([PackIntMod(1), PackBool()]), [0, 1]), (PackList([PackBool(), PackIntMod(1), PackIntMod(4)]), [1, 0, 3]),
    (PackList([PackList([]), PackIntMod(3), PackRepeat(PackList([PackIntMod(1), PackIntMod(2)]), 2)]), [[], 2, [[0, 1], [0, 0]]]),
    (PackSeed(5), [1, 0, 1, 1, 0]), (PackList([PackIntMod(2), PackIntMod(1 << 40)]), [1, (1 << 40) - 1]),
    (PackList([PackBool(), PackBool()]), [True, False]),
]
for sch, val in corner:
    for mode in ("plain", "secret", "mixed", "imported", "secret", "mixed"):
        rt.bitlength = 48 if mode == "imported" else 16
        roundtrip(sch, val, mode)
rt.bitlength = 16

# 2. out-of-range / malformed plain values are rejected, wherever they sit in the structure
for it in range(300):
    sch = PackList([schema(2) for _ in range(rnd.randrange(1, 4))])
    val = sch.random()
    lv = list(leaves(sch, val))
    if not lv:
        continue
    path, leaf, v = rnd.choice(lv)
    if isinstance(leaf, PackBool):
        bad = [2, -1, 3, 1 << 20]
    else:
        n = leaf.bitlen()
        bad = [-1, leaf.mod, leaf.mod + 1, 1 << n, (1 << n) + 1, -leaf.mod, -(1 << n)]
    for b in bad:
        expect(ValueError, lambda: sch.pack(setpath(val, path, b)), "out-of-range plain %r at %r" % (b, path))
    for b in [1.0, 0.5, "1", None, [0]]:
        expect(TypeError, lambda: sch.pack(setpath(val, path, b)), "non-integer plain %r at %r" % (b, path))

for sch, val in [(PackList([PackBool(), PackIntMod(5)]), [1, 4]), (PackRepeat(PackIntMod(5), 2), [3, 4]),
                 (PackList([PackRepeat(PackBool(), 2), PackBool()]), [[1, 0], 1])]:
    expect(ValueError, lambda: sch.pack(val[:-1]), "too few values")
    expect(ValueError, lambda: sch.pack(val + [0]), "too many values")
    expect(ValueError, lambda: sch.pack([]), "no values")
    bits = sch.pack(val)
    expect(ValueError, lambda: sch.unpack(bits[:-1], 0), "truncated bit string")
    expect(ValueError, lambda: sch.unpack(bits, 1), "bit string too short from offset")
    ncases += 1
    if sch.pack(tuple(val)) != bits or sch.pack(iter(val)) != bits:
        fail("tuples / iterators pack differently")
for m in [0, -1, -5]:
    expect(ValueError, lambda: PackIntMod(m), "modulus %d" % m)
expect(TypeError, lambda: PackIntMod(2.5), "modulus 2.5")


# 3. decomposition at the requested width (what PackIntMod.pack relies on for secret inputs)
def widths_values():
    for n in list(range(0, 8)) + [15, 16, 17, 33]:
        if n <= 6:
            vals = range(-3, (1 << n) + 4)
        else:
            vals = [0, 1, (1 << (n - 1)), (1 << n) - 1, 1 << n, (1 << n) + 1, -1, -(1 << n), 1 << (n + 3)]
        for v in vals:
            yield n, v


def check_decomposition(n, v, how):
    global ncases
    ncases += 1
    inrange = 0 <= v < (1 << n)
    what = "%s width %d value %d bitlength %d" % (how, n, v, rt.bitlength)
    with Rec() as r:
        x = PrivVal(v)
        try:
            if how == "to_bits":
                bits = x.to_bits(n)
            elif how == "assert_positive":
                bits = x.assert_positive(n)
            else:
                bits = PackIntMod(1 << n).pack(x)
            raised = False
        except AssertionError:
            raised = True
    if inrange:
        if raised:
            return fail("rejected: " + what)
        if how != "assert_positive":
            if len(bits) != n:
                return fail("%d bits returned: %s" % (len(bits), what))
            if plainval(LinComb.from_bits(bits)) != v:
                fail("recomposition differs: " + what)
            if [bitvalue(b) for b in bits] != [(v >> i) & 1 for i in range(n)]:
                fail("wrong bits: " + what)
        if len(r.cons) != n + 1:
            fail("%d constraints instead of %d: %s" % (len(r.cons), n + 1, what))
        if not r.allhold():
            fail("witness violates constraints: " + what)
    else:
        if not raised:
            return fail("out-of-range value accepted: " + what)
        # the same call with errors suppressed must leave an unsatisfied system of the same shape
        ignore_errors(True)
        try:
            with Rec() as r2:
                x = PrivVal(v)
                (x.to_bits(n) if how == "to_bits" else x.assert_positive(n) if how == "assert_positive"
                 else PackIntMod(1 << n).pack(x))
        except Exception as e:
            fail("raises with errors ignored (%s): %s" % (e, what))
            return
        finally:
            ignore_errors(False)
        if len(r2.cons) != n + 1:
            fail("%d constraints instead of %d with errors ignored: %s" % (len(r2.cons), n + 1, what))
        if r2.allhold():
            fail("out-of-range value satisfies the constraints: " + what)


for bl in (3, 16, 40):
    rt.bitlength = bl
    for n, v in widths_values():
        for how in ("to_bits", "assert_positive", "pack"):
            check_decomposition(n, v, how)
rt.bitlength = 16


# 4. brute force: for small widths no other assignment of the wires satisfies the emitted constraints
def brute(n, build, nvals):
    """ build(x) emits the circuit on witness x; all wires made after x are enumerated over {0,1,2,-1} """
    global ncases
    ncases += 1
    try:
        with Rec() as r:
            x = PrivVal(0)
            build(x)
    except Exception as e:
        return fail("width %d: building the circuit raises %s: %s" % (n, type(e).__name__, str(e)[:80]))
    wires = list(r.wires)
    xw, rest = wires[0], wires[1:]
    if len(rest) != n:
        return fail("width %d: %d bit wires allocated" % (n, len(rest)))
    priv = list(be.privvals)
    for xv in range(-2, nvals + 3):
        priv[xw] = xv
        sols = []
        for asg in itertools.product([0, 1, 2, -1], repeat=len(rest)):
            for w, a in zip(rest, asg):
                priv[w] = a
            if all(holds(c, priv) for c in r.cons):
                sols.append(asg)
        if 0 <= xv < nvals:
            want = tuple((xv >> i) & 1 for i in range(n))
            if sols != [want]:
                fail("width %d value %d: satisfying bit assignments %r, expected only %r" % (n, xv, sols, want))
        elif sols:
            fail("width %d: value %d outside the range has satisfying assignment %r" % (n, xv, sols[0]))


for n in range(0, 5):
    brute(n, lambda x: x.to_bits(n), 1 << n)
    brute(n, lambda x: x.assert_positive(n), 1 << n)
    brute(n, lambda x: PackIntMod(1 << n).pack(x), 1 << n)
for m in [1, 2, 3, 5, 6, 7, 8, 11, 16]:
    nb = (m - 1).bit_length()
    brute(nb, lambda x: PackIntMod(m).pack(x), 1 << nb)     # secret in: checked against the width only
    brute(nb, lambda x: PackList([PackIntMod(1), PackIntMod(m), PackList([])]).pack([0, x, []]), 1 << nb)


# 5. the same under guards (lazy if_then_else branches): active guard = normal behaviour, inactive guard =
#    nothing raised, all constraints satisfied, circuit of the same shape
def guarded_case(sch, val, gv):
    global ncases
    ncases += 1
    g = PrivValBool(gv)
    out = {}

    def body():
        sval = mapleaves(sch, val, lambda s, v: PrivVal(v))
        out["bits"] = sch.pack(sval)
        out["back"] = sch.unpack(out["bits"], 0)
    with Rec() as r:
        try:
            guarded(g.lc)(body)()
        except Exception as e:
            return fail("guard=%d: %s: %s on %r" % (gv, type(e).__name__, e, val)), None
    if len(out["bits"]) != sch.bitlen():
        fail("guard=%d: %d bits instead of %d" % (gv, len(out["bits"]), sch.bitlen()))
    if not r.allhold():
        fail("guard=%d: constraints violated by own witness on %r" % (gv, val))
    return out, len(r.cons)


for it in range(150):
    sch = schema(2)
    val = sch.random()
    o1, c1 = guarded_case(sch, val, 1) or (None, None)
    o0, c0 = guarded_case(sch, val, 0) or (None, None)
    if o1 is None or o0 is None:
        continue
    if plainval(o1["back"]) != val:
        fail("guard=1 round trip %r -> %r" % (val, plainval(o1["back"])))
    if plainval(o0["back"]) != val:
        fail("guard=0, in-range round trip %r -> %r" % (val, plainval(o0["back"])))
    if c0 != c1:
        fail("circuit shape depends on the guard value: %d vs %d constraints" % (c0, c1))
    # out-of-range secret value inside an inactive branch: no exception, satisfiable
    lv = [l for l in leaves(sch, val) if isinstance(l[1], PackIntMod)]
    if lv:
        path, leaf, v = rnd.choice(lv)
        bad = setpath(val, path, (1 << leaf.bitlen()) + rnd.randrange(0, 3)) if path else (1 << leaf.bitlen())
        o, c = guarded_case(sch, bad, 0) or (None, None)
        if o is not None and c != c1:
            fail("circuit shape depends on the witness inside an inactive branch")
        # ... and in an active branch it is rejected
        ncases += 1
        try:
            guarded(PrivValBool(1).lc)(lambda: sch.pack(mapleaves(sch, bad, lambda s, v: PrivVal(v))))()
            fail("out-of-range secret %r accepted in an active branch" % (bad,))
        except AssertionError:
            pass

print("%d cases, %d failures" % (ncases, len(failures)))
sys.exit(1 if failures else 0)
