# Evidence program for property C07 ("a false guard makes code inert; a true guard is transparent").
#
#   PYTHONPATH=<tree> /venv/bin/python P.check.py          (from an empty directory)
#
# It traces many guarded bodies (all operators / assertions of LinComb, valid and invalid operands)
# under 1..3 nested secret guards, for every combination of guard values and for several ways of
# installing a guard (lazy if_then_else in the true and in the false position, runtime.guarded with a
# LinComb / LinCombBool / public 1, statement style _if/_endif when the tree supports it) and checks on
# the snarkjs backend, which records every constraint and every witness value:
#
#   some guard false : nothing raises; EVERY recorded constraint holds on the recorded witness (mod p);
#                      the value returned is the value of the other branch; and that value is FORCED by
#                      the constraints: a propagation solver that only knows the input wires derives it.
#   all guards true  : same value / same exception (type and message) as the unguarded run of the same
#                      body; same satisfaction status; and the SAME ENFORCEMENT: after the wires that
#                      the constraints force (guard wires = 1, slack wires = 0) are substituted, the
#                      guarded constraint system is, constraint by constraint, the unguarded one.
#   always           : guard / ignore_errors / LinComb.ONE are restored afterwards; unguarded results
#                      agree with plain Python semantics.
#
# The same value / exception checks are then repeated on nobackend in a subprocess, and one circuit is
# written with prove() and the .r1cs / .wtns files are decoded and evaluated.
# Exit status 0 iff everything held.

import os, sys, itertools, subprocess, struct

LIGHT = (os.environ.get("C07_LIGHT") == "1")          # nobackend pass: values / exceptions only
if not LIGHT:
    os.environ["PYSNARK_BACKEND"] = "snarkjs"

from pysnark import runtime
runtime.autoprove = False
from pysnark.runtime import LinComb, PrivVal, PubVal, ConstVal
from pysnark.boolean import LinCombBool, PrivValBool
from pysnark.branching import if_then_else, BranchingValues, _if, _endif

B = runtime.backend
P = B.get_modulus()
assert LIGHT or runtime.backend_name == "snarkjs", runtime.backend_name

failures = []
counts = {"zerodiv": 0, "runs": 0, "false": 0, "true": 0, "reduced": 0, "forced": 0, "stmt": 0}

def fail(msg):
    failures.append(msg)
    if len(failures) <= 25:
        print("VIOLATION:", msg)

# ---------------------------------------------------------------------------------------------------
# recorded constraint system
# ---------------------------------------------------------------------------------------------------

def reset(bitlength):
    if not LIGHT:
        B.constraints.clear(); B.privvals.clear(); B.pubvals.clear()
    runtime.guard = None
    runtime._ignore_errors = False
    LinComb.ONE = LinComb.ONE_SAFE
    runtime.bitlength = bitlength

def wireval(ix):
    if ix == 0: return 1
    return B.pubvals[ix-1] if ix > 0 else B.privvals[-ix-1]

def evlc(lc):
    return sum(c*wireval(ix) for (ix, c) in lc.lc.items()) % P

def unsatisfied():
    return [i for (i, (a, b, c)) in enumerate(B.constraints) if (evlc(a)*evlc(b) - evlc(c)) % P != 0]

def split(lc, known):
    """ lc with the known wires substituted: (constant, {unknown wire: coefficient}) """
    const = 0; unk = {}
    for (ix, c) in lc.lc.items():
        c %= P
        if c == 0: continue
        if ix == 0: const += c
        elif ix in known: const += c*known[ix]
        else: unk[ix] = (unk.get(ix, 0) + c) % P
    return const % P, {ix: c for (ix, c) in unk.items() if c}

def inv(x): return pow(x, P-2, P)

def signed(c): return c if c <= P//2 else c-P

def propagate(known):
    """ Derive wires whose value is FORCED by the constraints given the wires in `known`.
        Sound rules only: (L) a constraint one of whose factors is fully known is linear; with a single
        unknown wire it determines it.  (B) w*(1-w)=0 makes w a bit; a linear equation over bits whose
        coefficients are distinct powers of two of one sign has at most one solution.
        Returns False when the known values contradict a constraint. """
    known = dict(known)
    bits = set()
    consistent = True
    changed = True
    while changed:
        changed = False
        for (a, b, c) in B.constraints:
            ka, ua = split(a, known); kb, ub = split(b, known); kc, uc = split(c, known)
            if ua and ub:
                # booleanity pattern: both factors mention the same single wire, right-hand side known zero
                if not uc and kc == 0 and len(ua) == 1 and len(ub) == 1 and list(ua) == list(ub):
                    w = list(ua)[0]
                    r1 = (-ka*inv(ua[w])) % P; r2 = (-kb*inv(ub[w])) % P
                    if {r1, r2} == {0, 1} and w not in bits:
                        bits.add(w); changed = True
                continue
            # linear: k*(other factor) - c = 0
            if not ua: k, (ko, uo) = ka, (kb, ub)
            else:      k, (ko, uo) = kb, (ka, ua)
            const = (k*ko - kc) % P
            lin = {}
            for (ix, co) in uo.items(): lin[ix] = (lin.get(ix, 0) + k*co) % P
            for (ix, co) in uc.items(): lin[ix] = (lin.get(ix, 0) - co) % P
            lin = {ix: co for (ix, co) in lin.items() if co}
            if not lin:
                if const != 0: consistent = False
            elif len(lin) == 1:
                (ix, co), = lin.items()
                known[ix] = (-const*inv(co)) % P
                changed = True
            elif all(ix in bits for ix in lin):
                cs = [signed(co) for co in lin.values()]
                sgn = 1 if cs[0] > 0 else -1
                mags = [sgn*x for x in cs]
                if all(m > 0 and m & (m-1) == 0 for m in mags) and len(set(mags)) == len(mags) and sum(mags) < P//2:
                    target = signed((-const*sgn) % P)
                    if 0 <= target <= sum(mags) and target & ~sum(mags) == 0:
                        for (ix, m) in zip(lin.keys(), mags): known[ix] = 1 if target & m else 0
                        changed = True
    return known, consistent

def lcvalue(lc, known):
    """ the value the constraints force on the linear combination lc given the known wires, or None.
        First by substitution; failing that by Gaussian elimination over all constraints that are
        linear once the known wires are substituted (e + 1*(w - e) is forced although w is not). """
    k, u = split(lc, known)
    if not u: return k
    pivots = []                                     # (pivot wire, {wire: coef} with pivot coef 1, const):  sum + const = 0
    def reduce_by(row, const, piv):
        (pw, prow, pconst) = piv
        f = row.get(pw, 0)
        if f:
            for (ix, co) in prow.items():
                row[ix] = (row.get(ix, 0) - f*co) % P
                if not row[ix]: del row[ix]
            const = (const - f*pconst) % P
        return const
    for (a, b, c) in B.constraints:
        ka, ua = split(a, known); kb, ub = split(b, known); kc, uc = split(c, known)
        if ua and ub: continue
        if not ua: kk, (ko, uo) = ka, (kb, ub)
        else:      kk, (ko, uo) = kb, (ka, ua)
        const = (kk*ko - kc) % P
        row = {}
        for (ix, co) in uo.items(): row[ix] = (row.get(ix, 0) + kk*co) % P
        for (ix, co) in uc.items(): row[ix] = (row.get(ix, 0) - co) % P
        row = {ix: co for (ix, co) in row.items() if co}
        for piv in pivots: const = reduce_by(row, const, piv)
        if not row: continue
        pw = max(row, key=abs)                      # youngest wire as pivot
        f = inv(row[pw])
        pivots.append((pw, {ix: co*f % P for (ix, co) in row.items()}, const*f % P))
    row = dict(u); const = k                        # value = row + const; subtracting multiples of (prow + pconst = 0)
    for piv in pivots: const = reduce_by(row, const, piv)
    return None if row else const % P

def reduced_system(known, rng, inputs):
    """ the constraints recorded while the body ran (index range rng), with the wires that the WHOLE system
        forces substituted and the trivially true constraints dropped; remaining wires are named by their
        rank in allocation order """
    known, consistent = propagate(known)
    rows = []
    unknown = set()
    for (a, b, c) in B.constraints[rng[0]:rng[1]]:
        sa, sb, sc = split(a, known), split(b, known), split(c, known)
        if not sa[1] and not sb[1] and not sc[1]:
            if (sa[0]*sb[0] - sc[0]) % P != 0: consistent = False
            continue
        # a known zero factor leaves a linear statement about c only
        if (not sa[1] and sa[0] == 0) or (not sb[1] and sb[0] == 0):
            sa, sb = (0, {}), (0, {})
        rows.append((sa, sb, sc))
    for (a, b, c) in B.constraints:
        for s in (a, b, c): unknown.update(ix for ix in split(s, known)[1])
    # input wires keep their number (the same in every run); the others are named by age
    order = sorted((ix for ix in unknown if ix not in inputs), key=lambda ix: (ix < 0, abs(ix)))
    rank = {ix: "w%d" % i for (i, ix) in enumerate(order)}
    rank.update({ix: "in%d" % ix for ix in inputs})
    canon = lambda s: (s[0], tuple(sorted((rank[ix], co) for (ix, co) in s[1].items())))
    return [tuple(canon(s) for s in row) for row in rows], consistent

# ---------------------------------------------------------------------------------------------------
# bodies: (function of two LinCombs, plain-Python reference or None, flags)
#   flags: 'd' divides by the wire y (informative only), 'g' installs a guard of its own on a condition
#   computed inside the body (the constraint-by-constraint comparison is skipped for it)
#   A divisor wire that is 0 raises "Division by zero" whatever the guard is, on the unchanged tree too
#   (P.notes.md, "Not touched"): those runs are counted separately, not judged.
# ---------------------------------------------------------------------------------------------------

def ret_x(f):
    def g(x, y):
        f(x, y)
        return x
    return g

INVALID = object()

def pyref(f):
    def g(a, b, bl):
        try: return f(a, b, bl)
        except (ZeroDivisionError, ValueError, OverflowError): return INVALID
    return g

def fits(v, bl): return 0 <= v < (1 << bl)

BODIES = {
  "mul":          (lambda x, y: x*y,                pyref(lambda a, b, bl: a*b), ""),
  "linear":       (lambda x, y: 3*x - y + 5,        pyref(lambda a, b, bl: 3*a-b+5), ""),
  "rsub":         (lambda x, y: 9 - x*y,            pyref(lambda a, b, bl: 9-a*b), ""),
  "truediv":      (lambda x, y: x/y,                pyref(lambda a, b, bl: a//b if a % b == 0 else INVALID), "d"),
  "truediv_int":  (lambda x, y: x/3,                pyref(lambda a, b, bl: a//3 if a % 3 == 0 else INVALID), ""),
  "rtruediv":     (lambda x, y: 12/y,               pyref(lambda a, b, bl: 12//b if 12 % b == 0 else INVALID), "d"),
  "floordiv":     (lambda x, y: x//y,               None, "d"),
  "mod":          (lambda x, y: x % y,              None, "d"),
  "divmod":       (lambda x, y: list(divmod(x, y)), None, "d"),
  "floordiv_int": (lambda x, y: x//3,               None, ""),
  "rmod":         (lambda x, y: 17 % y,             None, "d"),
  "pow_int":      (lambda x, y: x**3,               pyref(lambda a, b, bl: a**3), ""),
  "pow_zero":     (lambda x, y: x**0 + y,           pyref(lambda a, b, bl: 1+b), ""),
  "pow_lc":       (lambda x, y: x**y,               None, ""),
  "rpow":         (lambda x, y: 2**y,               None, ""),
  "lshift_int":   (lambda x, y: x << 2,             pyref(lambda a, b, bl: a << 2), ""),
  "rshift_int":   (lambda x, y: x >> 1,             pyref(lambda a, b, bl: a >> 1 if fits(a, bl) else INVALID), ""),
  "lshift_lc":    (lambda x, y: x << y,             None, ""),
  "rshift_lc":    (lambda x, y: x >> y,             None, ""),
  "and":          (lambda x, y: x & y,              pyref(lambda a, b, bl: a & b if fits(a, bl) and fits(b, bl) else INVALID), ""),
  "or":           (lambda x, y: x | y,              pyref(lambda a, b, bl: a | b if fits(a, bl) and fits(b, bl) else INVALID), ""),
  "xor":          (lambda x, y: x ^ y,              pyref(lambda a, b, bl: a ^ b if fits(a, bl) and fits(b, bl) else INVALID), ""),
  "and_int":      (lambda x, y: (x & 5) + y,        pyref(lambda a, b, bl: (a & 5)+b), ""),
  "abs":          (lambda x, y: abs(x - y),         None, ""),
  "neg":          (lambda x, y: -x + (+y),          pyref(lambda a, b, bl: -a+b), ""),
  "lt":           (lambda x, y: x < y,              None, ""),
  "le":           (lambda x, y: x <= y,             None, ""),
  "eq":           (lambda x, y: x == y,             pyref(lambda a, b, bl: int(a == b)), ""),
  "ne":           (lambda x, y: x != y,             pyref(lambda a, b, bl: int(a != b)), ""),
  "gt":           (lambda x, y: x > y,              None, ""),
  "ge":           (lambda x, y: x >= y,             None, ""),
  "lt_int":       (lambda x, y: x < 5,              None, ""),
  "boolops":      (lambda x, y: ((x == y) | (x == 3)) & ~(y == 2), pyref(lambda a, b, bl: int((a == b or a == 3) and b != 2)), ""),
  "boolxor":      (lambda x, y: (x == y) ^ (x == 3), pyref(lambda a, b, bl: int((a == b) != (a == 3))), ""),
  "check_zero":   (lambda x, y: (x - y).check_zero(),    pyref(lambda a, b, bl: int(a == b)), ""),
  "check_nonzero":(lambda x, y: (x - y).check_nonzero(), pyref(lambda a, b, bl: int(a != b)), ""),
  "check_positive":(lambda x, y: (x - y).check_positive(), None, ""),
  "assert_lt":    (ret_x(lambda x, y: x.assert_lt(y)),   pyref(lambda a, b, bl: a if a < b and fits(b-a-1, bl) else INVALID), ""),
  "assert_le":    (ret_x(lambda x, y: x.assert_le(y)),   pyref(lambda a, b, bl: a if a <= b and fits(b-a, bl) else INVALID), ""),
  "assert_eq":    (ret_x(lambda x, y: x.assert_eq(y)),   pyref(lambda a, b, bl: a if a == b else INVALID), ""),
  "assert_ne":    (ret_x(lambda x, y: x.assert_ne(y)),   pyref(lambda a, b, bl: a if a != b else INVALID), ""),
  "assert_gt":    (ret_x(lambda x, y: x.assert_gt(y)),   pyref(lambda a, b, bl: a if a > b and fits(a-b-1, bl) else INVALID), ""),
  "assert_ge":    (ret_x(lambda x, y: x.assert_ge(y, err="too small")), pyref(lambda a, b, bl: a if a >= b and fits(a-b, bl) else INVALID), ""),
  "assert_eq_int":(ret_x(lambda x, y: x.assert_eq(7)),   pyref(lambda a, b, bl: a if a == 7 else INVALID), ""),
  "assert_range": (ret_x(lambda x, y: x.assert_range(2, y)), pyref(lambda a, b, bl: a if 2 <= a < b and fits(a-2, bl) and fits(b-a-1, bl) else INVALID), ""),
  "assert_positive":(ret_x(lambda x, y: (x - y).assert_positive()), pyref(lambda a, b, bl: a if fits(a-b, bl) else INVALID), ""),
  "assert_zero":  (ret_x(lambda x, y: (x - y).assert_zero()),       pyref(lambda a, b, bl: a if a == b else INVALID), ""),
  "assert_nonzero":(ret_x(lambda x, y: (x - y).assert_nonzero(err="same")), pyref(lambda a, b, bl: a if a != b else INVALID), ""),
  "to_bits":      (lambda x, y: x.to_bits() + [y],  pyref(lambda a, b, bl: [(a >> i) & 1 for i in range(bl)]+[b] if fits(a, bl) else INVALID), ""),
  "to_bits3":     (lambda x, y: x.to_bits(3),       pyref(lambda a, b, bl: [(a >> i) & 1 for i in range(3)] if fits(a, 3) else INVALID), ""),
  "invert":       (lambda x, y: [~b for b in x.to_bits()], pyref(lambda a, b, bl: [1-((a >> i) & 1) for i in range(bl)] if fits(a, bl) else INVALID), ""),
  "if_else":      (lambda x, y: (x == y).if_else(x, y+1), pyref(lambda a, b, bl: a if a == b else b+1), ""),
  "inner_ite":    (lambda x, y: if_then_else(x == y, x*x, y), pyref(lambda a, b, bl: a*a if a == b else b), ""),
  "inner_lazy":   (lambda x, y: if_then_else(y != 0, lambda: x/(y+(y == 0)), lambda: x*1), None, "g"),
  "inner_lazy2":  (lambda x, y: if_then_else(x == y, lambda: if_then_else(y == 4, lambda: (x-4).check_positive()+x, y), lambda: x.check_positive()*x), None, "g"),
  "val_sum":      (lambda x, y: sum([x, y, x*y]),   pyref(lambda a, b, bl: a+b+a*b), ""),
}

OPERANDS = [(7, 2), (6, 3), (0, 5), (5, 0), (4, 4), (-3, 2), (3, -2), (100, 3), (3, 100), (31, 31),
            (1 << 40, 1), (-1, -1), (12, 4), (1, 1), (2, 3)]

def tovalues(r):
    if r is None: return None
    if isinstance(r, (list, tuple)): return [tovalues(x) for x in r]
    if isinstance(r, LinCombBool): return r.lc.value
    if isinstance(r, LinComb): return r.value
    if isinstance(r, int): return int(r)
    raise TypeError("unexpected result " + repr(r))

def tolcs(r):
    if isinstance(r, (list, tuple)): return [l for x in r for l in tolcs(x)]
    if isinstance(r, LinCombBool): return [r.lc]
    if isinstance(r, LinComb): return [r]
    return []

def arity(name, bl):
    return {"divmod": 2, "to_bits": bl+1, "to_bits3": 3, "invert": bl}.get(name)

# ---------------------------------------------------------------------------------------------------
# ways to install a guard.  Each takes the guard value gv, a thunk and the else value and returns
# (inputs created, function running the thunk under the guard and selecting)
# ---------------------------------------------------------------------------------------------------

def style_ite(gv):
    c = PrivValBool(gv)
    return [c.lc], lambda thunk, e: if_then_else(c, thunk, e)

def style_ite_false(gv):            # the lazy branch sits in the false position: its guard is ~c
    c = PrivValBool(1-gv)
    return [c.lc], lambda thunk, e: if_then_else(c, e, thunk)

def style_guarded_lc(gv):           # runtime.guarded with the LinComb of a boolean
    c = PrivValBool(gv)
    def run(thunk, e):
        r = runtime.guarded(c.lc)(thunk)()
        return if_then_else(c, r, e)
    return [c.lc], run

def style_guarded_bool(gv):         # runtime.guarded with a LinCombBool (TypeError on trees without support)
    c = PrivValBool(gv)
    def run(thunk, e):
        r = runtime.guarded(c)(thunk)()
        return if_then_else(c, r, e)
    return [c.lc], run

def style_public_one(gv):           # a public 1 nested between secret guards must change nothing
    c = PrivValBool(gv)
    def run(thunk, e):
        return if_then_else(c, lambda: runtime.guarded(1)(thunk)(), e)
    return [c.lc], run

STYLES = {"ite": style_ite, "itef": style_ite_false, "glc": style_guarded_lc, "gbool": style_guarded_bool,
          "pub1": style_public_one}

HAVE_GBOOL = True
try:
    reset(5)
    runtime.guarded(PrivValBool(1))(lambda: None)()
except TypeError:
    HAVE_GBOOL = False

STYLE_MIXES = {1: [("ite",), ("itef",), ("glc",), ("gbool",), ("pub1",)],
               2: [("ite", "ite"), ("glc", "itef"), ("itef", "gbool"), ("pub1", "glc")],
               3: [("ite", "glc", "itef"), ("gbool", "ite", "ite")]}

class Run:
    pass

def run_body(name, a, b, bl, gvs=None, styles=None, user_ignore=False):
    """ trace one scenario; gvs None = unguarded """
    body = BODIES[name][0]
    reset(bl)
    if user_ignore: runtime.ignore_errors(True)
    R = Run()
    n = arity(name, bl)
    x = PrivVal(a); y = PrivVal(b)
    depth = 0 if gvs is None else len(gvs)
    elses = []
    runners = []
    inputs = [x, y]
    for lvl in range(3):                      # always allocate 3 levels of inputs: same wire numbering everywhere
        e = PrivVal(1000+lvl) if n is None else [PrivVal(1000+10*lvl+i) for i in range(n)]
        elses.append(e); inputs += tolcs(e)
    conds = []
    for lvl in range(3):
        gv = gvs[lvl] if lvl < depth else 1
        st = STYLES[styles[lvl]] if lvl < depth else style_ite
        cs, runner = st(gv)
        conds += cs; runners.append(runner)
    R.inputs = inputs + conds
    R.conds = conds
    R.elses = elses
    state0 = (runtime.guard, runtime._ignore_errors, LinComb.ONE)
    R.ncons0 = 0 if LIGHT else len(B.constraints)

    def level(l):
        if l == depth:
            def innermost():
                start = 0 if LIGHT else len(B.constraints)
                try: return body(x, y)
                finally: R.body_range = (start, 0 if LIGHT else len(B.constraints))
            return innermost
        return lambda: runners[l](level(l+1), elses[l])

    R.exc = None; R.result = None
    try:
        R.result = level(0)()
        R.values = tovalues(R.result)
    except Exception as ex:
        R.exc = (type(ex).__name__, str(ex))
    if (runtime.guard, runtime._ignore_errors, LinComb.ONE) != state0:
        fail("%s: guard state not restored after the run" % (R_desc(name, a, b, bl, gvs, styles, user_ignore)))
    if not LIGHT:
        R.unsat = unsatisfied()
    return R

def R_desc(name, a, b, bl, gvs, styles, ui):
    return "body %s x=%d y=%d bitlength=%d guards=%s styles=%s%s" % (name, a, b, bl, gvs, styles, " ignore_errors" if ui else "")

def known_inputs(R):
    known = {}
    for lc in R.inputs:
        (ix, c), = lc.lc.lc.items()
        known[ix] = wireval(ix) % P
    return known

def known_conds(R):
    known = {}
    for lc in R.conds:
        (ix, c), = lc.lc.lc.items()
        known[ix] = wireval(ix) % P
    return known

def check_scenarios(bl, names, operands, depths, with_ignore):
    for name in names:
        body, ref, flags = BODIES[name]
        for (a, b) in operands:
            for ui in ([False, True] if with_ignore else [False]):
                U = run_body(name, a, b, bl, user_ignore=ui)
                counts["runs"] += 1
                if U.exc is not None and U.exc[0] in ("TypeError", "NameError", "AttributeError", "NotImplementedError"):
                    fail("%s: unguarded run is broken: %s" % (R_desc(name, a, b, bl, None, None, ui), U.exc))
                    continue
                # plain Python semantics of the unguarded run
                if ref is not None and not ui:
                    want = ref(a, b, bl)
                    if want is INVALID:
                        if U.exc is None and (LIGHT or not U.unsat):
                            fail("%s: invalid operands accepted unguarded (got %s)" % (R_desc(name, a, b, bl, None, None, ui), U.values))
                    elif U.exc is not None:
                        # bitlength limits of the gadgets may reject what Python accepts; never the other way
                        pass
                    elif U.values != want:
                        fail("%s: unguarded value %s, plain Python gives %s" % (R_desc(name, a, b, bl, None, None, ui), U.values, want))
                if not LIGHT and U.exc is None and not ui and U.unsat:
                    fail("%s: unguarded run left constraints %s unsatisfied" % (R_desc(name, a, b, bl, None, None, ui), U.unsat[:3]))
                Ured = None
                for depth in depths:
                    for styles in STYLE_MIXES[depth]:
                        if "gbool" in styles and not HAVE_GBOOL: continue
                        for gvs in itertools.product([1, 0], repeat=depth):
                            G = run_body(name, a, b, bl, gvs=gvs, styles=styles, user_ignore=ui)
                            counts["runs"] += 1
                            desc = R_desc(name, a, b, bl, gvs, styles, ui)
                            if 0 in gvs:
                                counts["false"] += 1
                                k = gvs.index(0)
                                if G.exc == ("ValueError", "Division by zero"):
                                    # a divisor wire that is 0 raises whatever the guard is, also on the unchanged tree
                                    # (x/y, x//y, x%y with y=0; x>>y, whose 2**y is built from the guard wire): see P.notes.md
                                    counts["zerodiv"] += 1; continue
                                if G.exc is not None:
                                    fail("%s: raised under a false guard: %s: %s" % (desc, G.exc[0], G.exc[1])); continue
                                if G.values != tovalues(G.elses[k]):
                                    fail("%s: result %s is not the other branch %s" % (desc, G.values, tovalues(G.elses[k])))
                                if LIGHT: continue
                                if not ui and G.unsat:
                                    a_, b_, c_ = B.constraints[G.unsat[0]]
                                    fail("%s: constraint #%d does not hold on the recorded witness: %d * %d != %d" %
                                         (desc, G.unsat[0], evlc(a_), evlc(b_), evlc(c_)))
                                if ui and bool(G.unsat):
                                    # with errors suppressed by the user the inert code must still not spoil the system
                                    fail("%s: constraints %s unsatisfied although the only invalid code was inert" % (desc, G.unsat[:3]))
                                known, consistent = propagate(known_inputs(G))
                                got = [lcvalue(lc.lc, known) for lc in tolcs(G.result)]
                                want = [v % P for v in (tovalues(tolcs(G.elses[k])))]
                                counts["forced"] += 1
                                if got != want:
                                    fail("%s: the selected value is not forced by the constraints (derived %s, want %s)" % (desc, got, want))
                            else:
                                counts["true"] += 1
                                if G.exc != U.exc:
                                    fail("%s: under true guards %s, unguarded %s" % (desc, G.exc, U.exc)); continue
                                if G.exc is not None: continue
                                if G.values != U.values:
                                    fail("%s: under true guards value %s, unguarded %s" % (desc, G.values, U.values))
                                if LIGHT: continue
                                if bool(G.unsat) != bool(U.unsat):
                                    fail("%s: satisfied=%s under true guards, %s unguarded" % (desc, not G.unsat, not U.unsat))
                                if "g" in flags: continue
                                Gred, gcons = reduced_system(known_conds(G), G.body_range, set(known_inputs(G)))
                                if Ured is None:
                                    # U's system is gone by now: retrace it
                                    U2 = run_body(name, a, b, bl, user_ignore=ui)
                                    Ured = reduced_system(known_conds(U2), U2.body_range, set(known_inputs(U2)))
                                counts["reduced"] += 1
                                if Gred != Ured[0]:
                                    diff = [i for (i, (p, q)) in enumerate(zip(Gred, Ured[0])) if p != q][:1]
                                    fail("%s: enforcement differs from the unguarded system (%d vs %d constraints after substituting forced wires; first difference at %s)" %
                                         (desc, len(Gred), len(Ured[0]), diff))

# ---------------------------------------------------------------------------------------------------
# statement style (_if / _endif): only on trees whose add_guard takes the LinCombBool a comparison returns
# ---------------------------------------------------------------------------------------------------

def check_statements(bl):
    if not HAVE_GBOOL: return
    for name in ["truediv", "floordiv", "assert_lt", "rshift_int", "and", "lt", "abs", "assert_nonzero", "mul"]:
        body = BODIES[name][0]
        for (a, b) in OPERANDS:
            if b == 0: continue                       # zero divisor wire: see above
            U = run_body(name, a, b, bl)
            for gvs in itertools.product([1, 0], repeat=2):
                reset(bl)
                x = PrivVal(a); y = PrivVal(b); c1 = PrivValBool(gvs[0]); c2 = PrivValBool(gvs[1])
                ctx = BranchingValues()
                r0 = PrivVal(55)
                ctx.r = r0
                exc = None
                try:
                    _if(c1, ctx=ctx)
                    _if(c2, ctx=ctx)
                    r = body(x, y)
                    ctx.r = r.lc if isinstance(r, LinCombBool) else r
                    _endif(ctx=ctx)
                    _endif(ctx=ctx)
                    val = ctx.r.value
                except Exception as ex:
                    exc = (type(ex).__name__, str(ex))
                finally:
                    ctx.stack.clear()
                counts["stmt"] += 1
                desc = "_if/_if body %s x=%d y=%d guards=%s" % (name, a, b, gvs)
                if 0 in gvs:
                    if exc is not None: fail("%s: raised under a false guard: %s" % (desc, exc)); continue
                    if val != 55: fail("%s: variable became %s instead of keeping 55" % (desc, val))
                    if LIGHT: continue
                    if unsatisfied(): fail("%s: constraints %s unsatisfied" % (desc, unsatisfied()[:3]))
                    known, _c = propagate({ix: wireval(ix) % P for lc in [x, y, c1.lc, c2.lc, r0] for ix in lc.lc.lc})
                    if lcvalue(ctx.r.lc, known) != 55: fail("%s: kept value not forced by the constraints" % desc)
                else:
                    if exc != U.exc: fail("%s: %s, unguarded %s" % (desc, exc, U.exc)); continue
                    if exc is None and val != U.values: fail("%s: value %s, unguarded %s" % (desc, val, U.values))
                    if exc is None and not LIGHT and unsatisfied(): fail("%s: constraints unsatisfied" % desc)

# ---------------------------------------------------------------------------------------------------
# guard bookkeeping corner cases
# ---------------------------------------------------------------------------------------------------

def check_bookkeeping():
    reset(5)
    # an exception inside nested guards restores everything
    c = PrivValBool(1); d = PrivValBool(1)
    try:
        if_then_else(c, lambda: if_then_else(d, lambda: PrivVal(3)/PrivVal(2), 0), 0)
        fail("inexact division under true guards did not raise")
    except ValueError: pass
    if runtime.guard is not None or runtime._ignore_errors or LinComb.ONE is not LinComb.ONE_SAFE:
        fail("guard state not restored after an exception in nested guards")
    # the guard seen inside is the conjunction
    for gv in itertools.product([0, 1], repeat=3):
        reset(5)
        cs = [PrivValBool(g) for g in gv]
        seen = []
        def probe():
            seen.append((runtime.guard.value, runtime.ignore_errors(), LinComb.ONE.value, runtime.is_guard()))
            return PrivVal(1)
        if_then_else(cs[0], lambda: if_then_else(cs[1], lambda: if_then_else(cs[2], probe, 0), 0), 0)
        want = int(all(gv))
        if seen != [(want, not want, want, bool(want))]:
            fail("nested guards %s: inside guard/ignore_errors/ONE/is_guard = %s" % (gv, seen))
        if not LIGHT:
            if unsatisfied(): fail("nested guards %s: unsatisfied" % (gv,))
            # the innermost guard wire is forced to the conjunction whenever all enclosing guards are true
    # wrong guard values and types are still rejected
    reset(5)
    for bad, exc in [(PrivVal(2), RuntimeError), (0, RuntimeError), (2, RuntimeError), ("x", TypeError), (1.0, TypeError)]:
        try:
            runtime.guarded(bad)(lambda: None)()
            fail("guarded(%r) accepted" % (bad,))
        except exc: pass
        if runtime.guard is not None: fail("guard left set after rejected guard %r" % (bad,)); runtime.guard = None
    reset(5)
    try:
        runtime.guarded(PrivValBool(1).lc)(lambda: runtime.guarded(PrivVal(3))(lambda: None)())()
        fail("nested guarded(3) accepted")
    except RuntimeError: pass
    if runtime.guard is not None or LinComb.ONE is not LinComb.ONE_SAFE: fail("guard left set after rejected nested guard")

# ---------------------------------------------------------------------------------------------------
# files written by prove(): decode and evaluate
# ---------------------------------------------------------------------------------------------------

def check_files():
    reset(16)
    cs = [PrivValBool(1), PrivValBool(0), PrivValBool(1)]
    x = PrivVal(7); y = PrivVal(2); out = PubVal(0)
    r = if_then_else(cs[0], lambda: if_then_else(cs[1], lambda: if_then_else(cs[2], lambda: (x/y) + (x-100 < y) + (x >> 20), 5), lambda: (x % y) * 9), 1)
    r2 = if_then_else(cs[0], lambda: if_then_else(cs[2], lambda: x // y, 8), 2)
    (r + r2 - PubVal(9 + 3)).assert_zero()
    B.prove()
    w = open("witness.wtns", "rb").read()
    assert w[:4] == b"wtns"
    n = struct.unpack("<I", w[4+4+4+4+8+4+32:][:4])[0]
    body = w[4+4+4+4+8+4+32+4+4+8:]
    wit = [int.from_bytes(body[32*i:32*i+32], "little") for i in range(n)]
    c = open("circuit.r1cs", "rb").read()
    assert c[:4] == b"r1cs"
    pos = 4+4+4+4+8
    fs, = struct.unpack("<I", c[pos:pos+4]); pos += 4
    prime = int.from_bytes(c[pos:pos+fs], "little"); pos += fs
    nvars, nout, npub, nprv = struct.unpack("<IIII", c[pos:pos+16]); pos += 16
    pos += 8
    ncons, = struct.unpack("<I", c[pos:pos+4]); pos += 4
    pos += 4+8
    bad = 0
    def lc():
        nonlocal pos
        k, = struct.unpack("<I", c[pos:pos+4]); pos += 4
        s = 0
        for _ in range(k):
            ix, = struct.unpack("<I", c[pos:pos+4]); pos += 4
            s += wit[ix]*int.from_bytes(c[pos:pos+32], "little"); pos += 32
        return s % prime
    for i in range(ncons):
        a = lc(); b = lc(); cc = lc()
        if (a*b-cc) % prime: bad += 1
    if nvars != n or ncons != len(B.constraints): fail("written files: header counts wrong")
    if bad: fail("written files: %d of %d constraints do not hold on the written witness" % (bad, ncons))
    if r.value + r2.value != 12: fail("written files scenario: value %d" % (r.value + r2.value))
    for f in ("witness.wtns", "circuit.r1cs"): os.remove(f)

# ---------------------------------------------------------------------------------------------------

def main():
    names = list(BODIES)
    check_bookkeeping()
    # broad sweep with a small bitlength: every body, every operand pair, depths 1..3, all guard values
    check_scenarios(5, names, OPERANDS, [1, 2, 3], with_ignore=False)
    # user-set ignore_errors together with guards
    check_scenarios(5, [n for n in names if n not in ("pow_lc", "rpow", "lshift_lc", "rshift_lc")], OPERANDS[:9], [1, 2], with_ignore=True)
    # default bitlength
    check_scenarios(16, ["truediv", "floordiv", "mod", "lt", "ge", "assert_range", "rshift_int", "and", "abs", "assert_nonzero",
                         "check_positive", "to_bits", "inner_lazy", "inner_lazy2", "rshift_lc", "pow_lc"],
                    [(7, 2), (6, 3), (-3, 2), (70000, 3), (3, 70000), (1 << 40, 5), (65535, 65535), (4, 4)], [1, 2, 3], with_ignore=False)
    check_statements(5)
    if not LIGHT:
        check_files()
        env = dict(os.environ, PYSNARK_BACKEND="nobackend", C07_LIGHT="1")
        p = subprocess.run([sys.executable, os.path.abspath(__file__)], env=env, capture_output=True, text=True)
        sys.stdout.write("".join("  [nobackend] " + l + "\n" for l in p.stdout.splitlines()))
        if p.returncode != 0:
            fail("nobackend pass failed (exit %d) %s" % (p.returncode, p.stderr[-500:]))
    print("%s: %d runs (%d with a false guard, %d all true; %d forced-value derivations, %d system comparisons, %d statement-style)%s" %
          ("nobackend" if LIGHT else "snarkjs", counts["runs"], counts["false"], counts["true"], counts["forced"], counts["reduced"], counts["stmt"],
           ("; %d known 'Division by zero' cases under a false guard set aside" % counts["zerodiv"]) +
           ("" if HAVE_GBOOL else " [guards given as LinCombBool unsupported on this tree: skipped]")))
    if failures and os.environ.get("C07_SUMMARY"):
        import re, collections
        for (k, v) in collections.Counter(re.sub(r"x=.*?styles=\([^)]*\)", "", f)[:110] for f in failures).most_common(40): print(v, k)
    if failures:
        print("C07 VIOLATED in %d cases" % len(failures))
        sys.exit(1)
    print("C07 held in all cases")

if __name__ == "__main__":
    main()
