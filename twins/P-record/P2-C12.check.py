#!/usr/bin/env python
"""
Evidence program for property C12 (qaptools equation / wire / I-O files are
consistent and split faithfully), aimed at the changed code of change P
(@subqap accepts keyword arguments, dicts, LinCombBool and LinCombFxp).

    PYTHONPATH=<tree> /venv/bin/python P.check.py          (from an empty directory)

Every scenario is traced in a child process of its own (the qaptools backend
keeps global state) in a fresh temporary directory; a stub `qapgen` on PATH
makes the backend importable, no qaptools binary is ever run.  The child then
decodes the files that were written and checks the PROPERTY:

  E  every equation of pysnark_eqs holds modulo the prime on the values of
     pysnark_wires / pysnark_values (no wire is defined twice, none is missing)
  O  every entry of the I/O file is tied to a wire of the same value by an equation
     `1 wire -1 io`
  X  every equation mentions variables of one declared call only
  S  qapsplit(): for every call the per-function file holds exactly the traced
     equations + ioblocks of that call with the context stripped; calls of one
     function name with different equation sets make qapsplit raise; functions
     with different equation sets get different signatures; the schedule lists
     every call / glue
  G  every @subqap call is tied to its caller by a [glue] of two ioblocks of equal
     length whose wires carry pairwise equal values (mod p), and the blocks list
     EVERY argument leaf (positional, keyword, in lists / tuples / dicts, LinComb /
     LinCombBool / LinCombFxp) and EVERY result leaf: the callee-side wire that
     the function body received for an argument is paired with a caller wire
     carrying the value the caller passed, the caller-side wire handed back for a
     result is paired with a callee wire carrying the value the body returned;
     the number of pairs is the number of leaves.

Exit status 0 iff all scenarios passed.
"""
import os, sys, subprocess, tempfile, shutil, random, collections, traceback

HERE = os.path.abspath(__file__)

# --------------------------------------------------------------------------
# child side: helpers
# --------------------------------------------------------------------------

class Violation(Exception):
    pass

CALLS = []          # one record per @subqap call made through sub()

def _leaves(struct, out):
    """ all LinComb / LinCombBool / LinCombFxp leaves as plain LinCombs, in the order
        positional structure -> dict insertion order """
    from pysnark.runtime import LinComb
    from pysnark.boolean import LinCombBool
    from pysnark.fixedpoint import LinCombFxp
    if isinstance(struct, (list, tuple)):
        for x in struct: _leaves(x, out)
    elif isinstance(struct, dict):
        for k in struct: _leaves(struct[k], out)
    elif isinstance(struct, LinComb):
        out.append(struct)
    elif isinstance(struct, (LinCombBool, LinCombFxp)):
        out.append(struct.lc)
    return out

def _single(lc):
    sig = lc.lc.sig
    if len(sig) == 1 and sig[0][0] == 1: return sig[0][1]
    return None

def _canon(fn, args, kwargs):
    """ the arguments in the order in which fn declares its parameters (**extra by name) """
    import inspect
    sig = inspect.signature(fn)
    ba = sig.bind(*args, **kwargs)
    out = []
    for (nm, val) in ba.arguments.items():
        if sig.parameters[nm].kind == inspect.Parameter.VAR_KEYWORD: val = [val[k] for k in sorted(val)]
        out.append(val)
    return out

def sub(name):
    """ backend.subqap with book-keeping of what went in and out on both sides """
    import functools
    from pysnark.qaptools import backend
    def deco(fn):
        @functools.wraps(fn)
        def inner(*args, **kwargs):
            rec = inner.stack[-1]
            rec["callee"] = backend.vc_ctx
            rec["args_in"] = [(_single(l), l.value) for l in _leaves(_canon(fn, args, kwargs), [])]
            ret = fn(*args, **kwargs)
            rec["res_in"] = [l.value for l in _leaves(ret, [])]
            return ret
        inner.stack = []
        wrapped = backend.subqap(name)(inner)
        def outer(*args, **kwargs):
            rec = {"name": name, "caller": backend.vc_ctx,
                   "args_out": [l.value for l in _leaves(_canon(fn, args, kwargs), [])]}
            inner.stack.append(rec)
            try:
                ret = wrapped(*args, **kwargs)
            finally:
                inner.stack.pop()
            rec["res_out"] = [(_single(l), l.value) for l in _leaves(ret, [])]
            CALLS.append(rec)
            return ret
        return outer
    return deco

def parse_lc(toks, where):
    if len(toks) % 2: raise Violation("odd linear combination in: " + where)
    return [(int(toks[i]), toks[i+1]) for i in range(0, len(toks), 2)]

def parse_eq(line):
    toks = line.split()
    if toks and toks[-1] == ".": toks = toks[:-1]
    if toks.count("*") != 1 or toks.count("=") != 1: raise Violation("malformed equation: " + line)
    i, j = toks.index("*"), toks.index("=")
    if not i < j: raise Violation("malformed equation: " + line)
    return parse_lc(toks[:i], line), parse_lc(toks[i+1:j], line), parse_lc(toks[j+1:], line)

def norm(line):
    return " ".join(line.split())

def check_files(p, expect_report=None):
    """ decode the files in the current directory and check E, O, X, S, G """
    from pysnark.qaptools import backend, qapsplit, options
    backend.qape.flush(); backend.qapv.flush(); backend.qapvo.flush()

    def readvals(fn):
        vals = {}
        for ln in open(fn):
            ln = ln.strip()
            if ln == "" or ln[0] == "#": continue
            nm, _, v = ln.partition(":")
            if nm in vals: raise Violation("E: " + fn + " defines " + nm + " twice")
            vals[nm] = int(v)
        return vals
    wires = readvals(options.get_wire_file())
    io = readvals(options.get_io_file())
    for nm in io:
        if nm in wires: raise Violation("E: " + nm + " both a wire and an i/o value")

    def value(nm, where):
        if nm in wires: return wires[nm]
        if nm in io: return io[nm]
        if nm.endswith("/one") and nm[:-4] in calls: return 1
        raise Violation("E: no value for " + nm + " in: " + where)

    calls = collections.OrderedDict()    # call -> function name
    lines = collections.OrderedDict()    # call -> stripped equation / ioblock lines
    blocks = {}                          # (ctx, bn) -> wires
    glues = []
    mixed = []
    tied = set()
    neqs = 0
    for ln in open(options.get_eqs_file()):
        ln = ln.strip()
        if ln == "" or ln[0] == "#": continue
        toks = ln.split()
        if toks[0] == "[function]":
            if toks[2] in calls: raise Violation("X: call " + toks[2] + " declared twice")
            calls[toks[2]] = toks[1]; lines[toks[2]] = []
        elif toks[0] == "[ioblock]":
            ctx, bn, ws = toks[1], toks[2], toks[3:]
            if ctx not in calls: raise Violation("X: ioblock of undeclared call: " + ln)
            if (ctx, bn) in blocks: raise Violation("G: block " + ctx + " " + bn + " declared twice")
            for w in ws:
                if w.partition("/")[0] != ctx: mixed.append(ln)
                if w not in wires: raise Violation("G: block wire " + w + " has no value")
            blocks[(ctx, bn)] = ws
            lines[ctx].append(norm("[ioblock] " + bn + " " + " ".join(w.partition("/")[2] for w in ws)))
            for r in ("rnd1_", "rnd2_"):
                if ctx + "/" + r + bn not in wires: raise Violation("G: no " + r + " wire for block " + ctx + " " + bn)
        elif toks[0] == "[glue]":
            glues.append(tuple(toks[1:5]))
        elif toks[0] == "[external]":
            pass
        else:
            v, w, y = parse_eq(ln)
            neqs += 1
            ev = lambda lc: sum(c * value(nm, ln) for (c, nm) in lc)
            if (ev(v) * ev(w) - ev(y)) % p != 0:
                raise Violation("E: equation not satisfied by the written values: " + ln)
            ctxs = set(nm.partition("/")[0] for (c, nm) in v + w + y)
            if len(ctxs) > 1:
                mixed.append(ln)
                continue
            if len(ctxs) == 0: continue
            ctx = ctxs.pop()
            if ctx not in calls: raise Violation("X: equation of undeclared call: " + ln)
            strip = lambda t: t.partition("/")[2] if "/" in t else t
            lines[ctx].append(norm(" ".join(strip(t) for t in ln.split(" "))))
            if v == [] and w == [] and len(y) == 2:
                (c1, n1), (c2, n2) = y
                if n2 in io and n1 in wires and (c1 + c2) % p == 0 and c1 % p != 0: tied.add(n2)
                if n1 in io and n2 in wires and (c1 + c2) % p == 0 and c1 % p != 0: tied.add(n1)

    # O
    for nm in io:
        if nm not in tied: raise Violation("O: i/o value " + nm + " is not tied to a wire by an equality")

    # G: glue blocks
    gluemap = {}
    for (c1, b1, c2, b2) in glues:
        if (c1, b1) not in blocks or (c2, b2) not in blocks: raise Violation("G: glue of undeclared blocks " + str((c1, b1, c2, b2)))
        w1, w2 = blocks[(c1, b1)], blocks[(c2, b2)]
        if len(w1) != len(w2): raise Violation("G: glued blocks of different lengths " + str((c1, b1, c2, b2)))
        for (a, b) in zip(w1, w2):
            if (wires[a] - wires[b]) % p != 0: raise Violation("G: glued wires %s=%d and %s=%d differ" % (a, wires[a], b, wires[b]))
        if (wires[c1 + "/rnd1_" + b1] - wires[c2 + "/rnd1_" + b2]) % p != 0: raise Violation("G: glued blocks with different randomness")
        gluemap.setdefault((c1, c2), []).append(list(zip(w1, w2)))
    for rec in CALLS:
        key = (rec["caller"], rec["callee"])
        if len(gluemap.get(key, [])) != 1: raise Violation("G: call %s of %s is not glued to its caller exactly once" % (rec["callee"], rec["name"]))
        pairs = gluemap[key][0]
        if len(rec["args_out"]) != len(rec["args_in"]): raise Violation("G: harness: argument leaves differ")
        if len(rec["res_out"]) != len(rec["res_in"]): raise Violation("G: harness: result leaves differ")
        want = len(rec["args_in"]) + len(rec["res_in"])
        if len(pairs) != want: raise Violation("G: call %s has %d argument/result leaves but its glue lists %d pairs" % (rec["callee"], want, len(pairs)))
        callee_side = dict((b, a) for (a, b) in pairs)
        caller_side = dict(pairs)
        for (passed, (w, got)) in zip(rec["args_out"], rec["args_in"]):
            if w is None: raise Violation("G: argument arrived as a compound linear combination in " + rec["callee"])
            if w not in callee_side: raise Violation("G: argument wire %s of call %s is not listed in its glue" % (w, rec["callee"]))
            if (wires[callee_side[w]] - passed) % p != 0 or (got - passed) % p != 0:
                raise Violation("G: argument wire %s does not carry the value passed (%d)" % (w, passed))
        for ((w, got), returned) in zip(rec["res_out"], rec["res_in"]):
            if w is None: raise Violation("G: result handed back as a compound linear combination by " + rec["callee"])
            if w not in caller_side: raise Violation("G: result wire %s of call %s is not listed in its glue" % (w, rec["callee"]))
            if (wires[caller_side[w]] - returned) % p != 0 or (got - returned) % p != 0:
                raise Violation("G: result wire %s does not carry the value returned (%d)" % (w, returned))

    # S: the split
    byfn = {}
    for c in calls: byfn.setdefault(calls[c], []).append(c)
    inconsistent = [f for f in byfn if len(set(tuple(sorted(lines[c])) for c in byfn[f])) > 1]
    try:
        res = qapsplit.qapsplit()
        reported = None
    except ValueError as e:
        reported = str(e)
    if reported is not None:
        if not (inconsistent or mixed): raise Violation("S: qapsplit reported an inconsistency although there is none: " + reported)
        if expect_report is False: raise Violation("S: scenario should split cleanly but: " + reported)
        return "%d equations, %d calls, inconsistency reported" % (neqs, len(calls))
    if expect_report is True: raise Violation("S: scenario must be reported as inconsistent but qapsplit accepted it")
    if mixed: raise Violation("X: equation with variables of several calls was split silently: " + mixed[0])
    qaplens, blklen, extlen, sigs = res
    for f in byfn:
        want = None
        got = collections.Counter(norm(l) for l in open(options.get_eqs_file_fn(f)) if l.strip() != "")
        for c in byfn[f]:
            mine = collections.Counter(lines[c])
            if mine != got:
                diff = list((mine - got).elements()) + list((got - mine).elements())
                raise Violation("S: %s does not hold exactly the traced equations of call %s (not reported); e.g. `%s`" % (options.get_eqs_file_fn(f), c, diff[0]))
        if f not in sigs: raise Violation("S: no signature for function " + f)
    for f in byfn:
        for g in byfn:
            if f < g and sorted(lines[byfn[f][0]]) != sorted(lines[byfn[g][0]]) and sigs[f] == sigs[g]:
                raise Violation("S: functions %s and %s differ but share signature %s" % (f, g, sigs[f]))
    sched = [ln.split() for ln in open(options.get_schedule_file()) if ln.strip() != ""]
    sf = dict((t[1], t[2]) for t in sched if t[0] == "[function]")
    for c in calls:
        if sf.get(c) != options.get_eqs_file_fn(calls[c]): raise Violation("S: schedule does not map call " + c + " to the file of " + calls[c])
    if [tuple(t[1:5]) for t in sched if t[0] == "[glue]"] != glues: raise Violation("S: schedule glue lines differ from the traced ones")
    return "%d equations, %d calls, %d functions" % (neqs, len(calls), len(byfn))

# --------------------------------------------------------------------------
# child side: scenarios
# --------------------------------------------------------------------------

def interesting(rnd, p):
    return rnd.choice([0, 1, -1, 2, -7, p - 1, p, p + 5, -p - 3, 2**200 + 17, -2**300 + 5, (p - 1) // 2, (p + 1) // 2,
                       rnd.randrange(-2**64, 2**64), rnd.randrange(p), -rnd.randrange(p), rnd.randrange(-50, 50)])

def sc_plain(rnd, p):
    """ baseline: positional LinComb arguments in lists / tuples, two calls, public values """
    from pysnark.runtime import PrivVal, PubVal
    @sub("mad")
    def mad(x, ys):
        return x * ys[0] + ys[1], (x - ys[1],)
    a, b, c = PrivVal(interesting(rnd, p)), PubVal(interesting(rnd, p)), PrivVal(interesting(rnd, p))
    r = mad(a, [b, c])
    s = mad(r[0] * 3 + 1, (a, r[1][0]))
    s[0].val(); (s[1][0] + b).val()
    return False

def sc_kwargs(rnd, p):
    """ keyword arguments, written in different orders, mixed with positional ones """
    from pysnark.runtime import PrivVal, PubVal
    @sub("kw")
    def kw(x, y, scale=2, off=None):
        r = x * y
        if off is not None: r = r + off
        return r * scale
    a, b, c = PrivVal(interesting(rnd, p)), PubVal(interesting(rnd, p)), PrivVal(interesting(rnd, p))
    r1 = kw(a, b, off=c)
    r2 = kw(y=b, x=a, off=c)
    r3 = kw(a, off=c + 1, y=b * 2)
    r4 = kw(off=r1, y=r2, x=r3, scale=2)            # scale is a plain int: not a wire
    assert r1.value == 2 * (a.value * b.value + c.value) and r4.value == 2 * (r3.value * r2.value + r1.value)
    r4.val()
    return False

def sc_kwargs_wire_scale(rnd, p):
    """ the same keyword once as an int and once as a wire: different equation sets, must be reported """
    from pysnark.runtime import PrivVal
    @sub("kws")
    def kws(x, scale=1):
        return x * scale
    a, b = PrivVal(interesting(rnd, p)), PrivVal(interesting(rnd, p))
    kws(a, scale=3).val()
    kws(a, scale=b).val()
    return True

def sc_dicts(rnd, p):
    """ dict-structured arguments and results, nested in lists, empty containers """
    from pysnark.runtime import PrivVal, PubVal
    @sub("dct")
    def dct(d, extra):
        out = {"sum": d["a"] + d["b"][0], "prod": d["a"] * d["b"][1], "same": d["a"], "k": 7, "e": {}}
        return out, [extra["z"]] if "z" in extra else []
    vals = [PrivVal(interesting(rnd, p)) for _ in range(4)]
    o, l = dct({"a": vals[0], "b": (vals[1], vals[2]), "c": "text"}, {"z": vals[3]})
    assert o["k"] == 7 and o["prod"].value == vals[0].value * vals[2].value and l[0].value == vals[3].value
    o2, l2 = dct({"a": o["same"] * 2, "b": (o["sum"], o["prod"]), "c": None}, extra={"z": vals[3] + 1})
    o2["prod"].val()
    return False

def sc_dict_order(rnd, p):
    """ dicts are traversed in insertion order: a different order is a different wire numbering and must be reported """
    from pysnark.runtime import PrivVal
    @sub("dord")
    def dord(d):
        return d["a"] * d["a"] + d["b"]
    a, b = PrivVal(interesting(rnd, p)), PrivVal(interesting(rnd, p))
    dord({"a": a, "b": b}).val()
    dord({"b": b, "a": a}).val()
    return True

def sc_bool(rnd, p):
    """ LinCombBool arguments and results """
    from pysnark.runtime import PrivVal
    from pysnark.boolean import PrivValBool, LinCombBool
    @sub("sel")
    def sel(c, x, y, flags=()):
        assert isinstance(c, LinCombBool) and all(isinstance(f, LinCombBool) for f in flags)
        r = y + c.lc * (x - y)
        n = ~c
        for f in flags: n = n & f
        return r, n
    c1, c2 = PrivValBool(rnd.randrange(2)), PrivValBool(rnd.randrange(2))
    x, y = PrivVal(interesting(rnd, p)), PrivVal(interesting(rnd, p))
    r, n = sel(c1, x, y, flags=[c2, c1])
    assert isinstance(n, LinCombBool) and r.value == (x.value if c1.lc.value else y.value)
    assert n.lc.value == ((1 - c1.lc.value) & c2.lc.value & c1.lc.value)
    r2, n2 = sel(n, r, x, flags=[c1 | c2, ~n])
    r2.val(); n2.val()
    return False

def sc_fxp(rnd, p):
    """ LinCombFxp arguments and results (kept at their scale: no rescaling on the way) """
    from pysnark.fixedpoint import PrivValFxp, LinCombFxp
    @sub("lin")
    def lin(a, b, w=None):
        assert isinstance(a, LinCombFxp) and isinstance(b, LinCombFxp)
        r = a + b + b
        if w is not None: r = r - w["w"]
        return [r, a]
    u, v, w = PrivValFxp(rnd.randrange(-1000, 1000) / 8.0), PrivValFxp(rnd.randrange(-10**6, 10**6) / 256.0), PrivValFxp(0.5)
    r, a = lin(u, v, w={"w": w})
    assert isinstance(r, LinCombFxp) and r.lc.value == u.lc.value + 2 * v.lc.value - w.lc.value and a.lc.value == u.lc.value
    r2, _ = lin(r, a, w={"w": u})
    r2.val()
    return False

def sc_nested(rnd, p):
    """ nested sub-circuits, the inner one called from two different functions and from main, keyword arguments inside """
    from pysnark.runtime import PrivVal, PubVal
    from pysnark.boolean import PrivValBool
    @sub("inner")
    def inner(x, k=None):
        return x * x + k
    @sub("outer")
    def outer(x, y, flag=None):
        t = inner(x, k=y)
        u = inner(k=t, x=y)
        return {"t": t, "u": u, "f": flag}
    a, b = PrivVal(interesting(rnd, p)), PubVal(interesting(rnd, p))
    f = PrivValBool(rnd.randrange(2))
    o1 = outer(a, b, flag=f)
    o2 = outer(o1["u"], o1["t"], flag=o1["f"])
    i = inner(o2["t"], k=o2["u"])
    assert o1["t"].value == a.value ** 2 + b.value and o1["u"].value == b.value ** 2 + o1["t"].value
    i.val(); o2["f"].val()
    return False

def sc_noargs(rnd, p):
    """ calls without wires at all, and with only keyword wires / only results """
    from pysnark.runtime import PrivVal
    @sub("const")
    def const(n=3):
        return PrivVal(n) * PrivVal(n)
    @sub("sink")
    def sink(**kw):
        t = kw["p"] * kw["q"]; (t - kw["p"] * kw["q"]).assert_zero()
    c1 = const(); c2 = const()
    a = PrivVal(interesting(rnd, p))
    sink(p=a, q=c1); sink(q=c2 + a, p=c1 * 1)
    assert c1.value == 9
    return False

def sc_dup(rnd, p):
    """ the same wire passed several times, results that are arguments, results listed twice """
    from pysnark.runtime import PrivVal
    @sub("dup")
    def dup(x, y, z=None):
        s = x + y
        return x, s, s, z, (x * y)
    a = PrivVal(interesting(rnd, p))
    r = dup(a, a, z=a)
    r2 = dup(r[0], r[4], z=r[1] - r[2])
    assert r2[3].value == 0 and r[4].value == a.value ** 2
    r2[4].val()
    return False

def sc_main_modes(rnd, p):
    """ guards (lazy if_then_else with both outcomes) around and inside the picture: the sub-circuit is called from
        main, its results are used in a guarded branch of main """
    from pysnark.runtime import PrivVal, PubVal
    from pysnark.branching import if_then_else
    from pysnark.boolean import PrivValBool
    @sub("sqr")
    def sqr(x, add=None):
        return x * x + add
    a, b = PrivVal(rnd.randrange(-100, 100)), PubVal(interesting(rnd, p))
    c = PrivValBool(rnd.randrange(2))
    s = sqr(a, add=b)
    r = if_then_else(c, lambda: s * a + 1, lambda: a * 3)
    t = sqr(add=r, x=s)
    (t + b).val()
    return False

SCENARIOS = [sc_plain, sc_kwargs, sc_kwargs_wire_scale, sc_dicts, sc_dict_order, sc_bool, sc_fxp, sc_nested, sc_noargs, sc_dup, sc_main_modes]

def child(name, seed):
    os.environ["PYSNARK_BACKEND"] = "qaptools"
    from pysnark import runtime
    runtime.autoprove = False
    from pysnark.qaptools import options
    rnd = random.Random(seed)
    fn = dict((f.__name__, f) for f in SCENARIOS)[name]
    expect = fn(rnd, options.vc_p)
    print("ok   %-22s seed %-3d %s" % (name, seed, check_files(options.vc_p, expect)))

# --------------------------------------------------------------------------
# parent side
# --------------------------------------------------------------------------

def run_scenarios(script, names, seeds):
    base = tempfile.mkdtemp(prefix="r6-C12-")
    failures = 0
    try:
        bindir = os.path.join(base, "bin"); os.mkdir(bindir)
        stub = os.path.join(bindir, "qapgen")
        with open(stub, "w") as f: f.write("#!/bin/sh\nexit 0\n")
        os.chmod(stub, 0o755)
        env = dict(os.environ)
        env["PATH"] = bindir + os.pathsep + env.get("PATH", "")
        for k in ("PYSNARK_KEYDIR", "PYSNARK_PROOFDIR", "QAPTOOLS_BIN"): env.pop(k, None)
        n = 0
        shown = set()
        for name in names:
            for seed in seeds:
                n += 1
                wd = os.path.join(base, "run%d" % n); os.mkdir(wd)
                r = subprocess.run([sys.executable, script, "--child", name, str(seed)], cwd=wd, env=env,
                                   stdout=subprocess.PIPE, stderr=subprocess.PIPE, universal_newlines=True)
                out = [l for l in r.stdout.splitlines() if l.startswith(("ok", "FAIL"))]
                if r.returncode != 0 or not out or not out[-1].startswith("ok"):
                    failures += 1
                    print("FAIL %-22s seed %-3d" % (name, seed))
                    if name not in shown:
                        shown.add(name)
                        viol = [l for l in r.stdout.splitlines() if l.startswith("FAIL")]
                        print("     " + "\n     ".join(viol if viol else (r.stdout + r.stderr).strip().splitlines()[-6:]))
                elif seed == seeds[0]:
                    print(out[-1])
    finally:
        shutil.rmtree(base, ignore_errors=True)
    return failures

if __name__ == "__main__":
    if len(sys.argv) > 1 and sys.argv[1] == "--child":
        try:
            child(sys.argv[2], int(sys.argv[3]))
        except Violation as v:
            print("FAIL property C12 violated:", v)
            sys.exit(1)
        sys.exit(0)
    seeds = list(range(12))
    failures = run_scenarios(HERE, [f.__name__ for f in SCENARIOS], seeds)
    print("%d scenarios x %d seeds, %d failures" % (len(SCENARIOS), len(seeds), failures))
    sys.exit(1 if failures else 0)
