#!/usr/bin/env python
"""
P.check.py - checks property C11 (zkinterface files encode the traced circuit; the verifier file has no witness)
on the tree found on PYTHONPATH.  Exits 0 iff the property was observed to hold everywhere.

flatbuffers is not installed in the test environment, so this program brings its own small implementation of the
flatbuffers Builder (real wire format: vtables, size prefix, alignment; only vtable sharing is left out, which
the format does not require) and its own, bounds-checking decoder that does not use the generated classes.

What is checked, for each of the three field configurations (zkinterface, zkifbellman, zkifbulletproofs):
 A. backend level, exhaustively over all orders of making <=5 public/private wires, and over many random traces
    (random linear combinations with negative, zero, huge coefficients, repeated wires, empty combinations, the
    constant one, 0 public wires, 0 private wires, 0 constraints):
      - both files are sequences of well-formed size-prefixed messages:  header, witness, constraints  /  header, constraints
      - header: instance ids 1..n with the public values (canonical, full width), free_variable_id n+m+1, field_maximum p-1
      - the constraint message decodes to exactly the recorded constraints (maps wire id -> coefficient mod p)
      - witness: ids n+1..n+m with the private values
      - the decoded assignment satisfies the decoded constraints mod p
      - circuit.zkif has no witness message, equals computation.zkif minus its witness message, and is byte-identical
        when the same trace is replayed with other private values
      - both files are byte-identical to what an independent re-implementation of the reference encoding
        (signed keys, ids fixed by counting) writes for the same trace
 B. runtime level (subprocesses with PYSNARK_BACKEND set): real pysnark programs, trace recorded by wrapping the
    backend's functions, same checks; runs with equal public values and different private values give the same circuit.zkif.
"""
import importlib, itertools, json, os, random, struct, subprocess, sys, tempfile

# ----------------------------------------------------------------------------------------------------------------
# a minimal flatbuffers package, written to a scratch directory and put in front of sys.path
# ----------------------------------------------------------------------------------------------------------------
FB_INIT = r'''
import struct
from . import number_types, compat

class Builder(object):
    """ Builds a flatbuffer back to front, like the real one. """
    def __init__(self, initialSize=1024):
        self.buf = bytearray()      # the part of the buffer written so far (grows at the front)
        self.minalign = 1
        self.nested = False
        self.vtable = None
        self.objectEnd = None
        self.vecn = None
    def Offset(self): return len(self.buf)
    def _put(self, b): self.buf[0:0] = b
    def Prep(self, size, additional):
        if size > self.minalign: self.minalign = size
        self._put(bytes((-(len(self.buf) + additional)) % size))
    # scalars
    def PrependByte(self, x):
        assert 0 <= x < 256; self.Prep(1, 0); self._put(bytes([x]))
    PrependUint8 = PrependByte
    def PrependUint64(self, x):
        assert 0 <= x < 2**64; self.Prep(8, 0); self._put(struct.pack("<Q", x))
    def PrependUOffsetTRelative(self, off):
        self.Prep(4, 0)
        assert 0 < off <= self.Offset()
        self._put(struct.pack("<I", self.Offset() - off + 4))
    # vectors
    def StartVector(self, elemSize, numElems, alignment):
        assert not self.nested; self.nested = True
        self.vecn = numElems; self.vecstart = None
        self.Prep(4, elemSize * numElems)
        self.Prep(alignment, elemSize * numElems)
        self.vecstart = (self.Offset(), elemSize * numElems)
        return self.Offset()
    def EndVector(self, *args):
        assert self.nested; self.nested = False
        assert self.Offset() - self.vecstart[0] == self.vecstart[1], "vector has other size than announced"
        self._put(struct.pack("<I", self.vecn))
        return self.Offset()
    # tables
    def StartObject(self, numfields):
        assert not self.nested; self.nested = True
        self.vtable = [0] * numfields
        self.objectEnd = self.Offset()
    def Slot(self, o):
        assert self.nested; self.vtable[o] = self.Offset()
    def PrependUOffsetTRelativeSlot(self, o, x, d):
        if x != d: self.PrependUOffsetTRelative(x); self.Slot(o)
    def PrependUint8Slot(self, o, x, d):
        if x != d: self.PrependUint8(x); self.Slot(o)
    def PrependUint64Slot(self, o, x, d):
        if x != d: self.PrependUint64(x); self.Slot(o)
    def EndObject(self):
        assert self.nested; self.nested = False
        self.Prep(4, 0); self._put(struct.pack("<i", 0))
        objectOffset = self.Offset()
        vt = self.vtable
        while vt and vt[-1] == 0: vt.pop()
        for off in reversed(vt):
            self._put(struct.pack("<H", objectOffset - off if off else 0))
        self._put(struct.pack("<H", objectOffset - self.objectEnd))
        self._put(struct.pack("<H", (len(vt) + 2) * 2))
        pos = len(self.buf) - objectOffset
        self.buf[pos:pos+4] = struct.pack("<i", self.Offset() - objectOffset)
        self.vtable = None
        return objectOffset
    def FinishSizePrefixed(self, root, file_identifier=None):
        assert not self.nested
        self.Prep(self.minalign, 8)
        self.PrependUOffsetTRelative(root)
        self._put(struct.pack("<I", len(self.buf)))
    def Output(self): return bytes(self.buf)
'''
FB_NT = "class UOffsetTFlags(object):\n    py_type = int\nclass Uint64Flags(object):\n    py_type = int\nclass Uint8Flags(object):\n    py_type = int\n"
FB_COMPAT = "def import_numpy():\n    return None\n"

def install_flatbuffers(where):
    d = os.path.join(where, "fbstub", "flatbuffers")
    os.makedirs(d, exist_ok=True)
    for (n, c) in (("__init__.py", FB_INIT), ("number_types.py", FB_NT), ("compat.py", FB_COMPAT)):
        with open(os.path.join(d, n), "w") as f: f.write(c)
    return os.path.dirname(d)

# ----------------------------------------------------------------------------------------------------------------
# decoder (own, bounds-checked)
# ----------------------------------------------------------------------------------------------------------------
class Malformed(Exception): pass

def rd(buf, pos, fmt):
    n = struct.calcsize(fmt)
    if pos < 0 or pos + n > len(buf): raise Malformed("read of %d bytes at %d outside message of %d bytes" % (n, pos, len(buf)))
    return struct.unpack_from(fmt, buf, pos)[0]

def split_messages(data):
    msgs = []; pos = 0
    while pos < len(data):
        size = rd(data, pos, "<I")
        if size < 8 or pos + 4 + size > len(data): raise Malformed("bad size prefix %d at %d (file has %d bytes)" % (size, pos, len(data)))
        msgs.append(data[pos+4:pos+4+size]); pos += 4 + size
    return msgs

class Table(object):
    def __init__(self, buf, pos):
        self.buf = buf; self.pos = pos
        self.vt = pos - rd(buf, pos, "<i")
        self.vtsize = rd(buf, self.vt, "<H")
        if self.vtsize < 4 or self.vtsize % 2: raise Malformed("bad vtable size")
        rd(buf, self.vt + self.vtsize - 1, "<B")
    def field(self, i):
        if 4 + 2*i >= self.vtsize: return None
        o = rd(self.buf, self.vt + 4 + 2*i, "<H")
        return self.pos + o if o else None
    def sub(self, i):
        p = self.field(i)
        return None if p is None else Table(self.buf, p + rd(self.buf, p, "<I"))
    def vec(self, i):
        p = self.field(i)
        if p is None: return None
        p = p + rd(self.buf, p, "<I")
        return (p + 4, rd(self.buf, p, "<I"))
    def scalar(self, i, fmt, default=0):
        p = self.field(i)
        return default if p is None else rd(self.buf, p, fmt)

def dec_variables(t):
    """ -> list of (id, value, element width) """
    if t is None: raise Malformed("missing Variables table")
    ids = t.vec(0); vals = t.vec(1)
    idl = [] if ids is None else [rd(t.buf, ids[0] + 8*j, "<Q") for j in range(ids[1])]
    raw = b"" if vals is None else bytes(t.buf[vals[0]:vals[0]+vals[1]])
    if vals is not None and len(raw) != vals[1]: raise Malformed("values vector outside message")
    if not idl:
        if raw: raise Malformed("values without ids")
        return []
    if len(raw) % len(idl): raise Malformed("values length %d not a multiple of %d ids" % (len(raw), len(idl)))
    w = len(raw) // len(idl)
    return [(idl[j], int.from_bytes(raw[j*w:(j+1)*w], "little"), w) for j in range(len(idl))]

def dec_message(msg):
    root = Table(msg, rd(msg, 0, "<I"))
    typ = root.scalar(0, "<B"); m = root.sub(1)
    if m is None: raise Malformed("root without message")
    if typ == 1:
        fm = m.vec(2)
        return ("header", dec_variables(m.sub(0)), m.scalar(1, "<Q"), None if fm is None else bytes(msg[fm[0]:fm[0]+fm[1]]))
    if typ == 2:
        cv = m.vec(0); cons = []
        for j in range(0 if cv is None else cv[1]):
            p = cv[0] + 4*j
            c = Table(msg, p + rd(msg, p, "<I"))
            cons.append([dec_variables(c.sub(k)) for k in range(3)])
        return ("constraints", cons)
    if typ == 3:
        return ("witness", dec_variables(m.sub(0)))
    raise Malformed("unexpected message type %d" % typ)

# ----------------------------------------------------------------------------------------------------------------
# the property, checked on a pair of files against a recorded trace
#   trace = {"pub": [values], "priv": [values], "cons": [[lc,lc,lc],...]}, lc = list of [kind, index, coeff] with
#   kind "one"/"pub"/"priv", index 1-based; every wire at most once per lc (as in the library's dictionaries)
# ----------------------------------------------------------------------------------------------------------------
failures = []
def fail(ctx, what):
    failures.append((ctx, what))
    if len(failures) <= 25: print("FAIL [%s]: %s" % (ctx, what))

def check_files(ctx, comp, circ, trace, p):
    BL = (p.bit_length() + 7) // 8
    n = len(trace["pub"]); m = len(trace["priv"])
    try:
        cm = split_messages(comp); vm = split_messages(circ)
        dcomp = [dec_message(x) for x in cm]; dcirc = [dec_message(x) for x in vm]
    except (Malformed, struct.error) as e:
        fail(ctx, "malformed file: %s" % e); return False
    ok = True
    if [d[0] for d in dcomp] != ["header", "witness", "constraints"]: fail(ctx, "computation.zkif messages: %s" % [d[0] for d in dcomp]); return False
    if [d[0] for d in dcirc] != ["header", "constraints"]: fail(ctx, "circuit.zkif messages: %s (a verifier file must have header and constraints only)" % [d[0] for d in dcirc]); return False
    if circ != comp[:4+len(cm[0])] + comp[4+len(cm[0])+4+len(cm[1]):]:
        fail(ctx, "circuit.zkif is not computation.zkif without its witness message"); ok = False
    for (nm, d) in (("computation", dcomp[0]), ("circuit", dcirc[0])):
        _, inst, free, fmax = d
        if [i for (i, v, w) in inst] != list(range(1, n+1)): fail(ctx, "%s header: instance ids %s, expected 1..%d" % (nm, [i for (i, v, w) in inst], n)); ok = False
        if [v for (i, v, w) in inst] != [x % p for x in trace["pub"]]: fail(ctx, "%s header: instance values %s, expected %s" % (nm, [v for (i, v, w) in inst], [x % p for x in trace["pub"]])); ok = False
        if any(w != BL for (i, v, w) in inst): fail(ctx, "%s header: element width %s, expected %d" % (nm, set(w for (i, v, w) in inst), BL)); ok = False
        if free != n + m + 1: fail(ctx, "%s header: free_variable_id %d, expected %d" % (nm, free, n+m+1)); ok = False
        if fmax != (p-1).to_bytes(BL, "little"): fail(ctx, "%s header: field_maximum %r is not p-1 for p=%d" % (nm, fmax, p)); ok = False
    wit = dcomp[1][1]
    if [i for (i, v, w) in wit] != list(range(n+1, n+m+1)): fail(ctx, "witness ids %s, expected %d..%d" % ([i for (i, v, w) in wit], n+1, n+m)); ok = False
    if [v for (i, v, w) in wit] != [x % p for x in trace["priv"]]: fail(ctx, "witness values differ from the private values"); ok = False
    if any(w != BL for (i, v, w) in wit): fail(ctx, "witness element width %s, expected %d" % (set(w for (i, v, w) in wit), BL)); ok = False
    def wid(kind, ix): return 0 if kind == "one" else ix if kind == "pub" else n + ix
    exp = [[{wid(k, i): c % p for (k, i, c) in lc} for lc in con] for con in trace["cons"]]
    for (nm, d) in (("computation", dcomp[2]), ("circuit", dcirc[1])):
        got = d[1]
        if any(w != BL or v >= p for con in got for lc in con for (i, v, w) in lc): fail(ctx, "%s: coefficient not a canonical %d-byte field element" % (nm, BL)); ok = False
        if any(len(set(i for (i, v, w) in lc)) != len(lc) for con in got for lc in con): fail(ctx, "%s: repeated variable id within a linear combination" % nm); ok = False
        gotd = [[{i: v for (i, v, w) in lc} for lc in con] for con in got]
        if gotd != exp:
            bad = [j for j in range(max(len(gotd), len(exp))) if j >= len(gotd) or j >= len(exp) or gotd[j] != exp[j]]
            fail(ctx, "%s: decoded constraints differ from the traced ones (%d vs %d constraints, first difference at #%d: got %s expected %s)" % (nm, len(gotd), len(exp), bad[0], gotd[bad[0]] if bad[0] < len(gotd) else None, exp[bad[0]] if bad[0] < len(exp) else None)); ok = False
    # decoded assignment satisfies decoded constraints
    asg = {0: 1}
    for (i, v, w) in dcomp[0][1]: asg[i] = v
    for (i, v, w) in wit: asg[i] = v
    for (j, con) in enumerate(dcomp[2][1]):
        try:
            a, b, c = [sum(v * asg[i] for (i, v, w) in lc) % p for lc in con]
        except KeyError as e:
            fail(ctx, "constraint #%d uses unassigned variable %s" % (j, e)); ok = False; continue
        if (a * b - c) % p: fail(ctx, "decoded assignment does not satisfy decoded constraint #%d" % j); ok = False
    return ok

# ----------------------------------------------------------------------------------------------------------------
# independent re-implementation of the reference encoding (signed keys; ids by counting), on top of the same Builder
# ----------------------------------------------------------------------------------------------------------------
def reference_files(trace, p):
    import flatbuffers
    BL = (p.bit_length() + 7) // 8
    n = len(trace["pub"]); m = len(trace["priv"])
    def variables(b, ids, vals):
        b.StartVector(8, len(ids), 8)
        for i in reversed(ids): b.PrependUint64(i)
        iv = b.EndVector()
        b.StartVector(1, BL*len(vals), 1)
        for v in reversed(vals):
            for byte in reversed((v % p).to_bytes(BL, "little")): b.PrependByte(byte)
        vv = b.EndVector()
        b.StartObject(3); b.PrependUOffsetTRelativeSlot(0, iv, 0); b.PrependUOffsetTRelativeSlot(1, vv, 0)
        return b.EndObject()
    def finish(b, typ, msg):
        b.StartObject(2); b.PrependUint8Slot(0, typ, 0); b.PrependUOffsetTRelativeSlot(1, msg, 0)
        b.FinishSizePrefixed(b.EndObject())
        return b.Output()
    def header():
        b = flatbuffers.Builder(0)
        vs = variables(b, list(range(1, n+1)), trace["pub"])
        b.StartVector(1, BL, 1)
        for byte in reversed((p-1).to_bytes(BL, "little")): b.PrependByte(byte)
        mx = b.EndVector()
        b.StartObject(4); b.PrependUOffsetTRelativeSlot(0, vs, 0); b.PrependUint64Slot(1, n+m+1, 0); b.PrependUOffsetTRelativeSlot(2, mx, 0)
        return finish(b, 1, b.EndObject())
    def witness():
        b = flatbuffers.Builder(0)
        vs = variables(b, list(range(n+1, n+m+1)), trace["priv"])
        b.StartObject(1); b.PrependUOffsetTRelativeSlot(0, vs, 0)
        return finish(b, 3, b.EndObject())
    def constraints():
        b = flatbuffers.Builder(0)
        cs = []
        for con in trace["cons"]:
            signed = [[(0 if k == "one" else i if k == "pub" else -i, c) for (k, i, c) in lc] for lc in con]
            offs = [variables(b, [key if key >= 0 else n - key for (key, c) in lc], [c for (key, c) in lc]) for lc in signed]
            b.StartObject(3)
            for k in range(3): b.PrependUOffsetTRelativeSlot(k, offs[k], 0)
            cs.append(b.EndObject())
        b.StartVector(4, len(cs), 4)
        for c in reversed(cs): b.PrependUOffsetTRelative(c)
        cv = b.EndVector()
        b.StartObject(2); b.PrependUOffsetTRelativeSlot(0, cv, 0)
        return finish(b, 2, b.EndObject())
    h, w, c = header(), witness(), constraints()
    return h + w + c, h + c

# ----------------------------------------------------------------------------------------------------------------
# A. backend level
# ----------------------------------------------------------------------------------------------------------------
BACKENDS = [("zkinterface", "pysnark.zkinterface.backend", 21888242871839275222246405745257275088548364400416034343698204186575808495617),
            ("zkifbellman", "pysnark.zkinterface.backendbellman", 52435875175126190479447740508185965837690552500527637822603658699938581184513),
            ("zkifbulletproofs", "pysnark.zkinterface.backendbulletproofs", 7237005577332262213973186563042994240857116359379907606001950938285454250989)]

def fresh_backend(modname):
    """ A backend module with empty state: re-execute the base module and then the field-specific one. """
    import pysnark.zkinterface.backend as base
    importlib.reload(base)
    if modname == base.__name__: return base
    mod = importlib.import_module(modname)
    return importlib.reload(mod)

class Recorder(object):
    """ Drives a backend module through its public functions and records the trace in terms of (kind, index). """
    def __init__(self, be):
        self.be = be; self.names = {}; self.trace = {"pub": [], "priv": [], "cons": []}
        k = list(be.one().lc.keys()); assert len(k) == 1
        self.names[k[0]] = ("one", 0)
    def alloc(self, pub, val):
        lc = (self.be.pubval if pub else self.be.privval)(val)
        ks = list(lc.lc.items()); assert len(ks) == 1 and ks[0][1] == 1
        lst = self.trace["pub" if pub else "priv"]; lst.append(val)
        self.names[ks[0][0]] = ("pub" if pub else "priv", len(lst))
        return lc
    def describe(self, lc):
        return [[self.names[k][0], self.names[k][1], c] for (k, c) in lc.lc.items()]
    def constrain(self, a, b, c):
        self.be.add_constraint(a, b, c)
        self.trace["cons"].append([self.describe(a), self.describe(b), self.describe(c)])
    def value(self, lc):
        t = self.trace
        return sum(c * (1 if k == "one" else t[k][i-1]) for (k, i, c) in self.describe(lc))

def write_files(be):
    devnull = open(os.devnull, "w"); so, se = sys.stdout, sys.stderr
    sys.stdout = sys.stderr = devnull
    try: be.prove()
    finally: sys.stdout, sys.stderr = so, se; devnull.close()
    with open("computation.zkif", "rb") as f: comp = f.read()
    with open("circuit.zkif", "rb") as f: circ = f.read()
    os.remove("computation.zkif"); os.remove("circuit.zkif")
    return comp, circ

def run_script(modname, p, script, privs):
    """ script: list of steps; replayed with the given private inputs.
        ("pub", value) | ("priv", index into privs) | ("mul", terms_a, terms_b, out_is_pub?) | ("lin", terms_a, terms_c)
        terms = list of (wire number in order of making, or -1 for one, coefficient); a "mul" step makes a new wire holding
        the product (private, so that public values do not depend on privs) and constrains a*b=new;
        ("mulpub", ...) the same with a public product - only used where a and b do not depend on private wires. """
    be = fresh_backend(modname); r = Recorder(be); made = []
    def lin(terms):
        acc = be.zero()
        for (wn, c) in terms:
            acc = acc + (be.one() if wn < 0 else made[wn]) * c
        return acc
    for st in script:
        if st[0] == "pub": made.append(r.alloc(True, st[1]))
        elif st[0] == "priv": made.append(r.alloc(False, privs[st[1]]))
        elif st[0] in ("mul", "mulpub"):
            a = lin(st[1]); b = lin(st[2])
            o = r.alloc(st[0] == "mulpub", r.value(a) * r.value(b) % p)
            made.append(o); r.constrain(a, b, o)
        elif st[0] == "lin":
            # a * 1 = c with c := a re-expressed: c = a + 0*extra wires (exercises zero coefficients), holds trivially
            a = lin(st[1]); c = a + lin([(wn, 0) for (wn, _) in st[2]])
            r.constrain(a, be.one(), c)
        elif st[0] == "sub":
            # (a - a) * b = empty combination
            a = lin(st[1]); r.constrain(a - a, lin(st[2]), be.zero())
    comp, circ = write_files(be)
    return r.trace, comp, circ

def check_script(ctx, modname, p, script, privsets):
    circs = []
    for (j, privs) in enumerate(privsets):
        trace, comp, circ = run_script(modname, p, script, privs)
        c = "%s/privs#%d" % (ctx, j)
        check_files(c, comp, circ, trace, p)
        rcomp, rcirc = reference_files(trace, p)
        if comp != rcomp: fail(c, "computation.zkif differs from the reference encoding of the same trace")
        if circ != rcirc: fail(c, "circuit.zkif differs from the reference encoding of the same trace")
        circs.append(circ)
    if any(x != circs[0] for x in circs): fail(ctx, "circuit.zkif depends on the private values")
    return len(privsets)

def backend_level():
    runs = 0
    rnd = random.Random(20261004)
    for (name, modname, p) in BACKENDS:
        be = fresh_backend(modname)
        if be.get_modulus() != p: fail(name, "get_modulus() is %d, expected %d" % (be.get_modulus(), p))
        # empty program
        runs += check_script(name + "/empty", modname, p, [], [[]])
        # exhaustive: every order of making k<=5 wires public/private; every wire used, with a coefficient that tells it apart
        for k in range(1, 6):
            for kinds in itertools.product((True, False), repeat=k):
                script = []; np_ = 0
                for (j, pub) in enumerate(kinds):
                    if pub: script.append(("pub", 100 + j))
                    else: script.append(("priv", np_)); np_ += 1
                allw = [(j, 7 + j) for j in range(k)] + [(-1, 3)]
                script.append(("mul", allw, [(j, -(j + 1)) for j in range(k)]))
                script.append(("lin", allw[::-1], allw))
                for j in range(k): script.append(("mul", [(j, 1)], [(k, 1), (j, 2)]))
                privsets = [[rnd.randrange(p) for _ in range(np_)], [-(i + 1) for i in range(np_)]]
                runs += check_script("%s/exhaustive%s" % (name, "".join("P" if x else "w" for x in kinds)), modname, p, script, privsets)
        # random traces
        for t in range(120):
            script = []; nw = 0; npriv = 0; pubonly = []
            def coeff():
                return rnd.choice([0, 1, -1, 2, -2, p - 1, p, p + 1, -p, 2**300 + 17, -(2**255), rnd.randrange(p), -rnd.randrange(p), rnd.randrange(1 << 16)])
            def terms(pool):
                if not pool: return [(-1, coeff())] if rnd.random() < 0.7 else []
                ws = rnd.sample(pool, rnd.randrange(0, min(len(pool), 5) + 1))
                ts = [(w, coeff()) for w in ws]
                if rnd.random() < 0.4: ts.insert(rnd.randrange(len(ts) + 1), (-1, coeff()))
                if ts and rnd.random() < 0.3: ts.append((rnd.choice(ts)[0], coeff()))     # repeated wire: coefficients add up
                return ts
            for s in range(rnd.randrange(0, 14)):
                x = rnd.random()
                if x < 0.25:
                    script.append(("pub", rnd.choice([0, 1, -1, p - 1, p, p + 5, -p - 3, rnd.randrange(p), rnd.randrange(1 << 20)]))); pubonly.append(nw); nw += 1
                elif x < 0.5:
                    script.append(("priv", npriv)); npriv += 1; nw += 1
                elif x < 0.75:
                    script.append(("mul", terms(list(range(nw))), terms(list(range(nw))))); nw += 1
                elif x < 0.85:
                    script.append(("mulpub", terms(pubonly), terms(pubonly))); pubonly.append(nw); nw += 1
                elif x < 0.93:
                    script.append(("lin", terms(list(range(nw))), terms(list(range(nw)))))
                else:
                    script.append(("sub", terms(list(range(nw))), terms(list(range(nw)))))
            privsets = [[rnd.choice([0, 1, -1, p - 1, p + 2, rnd.randrange(p), rnd.randrange(256), -rnd.randrange(p)]) for _ in range(npriv)] for _ in range(3)]
            runs += check_script("%s/random#%d" % (name, t), modname, p, script, privsets)
    return runs

# ----------------------------------------------------------------------------------------------------------------
# B. runtime level: real programs in subprocesses
# ----------------------------------------------------------------------------------------------------------------
CHILD = r'''
import json, os, sys
backend_name, prog, x, w = sys.argv[1], sys.argv[2], int(sys.argv[3]), int(sys.argv[4])
os.environ["PYSNARK_BACKEND"] = backend_name
import pysnark.runtime as rt
from pysnark.runtime import PrivVal, PubVal, LinComb
be = rt.backend
assert rt.backend_name == backend_name, rt.backend_name
names = {}; trace = {"pub": [], "priv": [], "cons": []}
names[list(be.one().lc.keys())[0]] = ("one", 0)
def wrap(fn, kind):
    def f(val):
        lc = fn(val); (k, c), = lc.lc.items(); assert c == 1
        trace[kind].append(val); names[k] = (kind, len(trace[kind])); return lc
    return f
be.pubval = wrap(be.pubval, "pub"); be.privval = wrap(be.privval, "priv")
orig_add = be.add_constraint
def add_constraint(a, b, c):
    orig_add(a, b, c)
    trace["cons"].append([[[names[k][0], names[k][1], v] for (k, v) in lc.lc.items()] for lc in (a, b, c)])
be.add_constraint = add_constraint
import atexit
def dump():
    with open("trace.json", "w") as f: json.dump(trace, f)
atexit.register(dump)

if prog == "cube":
    xs = PubVal(x); ws = PrivVal(w)
    y = ws * ws * ws + 3 * ws - xs
    r = PrivVal(y.value); (y - r).assert_zero()
    nz = y.check_zero()
elif prog == "late_public":
    # public values made after private ones, and a public output of public data only
    ws = PrivVal(w); a = PubVal(x); b = ws * ws; c = PubVal(x + 1)
    (a * c).val()
    (b - ws * ws).assert_zero()
    d = PrivVal(w + 2); e = PubVal(7)
    ((d - 2 - ws) * e).assert_zero()
elif prog == "bits":
    rt.bitlength = 8
    ws = PrivVal(w % 100); xs = PubVal(x % 100)
    bits = (ws + xs).to_bits()
    lt = ws < xs
    z = (ws == xs) | lt
    LinComb.from_bits(bits).assert_eq(ws + xs)
elif prog == "divmod":
    ws = PrivVal(w % 1000 + 1); xs = PubVal(x % 50 + 1)
    q = ws // xs; r = ws % xs
    (q * xs + r).assert_eq(ws)
    h = (q * 3 - r) * (ws - xs)
elif prog == "fixed":
    from pysnark.fixedpoint import PrivValFxp, PubValFxp
    a = PrivValFxp((w % 1000) / 8.0); b = PubValFxp((x % 1000) / 4.0)
    c = a * b + a
    d = c / 2
elif prog == "noprivate":
    a = PubVal(x); b = PubVal(x + 5)
    (a + 5 - b).assert_zero()
else:
    raise SystemExit("unknown program")
'''

def runtime_level(stubdir):
    runs = 0
    env = dict(os.environ)
    env["PYTHONPATH"] = os.pathsep.join([stubdir] + [q for q in sys.path if q and q != stubdir])
    env.pop("PYSNARK_BACKEND", None)
    with open("child.py", "w") as f: f.write(CHILD)
    for (name, modname, p) in BACKENDS:
        for prog in ("cube", "late_public", "bits", "divmod", "fixed", "noprivate"):
            circs = []
            for (x, w) in ((12, 5), (12, 77), (12, 3 - 2**40)):
                if prog in ("bits", "divmod", "fixed") and w < 0: w = 912
                d = tempfile.mkdtemp(dir=".")
                r = subprocess.run([sys.executable, os.path.abspath("child.py"), name, prog, str(x), str(w)], cwd=d, env=env, stdout=subprocess.PIPE, stderr=subprocess.PIPE)
                ctx = "%s/%s(x=%d,w=%d)" % (name, prog, x, w)
                if r.returncode != 0:
                    fail(ctx, "program failed: " + r.stderr.decode()[-600:]); continue
                with open(os.path.join(d, "trace.json")) as f: trace = json.load(f)
                with open(os.path.join(d, "computation.zkif"), "rb") as f: comp = f.read()
                with open(os.path.join(d, "circuit.zkif"), "rb") as f: circ = f.read()
                check_files(ctx, comp, circ, trace, p)
                if prog != "noprivate" and not trace["priv"]: fail(ctx, "test program made no private wires?")
                circs.append((trace["pub"], len(trace["cons"]), circ)); runs += 1
            for c in circs[1:]:
                if c[0] == circs[0][0] and c[2] != circs[0][2]:
                    fail("%s/%s" % (name, prog), "equal public values, different private values: circuit.zkif differs")
                if c[0] != circs[0][0]: fail("%s/%s" % (name, prog), "test program's public values depend on w (bug in the check)")
    return runs

def main():
    scratch = os.getcwd()
    stubdir = install_flatbuffers(scratch)
    sys.path.insert(0, stubdir)
    import flatbuffers
    assert os.path.dirname(flatbuffers.__file__).startswith(stubdir)
    import pysnark
    print("checking", os.path.dirname(pysnark.__file__))
    a = backend_level()
    print("backend level: %d runs checked" % a)
    b = runtime_level(stubdir)
    print("runtime level: %d runs checked" % b)
    if failures:
        print("%d FAILURES" % len(failures)); return 1
    print("property C11 held in all runs"); return 0

if __name__ == "__main__":
    sys.exit(main())
