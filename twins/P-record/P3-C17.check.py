# Evidence program for property C17 (a @snark function exposes exactly its arguments
# and results as public values), aimed at the code changed by P: for_each_in /
# _rebuild_tuple, which now hand named tuples back as named tuples.
#
# Run from an empty directory:   PYTHONPATH=<tree> /venv/bin/python P.check.py
#
# It uses the snarkjs backend, whose module keeps every public / private value and
# every constraint in plain lists, and for MANY argument structures (random nesting of
# lists, tuples, dicts, several kinds of named tuples, degenerate tuple subclasses),
# function bodies and modes (plain, ignore_errors, true / false guard, lazy
# if_then_else branch), all inside ONE run (so: a long sequence of wrapped calls):
#   * the body receives, at every numeric leaf, a wire that is exactly the next public
#     input (ints in traversal order, then floats in traversal order), carrying the
#     argument's value; every other leaf is the very same object; containers have the
#     shape (and with P: the named tuple type) of what was passed;
#   * after the body, exactly one public output per secret result, in order (LinComb
#     leaves, then LinCombFxp leaves, then LinCombBool leaves), carrying the result's
#     value, and tied to the computed wire: the constraint 0*0 = wire - out (+ dummy
#     with guard*dummy = 0 under a guard) is found structurally, and changing the
#     output alone in the witness falsifies some constraint;
#   * nothing else became public (count of public values);
#   * the caller gets values equal to what the undecorated body returns on the plain
#     arguments (with P: also the same container types, named tuples included);
#   * keyword arguments are refused and leave no trace;
#   * every constraint ever emitted holds on the recorded witness (mod p);
# and finally the files written by prove() are decoded: public count, public values,
# and all constraints re-evaluated from the bytes.
import collections
import enum
import os
import random
import sys
import tempfile
import typing
import warnings

os.environ["PYSNARK_BACKEND"] = "snarkjs"
import pysnark.runtime as rt
import pysnark.snarkjsbackend as be
from pysnark.runtime import LinComb, PrivVal, snark, guarded, ignore_errors, for_each_in
from pysnark.boolean import LinCombBool, PrivValBool
from pysnark.fixedpoint import LinCombFxp
from pysnark.branching import if_then_else

rt.autoprove = False
warnings.simplefilter("error")       # no "data loss" floats slip in unnoticed
P_ = be.snarkjsp
rnd = random.Random(1717)
failures = []
stats = collections.Counter()

def fail(msg):
    failures.append(msg)
    if len(failures) <= 25: print("FAIL:", msg)

# ----------------------------------------------------------------- named tuples
Point = collections.namedtuple("Point", "x y")
Empty = collections.namedtuple("Empty", "")
One = collections.namedtuple("One", ["only"])
class Rec(typing.NamedTuple):
    a: int
    b: list
    c: float = 0.5
class Picky(Point):                  # refuses to be rebuilt: decays into a plain tuple
    @classmethod
    def _make(cls, it): raise TypeError("no")
class Picky2(Point):
    @classmethod
    def _make(cls, it): raise ValueError("no")
class Strict(Point):                 # __new__ validates; _make does not go through __new__
    def __new__(cls, x, y):
        if not isinstance(x, int): raise TypeError("ints only")
        return super().__new__(cls, x, y)
class Plain(tuple): pass             # ordinary tuple subclass: plain tuple
class Fielded(tuple):                # has _fields but no _make: plain tuple
    _fields = ("p", "q")
class OddFields(tuple):              # _make but _fields is not a tuple: plain tuple
    _fields = "pq"
    @classmethod
    def _make(cls, it): return cls(it)
class MyList(list): pass
class MyDict(dict): pass

HAS_P = type(for_each_in(lambda x: x, Point(1, 2))) is Point

def expected_type(struct):
    """ container type the library is to hand over for struct (tree with P) """
    if isinstance(struct, list): return list
    if isinstance(struct, dict): return dict
    if isinstance(struct, tuple):
        if not HAS_P: return tuple
        if isinstance(struct, (Picky, Picky2, Plain, Fielded, OddFields)): return tuple
        if hasattr(struct, "_fields"): return type(struct)
        return tuple
    return None

# ----------------------------------------------------------------- own traversal
def is_container(s): return isinstance(s, (list, tuple, dict))

def children(s):
    return [s[k] for k in s] if isinstance(s, dict) else list(s)

def leaves(s):
    if is_container(s):
        out = []
        for c in children(s): out += leaves(c)
        return out
    return [s]

def tmap(f, s):
    """ the checker's own structure-preserving map (used by the function bodies) """
    if isinstance(s, dict): return type(s)((k, tmap(f, s[k])) for k in s)
    if isinstance(s, list): return type(s)(tmap(f, c) for c in s)
    if isinstance(s, tuple):
        items = [tmap(f, c) for c in s]
        if isinstance(s, (Point, Empty, One, Rec)) and not isinstance(s, Strict):
            return tuple.__new__(type(s), items)
        return tuple(items)
    return f(s)

# ----------------------------------------------------------------- witness algebra
def wire(k):
    if k == 0: return 1
    return be.pubvals[k - 1] if k > 0 else be.privvals[-k - 1]

def norm(lc):
    """ a runtime LinComb or a backend LinearCombination as {wire: coefficient mod p} """
    if isinstance(lc, LinComb): lc = lc.lc
    return {k: v % P_ for k, v in lc.lc.items() if v % P_}

def ev(lc):
    return sum(v * wire(k) for k, v in lc.lc.items()) % P_

def holds(c):
    return (ev(c[0]) * ev(c[1]) - ev(c[2])) % P_ == 0

checked_upto = [0]
def check_new_constraints(what):
    for i in range(checked_upto[0], len(be.constraints)):
        if not holds(be.constraints[i]):
            fail("%s: constraint #%d does not hold on the witness" % (what, i))
    stats["constraints evaluated"] += len(be.constraints) - checked_upto[0]
    checked_upto[0] = len(be.constraints)

def lcsub(a, b):
    out = dict(a)
    for k, v in b.items():
        out[k] = (out.get(k, 0) - v) % P_
    return {k: v for k, v in out.items() if v}

# ----------------------------------------------------------------- random structures
class Colour(enum.IntEnum):
    RED = 1
    NONE = 0
    BIG = 70000
class Flag(enum.IntFlag):
    A = 1
    B = 2
class Fe(int): pass                  # int subclasses are ints, hence numeric arguments
SUBINTS = [Colour.RED, Colour.NONE, Colour.BIG, Flag.A | Flag.B, Fe(12), Fe(-3)]
INTS = SUBINTS + [0, 1, -1, 2, 7, -13, 255, 65535, 65536, -65536, 2**40 + 3, -(2**70), P_ - 1, P_, P_ + 5, -P_, 3 * P_ + 2]
SMALL = SUBINTS[:2] + SUBINTS[3:] + [0, 1, -1, 2, 7, -13, 100, 255, 12345, -32000, 32767]
FLOATS = [0.0, 0.5, -1.5, 2.25, 1000.0, -0.00390625, 3.0, 127.99609375]
OTHERS = [None, "txt", "", b"by", 2 + 3j, frozenset([1]), {4, 5}, range(3), Ellipsis]

def rleaf(ints):
    r = rnd.random()
    if r < 0.50: return rnd.choice(ints)
    if r < 0.70: return rnd.choice(FLOATS)
    if r < 0.80: return rnd.choice([True, False])
    return rnd.choice(OTHERS)

def rstruct(depth, ints):
    if depth <= 0 or rnd.random() < 0.25: return rleaf(ints)
    sub = lambda: rstruct(depth - 1, ints)
    kind = rnd.randrange(16)
    n = rnd.randrange(4)
    if kind == 0: return [sub() for _ in range(n)]
    if kind == 1: return tuple(sub() for _ in range(n))
    if kind == 2: return {k: sub() for k in rnd.sample(["k", 3, "a", (1, 2), None, "z"], n)}
    if kind == 3: return Point(sub(), sub())
    if kind == 4: return Empty()
    if kind == 5: return One(sub())
    if kind == 6: return Rec(sub(), [sub() for _ in range(n)], sub())
    if kind == 7: return Rec(sub(), [sub()])
    if kind == 8: return tuple.__new__(Picky, (sub(), sub()))
    if kind == 9: return tuple.__new__(Picky2, (sub(), sub()))
    if kind == 10: return Strict(rnd.choice(ints), sub())
    if kind == 11: return Plain(sub() for _ in range(n))
    if kind == 12: return Fielded((sub(), sub()))
    if kind == 13: return OddFields((sub(), sub()))
    if kind == 14: return MyList(sub() for _ in range(n))
    return MyDict((k, sub()) for k in rnd.sample(["k", 3, "a"], min(n, 3)))

FIXED = [
    (), (0,), (Point(0, 0),), (Point(Point(1, 2), [Point(3, 4.5)]),), (Empty(),), (One(One(One(5))),),
    (Rec(1, [2, 3.0, Point(4, True)], 1.5),), ({"p": Point(1, 2), "q": (Point(3, 4),)},),
    (1, 2.5, 3, True, 4.25, "s", None), ([[[[[Point(-1, [])]]]]],), (Strict(3, 4),),
    (tuple.__new__(Picky, (1, 2)), Plain((3, 4)), Fielded((5, 6)), OddFields((7, 8))),
    (MyList([1, Point(2, 3)]), MyDict(a=Point(4, 5.5))), (P_ + 5, -P_, Point(P_, 0.0)),
    (Colour.BIG, Point(Fe(5), Flag.B), [Colour.NONE, True, False]),
]

# ----------------------------------------------------------------- function bodies
def op(x):
    if isinstance(x, (int, LinComb)): return x * x + 1       # bool included: it is an int
    if isinstance(x, (float, LinCombFxp)): return x + 0.5
    if isinstance(x, LinCombBool): return ~x
    return x

def body_identity(*a): return a[0] if len(a) == 1 else a
def body_map(*a): return tmap(op, a)
def body_list(*a): return [tmap(op, x) for x in a]
def body_none(*a): return None
def body_named(*a):
    ls = [x for x in leaves(a) if isinstance(x, (int, LinComb))]
    fs = [x for x in leaves(a) if isinstance(x, (float, LinCombFxp))]
    tot = sum(ls[1:], ls[0]) if ls else 0
    return Rec(tot, [Point(x * 3, "lbl") for x in ls[:3]], (fs[0] - 1.25) if fs else 9.5)
def body_dict(*a):
    ls = [x for x in leaves(a) if isinstance(x, (int, LinComb))]
    return {"n": len(ls), "first": One(ls[0] * ls[-1]) if ls else Empty(), "all": tuple(a), 5: [7, "seven"]}
def body_cmp(*a):      # comparisons: Boolean results (small values only)
    ls = [x for x in leaves(a) if isinstance(x, (int, LinComb))]
    return Point([x >= 0 for x in ls[:2]], [x == 7 for x in ls[:2]]), [x < 100 for x in ls[:1]]

BODIES = [body_identity, body_map, body_list, body_none, body_named, body_dict]

# ----------------------------------------------------------------- one wrapped call
def same_shape(got, want, what, strict_types):
    """ got equals want leaf by leaf, same container shapes (and types if asked) """
    if is_container(want):
        if not is_container(got): return fail("%s: container %r became %r" % (what, want, got))
        if strict_types and type(got) is not expected_type(want):
            return fail("%s: container type %s for a %s" % (what, type(got).__name__, type(want).__name__))
        if isinstance(want, dict) != isinstance(got, dict) or isinstance(want, list) != isinstance(got, list):
            return fail("%s: container kind changed: %r vs %r" % (what, got, want))
        if isinstance(want, dict) and list(got) != list(want): return fail("%s: dict keys %r vs %r" % (what, list(got), list(want)))
        cg, cw = children(got), children(want)
        if len(cg) != len(cw): return fail("%s: length %d vs %d" % (what, len(cg), len(cw)))
        for g, w in zip(cg, cw): same_shape(g, w, what, strict_types)
    else:
        if is_container(got) or type(got) is not type(want) and not (isinstance(got, (int, float)) and isinstance(want, (int, float))):
            return fail("%s: leaf %r (%s) instead of %r (%s)" % (what, got, type(got).__name__, want, type(want).__name__))
        if not (got == want): fail("%s: value %r instead of %r" % (what, got, want))

def check_received(got, orig, numbering, what):
    """ what the body received vs. what the caller passed """
    if is_container(orig):
        et = expected_type(orig)
        if type(got) is not et:
            return fail("%s: body received a %s for a %s (expected %s)" % (what, type(got).__name__, type(orig).__name__, et.__name__))
        if isinstance(orig, dict) and list(got) != list(orig): return fail("%s: dict keys differ" % what)
        cg, co = children(got), children(orig)
        if len(cg) != len(co): return fail("%s: received length differs" % what)
        if HAS_P and hasattr(got, "_fields") and isinstance(got, (Point, One, Rec)):
            for name, c in zip(got._fields, cg):            # field access by name works
                if getattr(got, name) is not c: fail("%s: field %s" % (what, name))
        for g, o in zip(cg, co): check_received(g, o, numbering, what)
    elif isinstance(orig, int):                              # bool included (it is an int)
        k = numbering[id(orig), "pos"].pop(0)
        if not isinstance(got, LinComb): return fail("%s: int argument %r arrived as %r" % (what, orig, got))
        if norm(got) != {k: 1}: fail("%s: int argument %r is wire %r, not public input %d" % (what, orig, norm(got), k))
        if got.value != orig or wire(k) != orig: fail("%s: public input %d carries %r, not %r" % (what, k, wire(k), orig))
    elif isinstance(orig, float):
        k = numbering[id(orig), "pos"].pop(0)
        if not isinstance(got, LinCombFxp): return fail("%s: float argument %r arrived as %r" % (what, orig, got))
        if norm(got.lc) != {k: 1}: fail("%s: float argument %r is wire %r, not public input %d" % (what, orig, norm(got.lc), k))
        if got.lc.value != int(orig * 256) or wire(k) != int(orig * 256): fail("%s: public input %d carries %r" % (what, k, wire(k)))
    else:
        if got is not orig: fail("%s: non-numeric argument %r was replaced by %r" % (what, orig, got))

def one_call(body, args, mode, what):
    captured = {}
    def fn(*a):
        captured["pub_at_entry"] = len(be.pubvals)
        captured["args"] = a
        r = body(*a)
        captured["ret"] = r
        captured["pub_at_exit"] = len(be.pubvals)
        captured["priv_at_exit"] = len(be.privvals)
        captured["cons_at_exit"] = len(be.constraints)
        return r
    wrapped = snark(fn)

    pub0 = len(be.pubvals)
    guard_lc = None
    if mode == "plain":
        result = wrapped(*args)
    elif mode == "ignore":
        ignore_errors(True)
        try: result = wrapped(*args)
        finally: ignore_errors(False)
    elif mode in ("guard1", "guard0"):
        g = PrivValBool(1 if mode == "guard1" else 0)
        guard_lc = g.lc
        result = guarded(g.lc)(lambda: wrapped(*args))()
    elif mode == "lazy":
        g = PrivValBool(rnd.randrange(2))
        guard_lc = g.lc
        box = []
        if_then_else(g, lambda: box.append(wrapped(*args)) or 0, 0)
        result = box[0]
    if rt.guard is not None or ignore_errors(): fail("%s: guard / ignore_errors not restored" % what)

    # --- public inputs: ints in order, then floats in order; nothing else
    ls = leaves(args)
    ints = [x for x in ls if isinstance(x, int)]
    floats = [x for x in ls if isinstance(x, float)]
    exp_in = ints + [int(x * 256) for x in floats]
    if captured["pub_at_entry"] - pub0 != len(exp_in):
        fail("%s: %d public inputs for %d numeric arguments" % (what, captured["pub_at_entry"] - pub0, len(exp_in)))
        return
    if be.pubvals[pub0:pub0 + len(exp_in)] != exp_in:
        fail("%s: public inputs %r, expected %r" % (what, be.pubvals[pub0:pub0 + len(exp_in)], exp_in))
    numbering = {}
    # position lists per leaf object, in traversal order, split by pass
    ki, kf = pub0 + 1, pub0 + 1 + len(ints)
    for x in ls:
        if isinstance(x, int): numbering.setdefault((id(x), "pos"), []).append(ki); ki += 1
        elif isinstance(x, float): numbering.setdefault((id(x), "pos"), []).append(kf); kf += 1
    check_received(captured["args"], tuple(args), numbering, what)
    if captured["pub_at_exit"] != captured["pub_at_entry"]: fail("%s: the body itself made values public?" % what)

    # --- public outputs: one per secret result, pass by pass, tied to the computed wire
    rl = leaves(captured["ret"])
    secret = [x for x in rl if isinstance(x, LinComb)] + [x.lc for x in rl if isinstance(x, LinCombFxp)] + [x.lc for x in rl if isinstance(x, LinCombBool)]
    nout = len(be.pubvals) - captured["pub_at_exit"]
    if nout != len(secret):
        fail("%s: %d public outputs for %d secret results" % (what, nout, len(secret)))
        return
    per = 2 if guard_lc is not None else 1
    if len(be.constraints) - captured["cons_at_exit"] != per * len(secret):
        fail("%s: %d constraints for %d outputs" % (what, len(be.constraints) - captured["cons_at_exit"], len(secret)))
        return
    for j, w in enumerate(secret):
        k = captured["pub_at_exit"] + 1 + j
        if wire(k) != w.value: fail("%s: output %d carries %r, the result is %r" % (what, k, wire(k), w.value))
        c = be.constraints[captured["cons_at_exit"] + per * j]
        rest = lcsub(lcsub(norm(c[2]), norm(w)), {k: P_ - 1})
        if norm(c[0]) or norm(c[1]): fail("%s: output constraint is not 0*0=..." % what)
        if guard_lc is None:
            if rest: fail("%s: output %d is not tied to the computed wire: %r" % (what, k, rest))
        else:
            d = -(captured["priv_at_exit"] + 1 + j)
            if rest != {d: 1}: fail("%s: guarded output %d: unexpected rest %r" % (what, k, rest))
            c2 = be.constraints[captured["cons_at_exit"] + per * j + 1]
            if norm(c2[0]) != norm(guard_lc) or norm(c2[1]) != {d: 1} or norm(c2[2]): fail("%s: guard*dummy=0 missing for output %d" % (what, k))
            if wire(d) != 0: fail("%s: dummy of output %d is %r" % (what, k, wire(d)))
        # semantic tie: another value on the output alone contradicts the system
        be.pubvals[k - 1] += 1
        if all(holds(cc) for cc in be.constraints[captured["cons_at_exit"]:]): fail("%s: output %d can be changed freely" % (what, k))
        be.pubvals[k - 1] -= 1
    stats["outputs"] += len(secret); stats["inputs"] += len(exp_in)

    # --- what the caller gets = what the undecorated body gives on the plain arguments
    if mode != "guard0" or body is not body_cmp:
        plain = body(*args)
        same_shape(result, plain, what + " [returned]", HAS_P)
    for x in leaves(result):
        if isinstance(x, (LinComb, LinCombFxp, LinCombBool)): fail("%s: a wire object leaked to the caller" % what)
    check_new_constraints(what)
    stats["calls"] += 1
    stats[mode] += 1

# ----------------------------------------------------------------- for_each_in directly
class Conv:
    """ a converted leaf (not a container, so that the checker's traversal stops at it) """
    def __init__(self, x): self.x = x
    def __eq__(self, other): return isinstance(other, Conv) and (self.x is other.x or self.x == other.x)
    def __repr__(self): return "Conv(%r)" % (self.x,)

def direct_checks():
    for s in [Point(1, 2), Rec(1, [2], 3.5), Empty(), One(Point(1, [One(2)])), tuple.__new__(Picky, (1, 2)), Plain((1, 2)),
              Fielded((1, 2)), OddFields((1, 2)), Strict(1, 2), {"a": Point(1, 2)}, [Point(1, 2)], (1, (2, 3))]:
        order = []
        out = for_each_in(lambda x: (order.append(x), Conv(x))[1], s)
        if order != leaves(s): fail("for_each_in visits %r in order %r" % (s, order))
        same_shape(out, tmap(Conv, s), "for_each_in(%r)" % (s,), False)
        et = expected_type(s)
        if type(out) is not et: fail("for_each_in(%r) gives a %s" % (s, type(out).__name__))
        if leaves(out) != [Conv(x) for x in leaves(s)]: fail("for_each_in(%r): leaves %r" % (s, leaves(out)))
    calls = []
    class Once(Point):
        @classmethod
        def _make(cls, it): calls.append(1); raise TypeError
    n = []
    for_each_in(lambda x: n.append(x), tuple.__new__(Once, (1, 2)))
    if n != [1, 2]: fail("converter applied %r times on a refused named tuple" % (n,))

# ----------------------------------------------------------------- keyword arguments
def kwargs_checks():
    f = snark(lambda *a, **k: 1)
    for a, k in [((), {"x": 1}), ((1,), {"y": 2}), ((Point(1, 2),), {"p": Point(3, 4)}), ((), {"x": None})]:
        before = (len(be.pubvals), len(be.privvals), len(be.constraints))
        try:
            f(*a, **k)
            fail("keyword arguments %r accepted" % (k,))
        except ValueError:
            pass
        if (len(be.pubvals), len(be.privvals), len(be.constraints)) != before: fail("refused call left a trace")

# ----------------------------------------------------------------- written files
def decode_files(all_public):
    d = tempfile.mkdtemp(prefix="r7-C17-")
    old = os.getcwd()
    os.chdir(d)
    try:
        err = sys.stderr
        with open(os.devnull, "w") as null:
            sys.stderr = null
            try: be.prove()
            finally: sys.stderr = err
        with open("witness.wtns", "rb") as f: w = f.read()
        with open("circuit.r1cs", "rb") as f: r = f.read()
    finally:
        os.chdir(old)
        for f in ("witness.wtns", "circuit.r1cs"):
            if os.path.exists(os.path.join(d, f)): os.remove(os.path.join(d, f))
        os.rmdir(d)
    le = lambda b: int.from_bytes(b, "little")
    n = le(w[60:64])
    vals = [le(w[76 + 32 * i:108 + 32 * i]) for i in range(n)]
    if len(w) != 76 + 32 * n: fail("witness file length")
    nvars, npub, ncons = le(r[60:64]), le(r[64:68]), le(r[84:88])
    if nvars != n or n != 1 + len(be.pubvals) + len(be.privvals): fail("files: variable counts")
    if npub != len(all_public): fail("files: %d public values declared, %d expected" % (npub, len(all_public)))
    if vals[0] != 1 or vals[1:1 + npub] != [v % P_ for v in all_public]: fail("files: public part of the witness differs from arguments/results")
    pos = 100
    for i in range(ncons):
        e = []
        for _ in range(3):
            m = le(r[pos:pos + 4]); pos += 4; acc = 0
            for _ in range(m):
                acc += vals[le(r[pos:pos + 4])] * le(r[pos + 4:pos + 36]); pos += 36
            e.append(acc % P_)
        if (e[0] * e[1] - e[2]) % P_: fail("files: constraint %d fails on the written witness" % i)
    if le(r[pos:pos + 4]) != 3: fail("files: constraint section length")
    stats["constraints decoded from circuit.r1cs"] = ncons

# ----------------------------------------------------------------- main
def main():
    direct_checks()
    kwargs_checks()
    cases = [(a, INTS) for a in FIXED]
    for _ in range(260):
        cases.append((tuple(rstruct(rnd.randrange(1, 5), INTS) for _ in range(rnd.randrange(4))), INTS))
    for i, (args, _) in enumerate(cases):
        for body in BODIES:
            mode = ["plain", "ignore", "guard1", "guard0", "lazy"][(i + BODIES.index(body)) % 5] if i % 3 else "plain"
            one_call(body, args, mode, "case %d %s/%s" % (i, body.__name__, mode))
    for i in range(60):                                       # comparisons: Boolean outputs
        args = tuple(rstruct(rnd.randrange(1, 4), SMALL) for _ in range(rnd.randrange(1, 4)))
        mode = ["plain", "ignore", "guard1", "lazy", "guard0"][i % 5]
        if mode == "lazy": mode = "guard1"
        one_call(body_cmp, args, mode, "cmp %d/%s" % (i, mode))
    kwargs_checks()
    check_new_constraints("end")
    decode_files(list(be.pubvals))
    print("named tuples preserved by this tree:", HAS_P)
    print(dict(stats))
    if failures:
        print("PROPERTY C17 VIOLATED: %d failures" % len(failures))
        sys.exit(1)
    print("OK: property C17 held in all cases")

main()
