# P.check.py - exercises the sign test (LinComb.check_positive) behind <, <=, >, >=, abs()
# and the comparisons of LinCombBool / LinCombFxp.
#
# Part A: agreement with Python (or raise), for every operator, operand kind combination,
#         several bitlengths and all operand values in a window that reaches well beyond the
#         bitlength range; no raise inside the domain; every recorded constraint is satisfied
#         by the recorded witness; constraint count is bitlength + 2.
# Part B: the same inside branches that are / are not taken (guards).
# Part C: brute force over a small field: for EVERY field element x and EVERY assignment of
#         the witness wires, if the recorded constraints of x.check_positive() are satisfied
#         then x is in the window and the output wire is the sign Python would compute.
#
# exit 0: property observed everywhere; exit 1 otherwise.

import os, sys, itertools, operator, random

os.environ["PYSNARK_BACKEND"] = "snarkjs"

import pysnark.runtime as rt
import pysnark.snarkjsbackend as be
from pysnark.runtime import PrivVal, PubVal, ConstVal, LinComb
from pysnark.boolean import PrivValBool, PubValBool, LinCombBool
from pysnark.fixedpoint import PrivValFxp, PubValFxp, LinCombFxp
import pysnark.fixedpoint as fxp
from pysnark.branching import if_then_else

rt.autoprove = False
assert rt.backend is be, "snarkjs backend expected"

P = be.get_modulus()
failures = []
stats = {"cases": 0, "raised": 0, "constraints": 0}

def fail(msg):
    failures.append(msg)
    if len(failures) <= 25: print("FAIL:", msg)

def reset():
    be.constraints.clear(); be.privvals.clear(); be.pubvals.clear()
    rt.guard = None; rt._ignore_errors = False; LinComb.ONE = LinComb.ONE_SAFE

def wire(ix):
    if ix == 0: return 1
    return be.pubvals[ix-1] if ix > 0 else be.privvals[-ix-1]

def ev(lc, mod): return sum(c*wire(ix) for (ix,c) in lc.lc.items()) % mod

def constraints_hold(what):
    for (v,w,y) in be.constraints:
        stats["constraints"] += 1
        if (ev(v,P)*ev(w,P) - ev(y,P)) % P != 0:
            fail("unsatisfied constraint after " + what)
            return False
    return True

def value_of(res):
    if isinstance(res, LinCombBool): return res.lc.value
    if isinstance(res, LinCombFxp): return res.lc.value
    if isinstance(res, LinComb): return res.value
    return res

cmpops = [("<", operator.lt), ("<=", operator.le), (">", operator.gt), (">=", operator.ge)]

def run(what, fn, expect, indomain):
    """ fn() must return expect or raise; if indomain, it must not raise """
    reset()
    stats["cases"] += 1
    try:
        got = value_of(fn())
    except (ValueError, AssertionError) as e:
        stats["raised"] += 1
        if indomain: fail(what + ": raised inside the domain: " + repr(e))
        return None
    if got != expect:
        fail(what + ": returned " + str(got) + ", Python says " + str(expect))
    constraints_hold(what)
    return got

# ---------------------------------------------------------------- part A
def part_a():
    kinds = [("priv,priv", lambda a,b: (PrivVal(a), PrivVal(b))),
             ("priv,int",  lambda a,b: (PrivVal(a), b)),
             ("int,priv",  lambda a,b: (a, PrivVal(b))),
             ("pub,priv",  lambda a,b: (PubVal(a), PrivVal(b))),
             ("priv,const",lambda a,b: (PrivVal(a), ConstVal(b)))]
    for bl in [1, 2, 3, 4, 5, 8, 16]:
        rt.bitlength = bl
        lim = 1 << bl
        if bl <= 4:
            rng = range(-2*lim-1, 2*lim+2)
            pairs = list(itertools.product(rng, rng))
        else:
            edge = [0, 1, -1, 2, -2, lim//2-1, lim//2, lim//2+1, -lim//2, -lim//2-1, -lim//2+1,
                    lim-2, lim-1, lim, lim+1, -lim+1, -lim, -lim-1, -lim+2, 2*lim, -2*lim, 3*lim+1, 5, -7]
            r = random.Random(bl)
            vals = edge + [r.randrange(-2*lim, 2*lim) for _ in range(16)]
            pairs = list(itertools.product(vals, vals))
        for (a,b) in pairs:
            indom = abs(a-b) < lim-1          # the difference (and the difference minus one) fits
            for (knm, mk) in kinds:
                for (onm, op) in cmpops:
                    def fn():
                        (x,y) = mk(a,b)
                        n0 = rt.num_constraints
                        res = op(x,y)
                        if not isinstance(res, LinCombBool): raise RuntimeError("comparison result is not a LinCombBool")
                        if rt.num_constraints-n0 != bl+2: fail("comparison costs %d constraints at bitlength %d"%(rt.num_constraints-n0,bl))
                        return res
                    run("bl=%d %s: %d %s %d"%(bl,knm,a,onm,b), fn, int(op(a,b)), indom)
        # the sign test itself and abs, on all values of a wide window
        vals = sorted(set(a for (a,_) in pairs))
        for a in vals:
            run("bl=%d check_positive(%d)"%(bl,a), lambda: PrivVal(a).check_positive(), int(a>=0), abs(a)<lim)
            run("bl=%d pub check_positive(%d)"%(bl,a), lambda: PubVal(a).check_positive(), int(a>=0), abs(a)<lim)
            run("bl=%d abs(%d)"%(bl,a), lambda: abs(PrivVal(a)), abs(a), abs(a)<lim)
            # explicit width differing from the global bitlength
            for w in [1, 3, bl+1]:
                run("bl=%d check_positive(%d,bits=%d)"%(bl,a,w), lambda: PrivVal(a).check_positive(w), int(a>=0), abs(a)<(1<<w))
    # booleans: all operand kind combinations, all values
    rt.bitlength = 4
    for (a,b) in itertools.product([0,1],[0,1]):
        for (onm,op) in cmpops:
            run("bool priv,priv %d %s %d"%(a,onm,b), lambda: op(PrivValBool(a), PrivValBool(b)), int(op(a,b)), True)
            run("bool priv,int %d %s %d"%(a,onm,b), lambda: op(PrivValBool(a), b), int(op(a,b)), True)
            run("bool int,priv %d %s %d"%(a,onm,b), lambda: op(a, PrivValBool(b)), int(op(a,b)), True)
            run("bool pub,lc %d %s %d"%(a,onm,b), lambda: op(PubValBool(a), PrivVal(b)), int(op(a,b)), True)
    # fixed point against int / float / LinComb / LinCombFxp, both orders
    for bl in [10, 12, 16]:
        rt.bitlength = bl
        sc = 1 << fxp.resolution
        lim = 1 << bl
        vals = [0, 1, -1, 2, -3, 1.5, -0.5, 0.25, 3.75, (lim//sc)-1, -(lim//sc)+1, lim//sc, 2*lim//sc]
        for (a,b) in itertools.product(vals, vals):
            indom = abs(a*sc-b*sc) < lim-1
            for (onm,op) in cmpops:
                e = int(op(a,b))
                run("fxp,fxp bl=%d %s %s %s"%(bl,a,onm,b), lambda: op(PrivValFxp(a), PrivValFxp(b)), e, indom)
                run("fxp,raw bl=%d %s %s %s"%(bl,a,onm,b), lambda: op(PrivValFxp(a), b), e, indom)
                run("raw,fxp bl=%d %s %s %s"%(bl,a,onm,b), lambda: op(a, PrivValFxp(b)), e, indom)
                if isinstance(b,int): run("fxp,lc bl=%d %s %s %s"%(bl,a,onm,b), lambda: op(PubValFxp(a), PrivVal(b)), e, indom)
                if isinstance(a,int): run("lc,fxp bl=%d %s %s %s"%(bl,a,onm,b), lambda: op(PrivVal(a), PrivValFxp(b)), e, indom)
            run("fxp abs bl=%d %s"%(bl,a), lambda: abs(PrivValFxp(a)), int(abs(a)*sc), abs(a*sc)<lim)

# ---------------------------------------------------------------- part B
def part_b():
    for bl in [2, 3, 6]:
        rt.bitlength = bl
        lim = 1 << bl
        rng = range(-lim-2, lim+3)
        for (c, a, b) in itertools.product([0,1], rng, rng):
            indom = abs(a-b) < lim-1
            for (onm,op) in cmpops:
                # the comparison happens in the branch selected by c (must agree with Python or raise)
                # and in the other branch (must not disturb anything, whatever its operands)
                def fn():
                    x = PrivVal(a); y = PrivVal(b); cond = PrivValBool(c)
                    return if_then_else(cond, lambda: op(x,y)+0, lambda: op(y,x+lim*3)+0)   # else-operands are far out of range
                def fn2():
                    x = PrivVal(a); y = PrivVal(b); cond = PrivValBool(c)
                    return if_then_else(cond, lambda: op(y,x+lim*3)+0, lambda: op(x,y)+0)
                e = int(op(a,b))
                if c==1: run("guard taken bl=%d %d %s %d"%(bl,a,onm,b), fn, e, indom)
                else:    run("guard else  bl=%d %d %s %d"%(bl,a,onm,b), fn2, e, indom)

# ---------------------------------------------------------------- part C
def part_c():
    for (bl, q) in [(1,5), (1,7), (2,11), (2,17), (3,17), (3,19), (3,23)]:
        assert q > (1 << (bl+1))
        rt.bitlength = bl
        reset()
        x = PubVal(0)
        out = x.check_positive()
        cons = [tuple(dict(l.lc) for l in c) for c in be.constraints]
        npriv = len(be.privvals)
        outlc = dict(out.lc.lc.lc)
        if len(cons) != bl+2: fail("part C: %d constraints, expected %d"%(len(cons),bl+2))
        def evq(lc, xv, w):
            return sum(c*(1 if ix==0 else (xv if ix==1 else w[-ix-1])) for (ix,c) in lc.items()) % q
        # order constraints so that backtracking can cut: a constraint is checked once all its wires are set
        need = [max([-ix for l in c for ix in l if ix<0] or [0]) for c in cons]
        lim = 1 << bl
        accepted = {}
        for xv in range(q):
            sols = []
            def rec(w):
                k = len(w)
                for (c,n) in zip(cons,need):
                    if n == k and (evq(c[0],xv,w)*evq(c[1],xv,w) - evq(c[2],xv,w)) % q != 0: return
                if k == npriv:
                    sols.append(evq(outlc,xv,w)); return
                for v in range(q): rec(w+[v])
            rec([])
            centred = xv if xv <= q//2 else xv-q
            if sols:
                accepted[centred] = set(sols)
                if not (-lim <= centred < lim): fail("part C bl=%d q=%d: x=%d accepted but is outside [-2^b,2^b)"%(bl,q,centred))
                if set(sols) != {int(centred>=0)}: fail("part C bl=%d q=%d: x=%d can yield sign outputs %s"%(bl,q,centred,sorted(set(sols))))
            elif -lim < centred < lim:
                fail("part C bl=%d q=%d: x=%d inside the domain has no satisfying witness"%(bl,q,centred))
        # honest execution for every in-range value satisfies the system with the reported value
        for a in range(-lim+1, lim):
            reset()
            r = PubVal(a).check_positive()
            for c in be.constraints:
                w = be.privvals
                if (evq(c[0].lc,a%q,w)*evq(c[1].lc,a%q,w) - evq(c[2].lc,a%q,w)) % q != 0: fail("part C honest witness bl=%d x=%d"%(bl,a))
            if r.lc.value != int(a>=0): fail("part C honest value bl=%d x=%d"%(bl,a))
        print("part C: bitlength %d over GF(%d): accepted x = %s"%(bl,q,sorted(accepted)))

part_a()
print("part A done: %d cases (%d raised), %d constraint evaluations, %d failures"%(stats["cases"],stats["raised"],stats["constraints"],len(failures)))
part_b()
print("part B done: %d cases (%d raised), %d failures"%(stats["cases"],stats["raised"],len(failures)))
part_c()
reset()

if failures:
    print("%d FAILURES"%len(failures))
    sys.exit(1)
print("OK: traced comparisons / sign tests agreed with Python or raised in all %d cases"%stats["cases"])
sys.exit(0)
