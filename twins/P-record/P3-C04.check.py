# Evidence program for P (fixed-point * float and / float reduce the public ratio to lowest terms).
#
# Run from an empty directory:  PYTHONPATH=<tree> /venv/bin/python P.check.py
#
# What is checked, on the snarkjs backend (it records witness and constraints in memory):
#  (1) PROPERTY C04: every LinComb object created anywhere during the run (operands, intermediates inside
#      the gadgets, results) reports a value congruent mod p to its linear combination evaluated on the
#      recorded witness.  Checked after every single operation, in every mode.
#  (2) every emitted constraint holds on the recorded witness whenever no error was suppressed
#      (guards may be false: guarded constraints hold through their dummy wire).
#  (3) with an active guard the result equals plain Python: floor(v*s/2^r) resp. floor(v*2^r/s), where
#      s = int(f*2^r) is the scaled float, for positive AND negative v and f.
#  (4) the remainder of the division gadget is range-checked against the reduced denominator: brute force
#      over a window of forged (quo, rem) pairs shows the constraints accept exactly the floor.
#  (5) the circuit does not depend on the secret input: same number of constraints / wires for every v.
# Exit status 0 iff everything held.

import os, sys, itertools, warnings
os.environ["PYSNARK_BACKEND"] = "snarkjs"
warnings.simplefilter("ignore")

import pysnark.runtime as rt
from pysnark.runtime import LinComb, PrivVal, PubVal, ConstVal, guarded, ignore_errors
from pysnark.boolean import LinCombBool, PrivValBool
from pysnark.fixedpoint import LinCombFxp, PrivValFxp, PubValFxp
import pysnark.fixedpoint as fxp
from pysnark.branching import if_then_else
import pysnark.snarkjsbackend as be

rt.autoprove = False
assert rt.backend is be, "this program needs the snarkjs backend"
P = be.get_modulus()
RES = fxp.resolution

# ---------------------------------------------------------------- harness
registry = []
_orig_init = LinComb.__init__
def _init(self, value, lc):
    _orig_init(self, value, lc)
    registry.append(self)
LinComb.__init__ = _init

def wire(k):
    if k == 0: return 1
    return be.pubvals[k-1] if k > 0 else be.privvals[-k-1]

def ev(lc):
    return sum(c * wire(k) for (k, c) in lc.lc.items()) % P

failures = []
nchecked = 0
def check_objects(ctx):
    global nchecked
    for o in registry:
        nchecked += 1
        if (o.value - ev(o.lc)) % P != 0:
            failures.append("C04 violated (%s): object reports %d but its wires evaluate to %d" % (ctx, o.value, ev(o.lc)))
            break
    del registry[:]

cons_done = 0
def check_constraints(ctx, expect_sat=True):
    global cons_done
    bad = 0
    for (v, w, y) in be.constraints[cons_done:]:
        if (ev(v) * ev(w) - ev(y)) % P != 0: bad += 1
    cons_done = len(be.constraints)
    if bad and expect_sat:
        failures.append("%d unsatisfied constraint(s) (%s)" % (bad, ctx))
    return bad

def floordiv_ref(v, num, den):
    return (v * num) // den          # Python floor semantics

# ---------------------------------------------------------------- cases
floats = [1.0, 2.0, 3.0, 7.0, 100.0, 0.5, 0.25, 0.125, 1.0/256, 1.5, 2.5, 0.75, 0.1, 0.3, 1.0/3, 3.14159, 12.34,
          255.99609375, 256.0, 512.0, 1000.0, 0.0,
          -1.0, -2.0, -0.5, -0.25, -1.5, -3.0, -0.1, -7.25, -256.0]
values = [0, 1, 2, 3, 5, 17, 255, 256, 257, 300, 1000, 12345, 32767, -1, -2, -3, -255, -256, -257, -1000, -12345]   # raw fixed-point ints

stats = {"ok": 0, "raised": 0, "free": 0}

def scaled(f): return int(f * (1 << RES))

def one_case(op, v, f, mode):
    """ mode: plain | ignore | gtrue | gfalse | nested_false | lazy_false | lazy_true """
    s = scaled(f)
    x = LinCombFxp(PrivVal(v), False)
    c0 = len(be.constraints)
    def body():
        return x * f if op == "mul" else x / f
    ctx = "%s v=%d f=%r mode=%s" % (op, v, f, mode)
    old_ie = ignore_errors()
    res = None
    try:
        if mode == "plain":
            res = body()
        elif mode == "ignore":
            ignore_errors(True)
            res = body()
        elif mode == "gtrue":
            res = guarded(PrivValBool(1).lc)(body)()
        elif mode == "gfalse":
            res = guarded(PrivValBool(0).lc)(body)()
        elif mode == "nested_false":
            res = guarded(PrivValBool(1).lc)(lambda: guarded(PrivValBool(0).lc)(body)())()
        elif mode == "lazy_false":
            res = if_then_else(PrivValBool(0), body, lambda: LinCombFxp(PrivVal(7), False))
        elif mode == "lazy_true":
            res = if_then_else(PrivValBool(1), body, lambda: LinCombFxp(PrivVal(7), False))
    except (ValueError, AssertionError, ZeroDivisionError) as e:
        stats["raised"] += 1
        ignore_errors(old_ie)
        check_objects(ctx + " [raised " + type(e).__name__ + "]")
        check_constraints(ctx, expect_sat=False)   # partial gadget: nothing to require
        return None
    finally:
        ignore_errors(old_ie)
        rt.guard = None; LinComb.ONE = LinComb.ONE_SAFE
    stats["ok"] += 1
    # (1) property for every object created
    assert isinstance(res, LinCombFxp)
    check_objects(ctx)
    # (2) constraints
    suppressed = mode == "ignore"
    check_constraints(ctx, expect_sat=not suppressed)
    # (3) Python semantics when the operation really ran with an active guard
    if mode in ("plain", "gtrue", "lazy_true"):
        ref = floordiv_ref(v, s, 1 << RES) if op == "mul" else floordiv_ref(v, 1 << RES, s)
        if res.lc.value != ref:
            failures.append("wrong result (%s): got %d, Python says %d" % (ctx, res.lc.value, ref))
    if mode == "lazy_false" and res.lc.value % P != 7:
        failures.append("if_then_else picked the wrong branch (%s)" % ctx)
    return len(be.constraints) - c0

for op in ("mul", "div"):
    for f in floats:
        counts = set()
        for v in values:
            for mode in ("plain", "ignore", "gtrue", "gfalse", "nested_false", "lazy_false", "lazy_true"):
                n = one_case(op, v, f, mode)
                if mode == "plain" and n is not None:
                    counts.add(n)
                    if n == 0: stats["free"] += 1
        # (5) circuit shape independent of the secret value
        if len(counts) > 1:
            failures.append("constraint count depends on the secret value for %s by %r: %s" % (op, f, sorted(counts)))

# ---------------------------------------------------------------- (4) forged witnesses around the division gadget
# Re-run one rounding multiplication/division, then overwrite the freshly allocated private wires of the gadget with
# every candidate (quo, rem) in a window and see which candidates satisfy all constraints: only the true floor may.
import math
REDUCED = hasattr(LinCombFxp, "_mul_ratio")      # tree with P: the gadget divides by the reduced denominator
def forge(op, v, f):
    x = LinCombFxp(PrivVal(v), False)
    w0, c0 = len(be.privvals), len(be.constraints)
    try:
        res = x * f if op == "mul" else x / f
    except (ValueError, AssertionError):
        check_objects("forge [raised]"); return      # (only the unchanged tree: negative float divisors are refused there)
    check_objects("forge")
    cons = be.constraints[c0:]
    if not cons: return      # exact ratio: result is a linear function of x, nothing to forge
    true_q = res.lc.value
    saved = list(be.privvals[w0:])
    # wires allocated by LinComb.__divmod__: quo, quo*divisor, rem, then bit decompositions
    accepted = set()
    s = scaled(f)
    num, den = (s, 1 << RES) if op == "mul" else (1 << RES, s)
    if REDUCED:
        if den < 0: num, den = -num, -den
        g = math.gcd(num, den); num //= g; den //= g
    for q in range(true_q - 3, true_q + 4):
        r = v * num - q * den
        be.privvals[w0] = q; be.privvals[w0+1] = q * den; be.privvals[w0+2] = r
        # honest bit decompositions of (den - r - 1) and r, as far as they exist in bitlength bits
        pos = w0 + 3
        for t in (den - r - 1, r):
            for ix in range(rt.bitlength):
                be.privvals[pos] = (t >> ix) & 1 if 0 <= t < (1 << rt.bitlength) else 0
                pos += 1
        if all((ev(a) * ev(b) - ev(c)) % P == 0 for (a, b, c) in cons): accepted.add(q)
    be.privvals[w0:w0+len(saved)] = saved
    if accepted != {true_q}:
        failures.append("division gadget accepts quotients %s for %s v=%d f=%r (true %d)" % (sorted(accepted), op, v, f, true_q))

for op in ("mul", "div"):
    for f in (1.5, 0.75, 0.1, 3.0, -1.5, 2.5, 0.5, 2.0):
        for v in (0, 1, 5, 257, 1000, -1, -257):
            forge(op, v, f)
cons_done = len(be.constraints)

# ---------------------------------------------------------------- report
print("operations completed: %(ok)d, raised: %(raised)d, constraint-free results: %(free)d" % stats)
print("objects checked against the witness:", nchecked, " constraints emitted:", len(be.constraints))
if stats["ok"] < 1000 or nchecked < 10000:
    failures.append("too few cases were actually exercised")
if failures:
    print("FAILED:")
    for m in failures[:20]: print("  ", m)
    sys.exit(1)
print("OK: every reported value equals its wire expression on the recorded witness")
sys.exit(0)
